"""C21 — isotropic moduli and stiffness tensors are mutually consistent
(exact rational identities in the moduli, decided on the IR)."""
from fractions import Fraction
from common import *
from absint import lower_driver, Unsupported
from tensoralg import *
import poly as P

RULE = ("Poly-domain abstract interpretation of the moduli conversions and stiffness builders: conversions are mutually "
        "inverse, agree with computeLambda/computeMu, stiffness entries equal lambda+2mu / lambda / 2mu (Mandel), "
        "orthotropic stiffness times the engineering compliance is the identity, plane-stress tensors are the static "
        "condensation of the 3D tensor")
HYPS = {"tridimensional": 3, "planestrain": 2, "planestress": 2, "axisymmetrical": 2,
        "generalisedplanestrain": 2, "axigps": 1, "axigpstress": 1}
PLANE_STRESS = ("planestress", "axigpstress")


def flat(M):
    return [x for r in M for x in r]


def run(tier):
    rep = Report("C21", tier, "proof", RULE)
    # thorough: a second optimisation pipeline as a cross-check of the lowering. -O3 rather than -O1: the moduli classes have a
    # virtual interface that -O1 does not devirtualise (the call goes through the vtable, outside the interpreted fragment)
    rep.trusted += ["clang 14 code generation and -O2 (thorough: cross-checked with -O3)", "bin/ir2json, lib/absint.py, lib/poly.py"]
    drv = os.path.join(VERIF, "drivers", "c21_moduli.cxx")
    for opt in ["-O2"] + (["-O3"] if tier == "thorough" else []):
        P.reset_registry()
        mod = lower_driver(drv, os.path.join(OUT, "C21"), "c21" + opt, opt=opt)
        unwritten = {}

        def one(fname, inputs, nout):
            if fname not in mod["functions"]:
                raise AnalysisBroken("shim %s missing" % fname)
            try:
                r = run_shim(mod, fname, inputs, [nout])
            except Unsupported as e:
                raise AnalysisBroken("%s (%s): outside the straight-line algebraic fragment: %s" % (fname, opt, e))
            if len(r) != 1:
                raise AnalysisBroken("%s: %d paths" % (fname, len(r)))
            rep.count("shims interpreted (%s)" % opt)
            out = r[0][1][0]
            unwritten[fname] = [i for i, x in enumerate(out) if x is None or x is UNDEF or (isinstance(x, tuple) and x == UNDEF)]
            return out

        def check(name, got, want, what):
            key = "IDENTITY@" + name
            bad = [i for i, x in enumerate(got) if not isinstance(x, Rat)]
            if bad:
                rep.fail("UNWRITTEN@" + name, "%s: output component(s) %s are never written (uninitialised values are "
                         "returned to the caller)" % (name, bad))
                return
            d = first_diff(got, want)
            if len(got) != len(want):
                rep.fail(key, "%s: arity mismatch" % name)
            elif d is None:
                rep.ok("%s: %s (%s)" % (name, what, opt))
            else:
                i, x, y = d
                rep.fail(key, "%s component %d is  %r  but %s gives  %r" % (name, i, x, what, y), component=i)
        E, nu, K, G, L, M = (Rat.var(x) for x in ("E", "nu", "K", "G", "lam", "mu"))
        lam_o = E * nu / ((1 + nu) * (1 - 2 * nu))
        mu_o = E / (2 * (1 + nu))
        kap_o = E / (3 * (1 - 2 * nu))
        check("computeLambda", one("verif_lambda", [[E, nu]], 1), [lam_o], "E nu/((1+nu)(1-2nu))")
        check("computeMu", one("verif_mu", [[E, nu]], 1), [mu_o], "E/(2(1+nu))")
        check("YoungNu->LambdaMu", one("verif_EN_to_LM", [[E, nu]], 2), [lam_o, mu_o], "Lame coefficients")
        check("YoungNu->KG", one("verif_EN_to_KG", [[E, nu]], 2), [kap_o, mu_o], "(E/(3(1-2nu)), E/(2(1+nu)))")
        # mutual inverses
        for a, b, ins in (("EN", "LM", [E, nu]), ("EN", "KG", [E, nu]), ("KG", "LM", [K, G]), ("KG", "EN", [K, G]),
                          ("LM", "EN", [L, M]), ("LM", "KG", [L, M])):
            mid = one("verif_%s_to_%s" % (a, b), [ins], 2)
            back = one("verif_%s_to_%s" % (b, a), [mid], 2)
            check("%s->%s->%s" % (a, b, a), back, ins, "identity")
        kg_lm = one("verif_KG_to_LM", [[K, G]], 2)
        check("KG->LambdaMu", kg_lm, [K - 2 * G / 3, G], "(K - 2G/3, G)")
        # 3D isotropic stiffness from moduli
        C = one("verif_iso_from_KG", [[K, G]], 36)
        lamKG = K - 2 * G / 3
        want = [[Rat(0)] * 6 for _ in range(6)]
        for i in range(3):
            for j in range(3):
                want[i][j] = lamKG + (2 * G if i == j else 0)
        for i in range(3, 6):
            want[i][i] = 2 * G
        check("computeIsotropicStiffnessTensor(KG)", C, flat(want), "3K J + 2G K = lambda IxI + 2mu Id")
        check("computeKGModuli(computeIsotropicStiffnessTensor(KG))", one("verif_KG_from_iso", [C], 2), [K, G], "identity")
        # per-hypothesis builders
        e1, e2, e3, n12, n23, n13, g12, g23, g13 = (Rat.var(x) for x in ("E1", "E2", "E3", "n12", "n23", "n13", "G12", "G23", "G13"))
        S3 = [[1 / e1, -n12 / e1, -n13 / e1], [-n12 / e1, 1 / e2, -n23 / e2], [-n13 / e1, -n23 / e2, 1 / e3]]
        shear = [g12, g13, g23]      # Mandel order: xy, xz, yz
        for hname, N in HYPS.items():
            n = SSZ[N]
            for alt in ("U", "A"):
                altered = (alt == "A") and hname in PLANE_STRESS
                # isotropic
                D = one("verif_iso_%s_%s" % (hname, alt), [[E, nu]], n * n)
                full = [[Rat(0)] * n for _ in range(n)]
                for i in range(3):
                    for j in range(3):
                        full[i][j] = lam_o + (2 * mu_o if i == j else 0)
                for i in range(3, n):
                    full[i][i] = 2 * mu_o
                if altered:
                    full = condense(full, N)
                check("computeIsotropicStiffnessTensor<%s,%s>" % (hname, "ALTERED" if alt == "A" else "UNALTERED"), D, flat(full),
                      "plane-stress condensation of the 3D tensor" if altered else "sub-block of lambda IxI + 2mu Id")
                # orthotropic: stiffness . compliance = identity on the normal block, 2G on shear
                Do = one("verif_ortho_%s_%s" % (hname, alt), [[e1, e2, e3, n12, n23, n13, g12, g23, g13]], n * n)
                nm = "computeOrthotropicStiffnessTensor<%s,%s>" % (hname, "ALTERED" if alt == "A" else "UNALTERED")
                if any(not isinstance(x, Rat) for x in Do):
                    check(nm, Do, Do, "")
                    continue
                Dm = [Do[i * n:(i + 1) * n] for i in range(n)]
                if altered:
                    # in-plane block times in-plane compliance = identity
                    blk = [[Dm[i][j] for j in (0, 1)] for i in (0, 1)]
                    Sp = [[S3[i][j] for j in (0, 1)] for i in (0, 1)]
                    check(nm + " in-plane block", flat(matmul(blk, Sp)), flat(ident(2)), "C_plane . S_plane = I (S from E_i, nu_ij)")
                    rest = [Dm[i][j] for i in range(n) for j in range(n) if (i == 2 or j == 2)]
                    check(nm + " out-of-plane row/column", rest, [Rat(0)] * len(rest), "zero (sigma_zz = 0)")
                else:
                    blk = [[Dm[i][j] for j in range(3)] for i in range(3)]
                    check(nm + " normal block", flat(matmul(blk, S3)), flat(ident(3)), "C . S = I (S from E_i, nu_ij)")
                for k in range(3, n):
                    row = [Dm[k][j] for j in range(n)]
                    wantrow = [Rat(0)] * n
                    wantrow[k] = 2 * shear[k - 3]
                    check(nm + " shear row %d" % k, row, wantrow, "2 G (Mandel)")
    rep.floor("shims interpreted (-O2)", 40)
    # axes conventions: the PIPE variants of the orthotropic builders (unaltered and altered) are the restriction of the
    # 3D tensor of the permuted material (shared with C28)
    import C28
    C28.conventions(rep, tier)
    rep.assumptions += ["exact rational arithmetic in the moduli; admissibility (positive definiteness) is not decided",
                        "engineering compliance convention S_ij = -nu_ij/E_i with nu12, nu23, nu13 as passed"]
    return rep


def condense(C, N):
    """static condensation of the zz row/column (index 2)."""
    n = len(C)
    out = [[Rat(0)] * n for _ in range(n)]
    for i in range(n):
        for j in range(n):
            if i == 2 or j == 2:
                continue
            out[i][j] = C[i][j] - C[i][2] * C[2][j] / C[2][2]
    return out
