"""Oracle-side tensor algebra over poly.Rat (written from the definitions:
matrix of a Mandel vector, index notation), plus the shim runner of Engine B."""
from fractions import Fraction
import poly as P
from poly import Rat
from absint import Machine, explore, ptr, Unsupported, UNDEF
from domains import PolyDomain

S2 = lambda: Rat(P.SQRT2())
SSZ = {1: 3, 2: 4, 3: 6}
TSZ = {1: 3, 2: 5, 3: 9}


def syms(prefix, n):
    return [Rat.var("%s%d" % (prefix, i)) for i in range(n)]


def zeros(n, m=None):
    if m is None:
        return [Rat(0) for _ in range(n)]
    return [[Rat(0) for _ in range(m)] for _ in range(n)]


def ident(n=3):
    return [[Rat(1 if i == j else 0) for j in range(n)] for i in range(n)]


def matmul(A, B):
    n, k, m = len(A), len(B), len(B[0])
    return [[sum((A[i][l] * B[l][j] for l in range(k)), Rat(0)) for j in range(m)] for i in range(n)]


def transpose(A):
    return [list(r) for r in zip(*A)]


def madd(A, B, sa=1, sb=1):
    return [[A[i][j] * sa + B[i][j] * sb for j in range(len(A[0]))] for i in range(len(A))]


def mscale(A, c):
    return [[x * c for x in r] for r in A]


def det3(M):
    return (M[0][0] * (M[1][1] * M[2][2] - M[1][2] * M[2][1])
            - M[0][1] * (M[1][0] * M[2][2] - M[1][2] * M[2][0])
            + M[0][2] * (M[1][0] * M[2][1] - M[1][1] * M[2][0]))


def trace3(M):
    return M[0][0] + M[1][1] + M[2][2]


def stensor_matrix(s, N):
    """3x3 matrix of a Mandel vector: (xx, yy, zz, sqrt2 xy, sqrt2 xz, sqrt2 yz)."""
    h = Rat(1) / S2()
    z = Rat(0)
    xy = s[3] * h if N >= 2 else z
    xz = s[4] * h if N == 3 else z
    yz = s[5] * h if N == 3 else z
    return [[s[0], xy, xz], [xy, s[1], yz], [xz, yz, s[2]]]


def matrix_stensor(M, N, symmetrise=True):
    r2 = S2()
    sym = lambda i, j: (M[i][j] + M[j][i]) * Fraction(1, 2) if symmetrise else M[i][j]
    out = [M[0][0], M[1][1], M[2][2]]
    if N >= 2:
        out.append(sym(0, 1) * r2)
    if N == 3:
        out.append(sym(0, 2) * r2)
        out.append(sym(1, 2) * r2)
    return out


def tensor_matrix(t, N):
    """3x3 matrix of an unsymmetric tensor: (xx,yy,zz,xy,yx,xz,zx,yz,zy)."""
    z = Rat(0)
    g = lambda i: t[i] if i < TSZ[N] else z
    return [[g(0), g(3), g(5)], [g(4), g(1), g(7)], [g(6), g(8), g(2)]]


def matrix_tensor(M, N):
    full = [M[0][0], M[1][1], M[2][2], M[0][1], M[1][0], M[0][2], M[2][0], M[1][2], M[2][1]]
    return full[:TSZ[N]]


def clear_denominators(vals):
    """(numerators as Rat with denominator 1, common denominator as Rat): the
    common denominator is the product of the distinct denominators."""
    dens = {}
    for v in vals:
        dens.setdefault(v.d.key(), v.d)
    D = P.Poly.const(1)
    for d in dens.values():
        D = D * d
    nums = []
    for v in vals:
        f = P.Poly.const(1)
        for k, d in dens.items():
            if k != v.d.key():
                f = f * d
        nums.append(Rat(v.n * f))
    return nums, Rat(D)


def eq_list(a, b):
    return len(a) == len(b) and all(x.equals(y) for x, y in zip(a, b))


def first_diff(a, b):
    for i, (x, y) in enumerate(zip(a, b)):
        if not x.equals(y):
            return i, x, y
    return None


def run_shim(mod, fname, inputs, out_sizes, max_paths=16, scalars=(), fresh_externals=False, inout=()):
    """inputs: list of lists of Rat (one list per input pointer argument, in
    order); out_sizes: number of doubles read back from each output pointer
    (appended after the inputs); scalars: extra trailing non-pointer args.
    Returns [(path_atoms, [out lists], trace, assumptions)]."""
    dom = PolyDomain(fresh_externals=fresh_externals)
    m = Machine(mod, dom)
    bases = {}

    def make_args(mm):
        args = []
        bases["ins"] = []
        for k, vals in enumerate(inputs):
            b = mm.alloc("in%d" % k)
            for i, v in enumerate(vals):
                mm.store(ptr(b, 8 * i), v, 8)
            args.append(ptr(b, 0))
            bases.setdefault("ins", []).append(b)
        outs = []
        for k, n in enumerate(out_sizes):
            b = mm.alloc("out%d" % k)
            outs.append(b)
            args.append(ptr(b, 0))
        bases["outs"] = outs + [bases["ins"][k] for k in inout]
        return args + list(scalars)
    res = []
    for path, ret, mem, trace, assum in explore(m, fname, make_args, max_paths=max_paths):
        outs = []
        for b, n in zip(bases["outs"], list(out_sizes) + [len(inputs[k]) for k in inout]):
            vals = []
            for i in range(n):
                c = mem[b].get(8 * i)
                if c is None:
                    vals.append(None)
                else:
                    v = c[0]
                    if (isinstance(v, str) and v == "zero8") or (isinstance(v, tuple) and v and v[0] == "zero8"):
                        v = Rat(0)
                    if isinstance(v, int):
                        if v != 0:
                            raise Unsupported("integer bit pattern %d stored as a float" % v)
                        v = Rat(0)
                    vals.append(v)
            outs.append(vals)
        res.append((path, outs, trace, assum, ret, dom))
    return res


# ------------------------------------------------------------------------
# Data-dependent special cases (if (x == 0) fast path ...): case analysis on
# the input side.  The generic pass uses free symbols and follows, in every
# shim, the path on which no tested equality holds; every other path is an
# equality constraint 'symbol == constant' (or symbol == symbol) on the
# inputs: the whole block of identities is re-derived with the inputs
# specialised accordingly, so that code and oracle see the same inputs.
class Specialiser:
    def __init__(self, max_passes=24):
        self.current = {}       # symbol name -> Rat
        self.todo = []
        self.seen = set([frozenset()])
        self.max_passes = max_passes
        self.npasses = 0

    def passes(self):
        """yields a description of each specialisation; the caller re-runs its
        block of checks for each."""
        self.current = {}
        yield ""
        while self.todo:
            spec = self.todo.pop(0)
            self.npasses += 1
            if self.npasses > self.max_passes:
                raise Unsupported("more than %d input specialisations" % self.max_passes)
            self.current = dict(spec)
            yield " [inputs specialised: %s]" % ", ".join("%s=%r" % kv for kv in sorted(spec))

    def syms(self, prefix, n):
        res = []
        for i in range(n):
            nm = "%s%d" % (prefix, i)
            res.append(self.current[nm] if nm in self.current else Rat.var(nm))
        return res

    @staticmethod
    def _linear(d):
        """d (Rat) == 0 as 'symbol = value' if d is c1*x + k or c1*x + c2*y; else None."""
        if not d.d.is_const():
            return None
        terms = d.n.t
        lin = [(m, c) for m, c in terms.items() if m != ()]
        k = terms.get((), Fraction(0))
        if not lin or any(len(m) != 1 or m[0][1] != 1 for m, c in lin):
            return None
        names = [P._names[m[0][0]] for m, c in lin]
        if any(n in ("sqrt2", "sqrt3") or "#" in n for n in names):
            return None
        if len(lin) == 1:
            (m, c), = lin
            return names[0], Rat(-k / c)
        if len(lin) == 2 and k == 0:
            (m1, c1), (m2, c2) = lin
            return names[0], Rat(P.Poly.var(names[1]).scale(-c2 / c1))
        return None

    def select(self, fname, results):
        """results: output of run_shim (list of paths).  Returns the generic
        path and queues the specialisations of the others."""
        if len(results) == 1:
            return results[0]
        generic = None
        for r in results:
            path = r[0]
            eqs = {}
            is_generic = True
            for info, dec in path:
                if not (isinstance(info, tuple) and len(info) == 3 and isinstance(info[0], str)):
                    raise Unsupported("%s branches on %r" % (fname, info))
                pred, a, b = info
                base = pred[1:] if len(pred) == 3 else pred
                if base not in ("eq", "ne"):
                    raise Unsupported("%s branches on the ordering comparison %s of input-dependent values" % (fname, pred))
                holds = (base == "eq") == bool(dec)
                if holds:
                    is_generic = False
                    lin = self._linear(a - b)
                    if lin is None:
                        raise Unsupported("%s: equality %r == %r is not of the form symbol == constant" % (fname, a, b))
                    eqs[lin[0]] = lin[1]
            if is_generic:
                generic = r
            else:
                spec = dict(self.current)
                spec.update(eqs)
                key = frozenset((k, repr(v)) for k, v in spec.items())
                if key not in self.seen:
                    self.seen.add(key)
                    self.todo.append(sorted(spec.items()))
        if generic is None:
            raise Unsupported("%s: no generic path among %d" % (fname, len(results)))
        return generic
