// shims around closed-form symmetric tensor operations (C01).
// in/out are raw arrays; Mandel components of stensor<N> in storage order.
#include "TFEL/Math/stensor.hxx"
#include "TFEL/Math/tmatrix.hxx"
#include "TFEL/Math/tvector.hxx"
using namespace tfel::math;
template <unsigned short N> constexpr unsigned short ssz = StensorDimeToSize<N>::value;
template <unsigned short N>
static stensor<N, double> ld(const double* p) {
  stensor<N, double> s;
  for (unsigned short i = 0; i != ssz<N>; ++i) s[i] = p[i];
  return s;
}
template <unsigned short N, typename S>
static void st(double* p, const S& s) {
  const stensor<N, double> r = s;
  for (unsigned short i = 0; i != ssz<N>; ++i) p[i] = r[i];
}
static rotation_matrix<double> ldm(const double* p) {
  rotation_matrix<double> m;
  for (unsigned short i = 0; i != 3; ++i)
    for (unsigned short j = 0; j != 3; ++j) m(i, j) = p[3 * i + j];
  return m;
}
#define SHIMS(N)                                                                                      \
  extern "C" void verif_trace_##N(const double* a, double* o) { o[0] = trace(ld<N>(a)); }            \
  extern "C" void verif_det_##N(const double* a, double* o) { o[0] = det(ld<N>(a)); }                \
  extern "C" void verif_invert_##N(const double* a, double* o) { st<N>(o, invert(ld<N>(a))); }       \
  extern "C" void verif_square_##N(const double* a, double* o) { st<N>(o, square(ld<N>(a))); }       \
  extern "C" void verif_symprod_##N(const double* a, const double* b, double* o) {                   \
    st<N>(o, symmetric_product(ld<N>(a), ld<N>(b)));                                                  \
  }                                                                                                   \
  extern "C" void verif_deviator_##N(const double* a, double* o) { st<N>(o, deviator(ld<N>(a))); }   \
  extern "C" void verif_sigmaeq_##N(const double* a, double* o) { o[0] = sigmaeq(ld<N>(a)); }        \
  extern "C" void verif_contract_##N(const double* a, const double* b, double* o) {                  \
    o[0] = ld<N>(a) | ld<N>(b);                                                                       \
  }                                                                                                   \
  extern "C" void verif_changebasis_##N(const double* a, const double* r, double* o) {               \
    st<N>(o, change_basis(ld<N>(a), ldm(r)));                                                         \
  }                                                                                                   \
  extern "C" void verif_changeBasis_member_##N(const double* a, const double* r, double* o) {        \
    auto s = ld<N>(a);                                                                                \
    s.changeBasis(ldm(r));                                                                            \
    st<N>(o, s);                                                                                      \
  }                                                                                                   \
  extern "C" void verif_fromMatrix_##N(const double* m, double* o) {                                 \
    st<N>(o, stensor<N, double>::buildFromMatrix(tmatrix<3u, 3u, double>(ldm(m))));                    \
  }                                                                                                   \
  extern "C" void verif_fromVectorDiadic_##N(const double* v, double* o) {                           \
    const tvector<3u, double> vv = {v[0], v[1], v[2]};                                                \
    st<N>(o, stensor<N, double>::buildFromVectorDiadicProduct(vv));                                   \
  }                                                                                                   \
  extern "C" void verif_fromVectorsSymDiadic_##N(const double* v, const double* w, double* o) {      \
    const tvector<3u, double> vv = {v[0], v[1], v[2]};                                                \
    const tvector<3u, double> ww = {w[0], w[1], w[2]};                                                \
    st<N>(o, stensor<N, double>::buildFromVectorsSymmetricDiadicProduct(vv, ww));                     \
  }                                                                                                   \
  extern "C" void verif_fromEigen_##N(const double* v, const double* m, double* o) {                 \
    const tvector<3u, double> vv = {v[0], v[1], v[2]};                                                \
    st<N>(o, stensor<N, double>::buildFromEigenValuesAndVectors(vv, ldm(m)));                         \
  }                                                                                                   \
  extern "C" void verif_importTab_##N(const double* t, double* o) {                                  \
    stensor<N, double> s;                                                                             \
    s.importTab(t);                                                                                   \
    st<N>(o, s);                                                                                      \
  }                                                                                                   \
  extern "C" void verif_exportTab_##N(const double* a, double* o) { ld<N>(a).exportTab(o); }         \
  extern "C" void verif_importVoigt_##N(const double* t, double* o) {                                \
    stensor<N, double> s;                                                                             \
    s.importVoigt(t);                                                                                 \
    st<N>(o, s);                                                                                      \
  }
SHIMS(1)
SHIMS(2)
SHIMS(3)
