#include <cstdio>
#include <cstring>
#include <vector>
#include <string>
#include "MFront/GenericBehaviour/BehaviourData.h"
struct GB {
  std::vector<double> mps, isv0, isv1, esv0, esv1, g0, g1, th0, th1, K;
  double rdt = 1, dt = 1, rho = 1, se0 = 0, de0 = 0, se1 = 0, de1 = 0, speed = -1;
  char msg[512];
  mfront_gb_BehaviourData d;
  GB(int ng, int nth, int nmp, int nisv, int nesv, int nK)
      : mps(nmp), isv0(nisv), isv1(nisv, -7), esv0(nesv), esv1(nesv), g0(ng), g1(ng), th0(nth), th1(nth, -7), K(nK) {
    msg[0] = 0;
  }
  mfront_gb_BehaviourData* data() {
    std::memset(&d, 0, sizeof(d));
    d.error_message = msg; d.dt = dt; d.K = K.data(); d.rdt = &rdt; d.speed_of_sound = &speed;
    d.s0.mass_density = &rho; d.s0.gradients = g0.data(); d.s0.thermodynamic_forces = th0.data();
    d.s0.material_properties = mps.data(); d.s0.internal_state_variables = isv0.data();
    d.s0.stored_energy = &se0; d.s0.dissipated_energy = &de0; d.s0.external_state_variables = esv0.data();
    d.s1.mass_density = &rho; d.s1.gradients = g1.data(); d.s1.thermodynamic_forces = th1.data();
    d.s1.material_properties = mps.data(); d.s1.internal_state_variables = isv1.data();
    d.s1.stored_energy = &se1; d.s1.dissipated_energy = &de1; d.s1.external_state_variables = esv1.data();
    return &d;
  }
};
