"""Floating domains for absint: Order (weak orders of tokens)."""
from absint import Domain, Unsupported, FConst


class OrderDomain(Domain):
    """inputs are tokens under a weak order (rank per token); floats may only be
    compared and moved.  Any arithmetic on a token aborts the analysis."""
    name = "Order"

    def __init__(self, ranks):
        self.ranks = ranks
        self.assumed = set()

    def tok(self, name):
        return ("tok", name)

    def zero(self):
        return ("fc", "0")

    def const(self, fc):
        return ("fc", fc.repr)

    def from_int(self, i):
        return ("fc", str(i))

    def fcmp(self, pred, a, b, m):
        if pred == "ord":
            return 1
        if pred == "uno":
            return 0
        if a[0] != "tok" or b[0] != "tok":
            raise Unsupported("comparison of a token with a non-token (%r, %r)" % (a, b))
        ra, rb = self.ranks[a[1]], self.ranks[b[1]]
        base = pred[1:] if pred[0] in "ou" else pred
        if pred[0] == "u":
            m.assumptions.add("unordered predicate %s treated as ordered (inputs finite, not NaN)" % pred)
        res = {"eq": ra == rb, "ne": ra != rb, "gt": ra > rb, "ge": ra >= rb, "lt": ra < rb, "le": ra <= rb}[base]
        return int(res)

    def call(self, name, args, m):
        if name == "verif_pred" and all(a[0] == "tok" for a in args[:2]):
            # an opaque strict weak order given as a weak order on the tokens: pred(a,b) = a before b
            return int(self.ranks[args[0][1]] < self.ranks[args[1][1]])
        if name in ("maxnum", "minnum", "fmax", "fmin") and all(a[0] == "tok" for a in args[:2]):
            a, b = args[:2]
            ra, rb = self.ranks[a[1]], self.ranks[b[1]]
            if name in ("maxnum", "fmax"):
                return a if ra >= rb else b
            return a if ra <= rb else b
        raise Unsupported("call of %s on tokens" % name)


# ---------------------------------------------------------------- Poly
import math
from fractions import Fraction
import poly as P


def _ulp(x):
    return math.ulp(abs(x)) if x != 0 else 5e-324


def recognise_constant(x):
    """exact algebraic value of a double literal: small rationals, rational
    multiples of sqrt2/sqrt3/sqrt6 (within 2 ulp: products of literals are
    rounded by the compiler), else the exact dyadic value (always sound)."""
    if x == 0:
        return P.Rat(0), "0"
    r = Fraction(x).limit_denominator(100000)
    if float(r) == x:
        return P.Rat(P.Poly.const(r)), str(r)
    for sym, val, nm in ((P.SQRT2(), math.sqrt(2.0), "sqrt2"), (P.SQRT3(), math.sqrt(3.0), "sqrt3"),
                         (P.SQRT2() * P.SQRT3(), math.sqrt(6.0), "sqrt6")):
        q = Fraction(x / val).limit_denominator(5000)
        if q != 0 and abs(float(q) * val - x) <= 2 * _ulp(x):
            return P.Rat(sym.scale(q)), "%s*%s" % (q, nm)
    # a decimal literal: the shortest round-trip decimal, when it is short
    rs = repr(x)
    digits = rs.replace("-", "").replace(".", "").split("e")[0].lstrip("0")
    if len(digits) <= 12:
        return P.Rat(P.Poly.const(Fraction(rs))), "decimal(%s)" % rs
    return P.Rat(P.Poly.const(Fraction(x))), "dyadic(%r)" % x


class PolyDomain(Domain):
    """floats are exact rational functions of the input symbols over
    Q(sqrt2, sqrt3) with radical/application atoms; comparisons fork."""
    name = "Poly"

    def __init__(self, fresh_externals=False):
        self.constants = {}
        self.atoms = {}
        self.apps = {}
        self.fresh_externals = fresh_externals

    def sym(self, name):
        return P.Rat.var(name)

    def zero(self):
        return P.Rat(0)

    def const(self, fc):
        x = fc.as_float()
        if math.isnan(x) or math.isinf(x):
            return ("special", fc.repr)
        v, how = recognise_constant(x)
        self.constants[fc.repr] = how
        return v

    def from_int(self, i):
        return P.Rat(i)

    def _r(self, a):
        if isinstance(a, P.Rat):
            return a
        raise Unsupported("non-algebraic float value %r" % (a,))

    def arith(self, op, a, b):
        a, b = self._r(a), self._r(b)
        if op == "fadd":
            return a + b
        if op == "fsub":
            return a - b
        if op == "fmul":
            return a * b
        if op == "fdiv":
            if b.is_zero():
                raise Unsupported("division by an identically zero expression")
            return a / b
        raise Unsupported(op)

    def neg(self, a):
        return -self._r(a)

    def fcmp(self, pred, a, b, m):
        if pred == "ord":
            return 1
        if pred == "uno":
            return 0
        if isinstance(a, tuple) or isinstance(b, tuple):
            raise Unsupported("comparison with a special value")
        d = a - b
        if d.is_const():
            c = d.n.const_value() / d.d.const_value() if not d.n.is_zero() else Fraction(0)
            base = pred[1:] if pred[0] in "ou" else pred
            return int({"eq": c == 0, "ne": c != 0, "gt": c > 0, "ge": c >= 0, "lt": c < 0, "le": c <= 0}[base])
        return ("cond", (pred, a, b))

    def atom(self, kind, k, arg):
        """radical atom kind(arg) with relation atom**k = arg (arg polynomial)."""
        key = (kind, arg.key())
        if key not in self.atoms:
            name = "%s#%d" % (kind, len(self.atoms))
            if arg.d.is_const():
                a = P.define_atom(name, k, arg.n)
                self.atoms[key] = (P.Rat(a), name, arg)
            else:
                # sqrt(n/d) = sqrt(n*d)/d ; cbrt(n/d) = cbrt(n*d*d)/d
                inner = P.Rat(arg.n * (arg.d ** (k - 1)))
                a = P.define_atom(name, k, inner.n)
                self.atoms[key] = (P.Rat(a) / P.Rat(arg.d), name, arg)
        return self.atoms[key][0]

    def call(self, name, args, m):
        if name in ("sqrt", "sqrtf"):
            a = self._r(args[0])
            if a.is_const():
                c = a.n.const_value() / a.d.const_value() if not a.n.is_zero() else Fraction(0)
                if c >= 0:
                    rn, rd = math.isqrt(c.numerator), math.isqrt(c.denominator)
                    if rn * rn == c.numerator and rd * rd == c.denominator:
                        return P.Rat(Fraction(rn, rd))
                    if c == 2:
                        return P.Rat(P.SQRT2())
                    if c == 3:
                        return P.Rat(P.SQRT3())
            return self.atom("sqrt", 2, a)
        if name in ("cbrt", "cbrtf"):
            return self.atom("cbrt", 3, self._r(args[0]))
        if name in ("fabs", "fabsf"):
            a = self._r(args[0])
            if a.is_const():
                c = a.n.const_value() / a.d.const_value() if not a.n.is_zero() else Fraction(0)
                return P.Rat(abs(c))
            # |a| is a or -a: fork on the sign
            d = m.decide(("sign", a))
            return a if d else -a
        if name in ("maxnum", "minnum", "fmax", "fmin"):
            a, b = self._r(args[0]), self._r(args[1])
            d = m.decide((name, a, b))
            return a if d else b
        if self.fresh_externals:
            # an opaque functor: every call returns a fresh symbol; the call sequence is the observable
            an = "%s#%d" % (name, len(m.trace))
            if getattr(m, "cur_ty", "").startswith("i"):
                v = ("cond", ("ext", an))       # opaque integer / boolean result
            else:
                v = P.Rat.var(an)
            m.trace.append((name, list(args), v))
            return v
        # application atom of an opaque (pure) external function
        if all(isinstance(a, P.Rat) for a in args):
            key = (name, tuple(a.key() for a in args))
            if key not in self.apps:
                an = "%s@%d" % (name, len(self.apps))
                self.apps[key] = (P.Rat.var(an), an, list(args))
            m.trace.append((name, list(args)))
            return self.apps[key][0]
        raise Unsupported("call of %s" % name)
