"""C04 — requested eigenvalue ordering is honoured, ties included.

Order(3) abstract interpretation of the -O2 IR of each sorter: the sorters touch
their floating inputs only through comparisons and moves, so they are functions
of the weak order of the inputs; all 13 weak orders of three values (3 for the
in-plane pair in 2D) x {ASCENDING, DESCENDING, UNSORTED} are enumerated and the
output permutation is read off each path."""
import itertools
from common import *
from absint import *
from domains import OrderDomain

RULE = ("Order(3) abstract interpretation of LLVM IR: for every weak order of the eigenvalues and every requested "
        "ordering, the output values are a sorted permutation of the inputs (UNSORTED: identity) and the eigenvector "
        "columns undergo the same permutation")
SORTERS_VAL = {"verif_sev1": 1, "verif_sev2": 2, "verif_sev3": 3, "verif_sortEigenValues": 3}
SORTERS_VEC = {"verif_sevec1": 1, "verif_sevec2": 2, "verif_sevec3": 3, "verif_fses_sort": 3}
NAMES = {"verif_sev1": "internals::SortEigenValues<1>::exe", "verif_sev2": "internals::SortEigenValues<2>::exe",
         "verif_sev3": "internals::SortEigenValues<3>::exe", "verif_sortEigenValues": "tfel::math::sortEigenValues",
         "verif_sevec1": "internals::SortEigenVectors<1>::exe", "verif_sevec2": "internals::SortEigenVectors<2>::exe",
         "verif_sevec3": "internals::SortEigenVectors<3>::exe", "verif_fses_sort": "fses::sort"}
ORD = {0: "ASCENDING", 1: "DESCENDING", 2: "UNSORTED"}


def weak_orders(n):
    """all weak orders of n items as rank tuples (canonical: ranks 0..k-1 all used)."""
    res = set()
    for r in itertools.product(range(n), repeat=n):
        ks = sorted(set(r))
        res.add(tuple(ks.index(x) for x in r))
    return sorted(res)


def run(tier):
    rep = Report("C04", tier, "proof", RULE)
    rep.trusted += ["clang 14 code generation and the -O2 pipeline (thorough tier cross-checks -O1)", "bin/ir2json, lib/absint.py"]
    drv = os.path.join(VERIF, "drivers", "c04_sort.cxx")
    opts = ["-O2"] + (["-O1"] if tier == "thorough" else [])
    for opt in opts:
        mod = lower_driver(drv, os.path.join(OUT, "C04"), "c04" + opt, opt=opt)
        for shim in list(SORTERS_VAL) + list(SORTERS_VEC):
            if shim not in mod["functions"]:
                raise AnalysisBroken("shim %s missing from the lowered driver" % shim)
            dim = SORTERS_VAL.get(shim) or SORTERS_VEC[shim]
            withvec = shim in SORTERS_VEC
            active = {1: 0, 2: 2, 3: 3}[dim]       # number of values that take part in the sort
            rep.count("sorters analysed (%s)" % opt)
            for o in (0, 1, 2):
                for ranks in weak_orders(3):
                    # in 1D/2D only the in-plane values are ordered; all weak orders of the three are still legal inputs
                    dom = OrderDomain({"v0": ranks[0], "v1": ranks[1], "v2": ranks[2],
                                       **{"m%d%d" % (i, j): 100 + 3 * i + j for i in range(3) for j in range(3)}})
                    m = Machine(mod, dom)

                    def make_args(mm):
                        v = mm.alloc("v")
                        for i in range(3):
                            mm.store(ptr(v, 8 * i), dom.tok("v%d" % i), 8)
                        args = [ptr(v, 0)]
                        if withvec:
                            mt = mm.alloc("m")
                            for i in range(3):
                                for j in range(3):
                                    mm.store(ptr(mt, 8 * (3 * i + j)), dom.tok("m%d%d" % (i, j)), 8)
                            args.append(ptr(mt, 0))
                        args.append(o)
                        mm._argbases = (v, args[1][1] if withvec else None)
                        return args
                    try:
                        res = explore(m, shim, make_args)
                    except Unsupported as e:
                        raise AnalysisBroken("%s (%s, %s, ranks %s): outside the compare-and-move fragment: %s"
                                             % (NAMES[shim], opt, ORD[o], ranks, e))
                    if len(res) != 1:
                        raise AnalysisBroken("%s: %d paths for one weak order" % (shim, len(res)))
                    path, ret, mem, trace, assum = res[0]
                    rep.assumptions = sorted(set(rep.assumptions) | assum)
                    vb, mb = m._argbases
                    outv = []
                    for i in range(3):
                        c = mem[vb].get(8 * i)
                        if c is None or c[0][0] != "tok" or not c[0][1].startswith("v"):
                            raise AnalysisBroken("%s: output value %d is not an input token: %r" % (shim, i, c))
                        outv.append(int(c[0][1][1]))
                    rep.count("abstract inputs (weak order x ordering x sorter)")
                    inr = list(ranks)
                    key = "%s#%s ranks=%s" % (NAMES[shim], ORD[o], "".join(map(str, ranks)))
                    desc = "%s(%s) on weak order v=%s" % (NAMES[shim], ORD[o], ranks)
                    ok = True
                    why = ""
                    if sorted(outv) != [0, 1, 2]:
                        ok, why = False, "output %s is not a permutation of the inputs" % outv
                    elif o == 2 or active == 0:
                        if outv != [0, 1, 2]:
                            ok, why = False, "values are moved although no sort is requested/possible: %s" % outv
                    else:
                        idxs = list(range(active))
                        outr = [inr[outv[i]] for i in idxs]
                        if sorted(outv[i] for i in idxs) != idxs:
                            ok, why = False, "a value outside the sorted range was moved: %s" % outv
                        elif o == 0 and any(outr[i] > outr[i + 1] for i in range(len(outr) - 1)):
                            ok, why = False, "ASCENDING requested, output order of ranks is %s" % outr
                        elif o == 1 and any(outr[i] < outr[i + 1] for i in range(len(outr) - 1)):
                            ok, why = False, "DESCENDING requested, output order of ranks is %s" % outr
                        elif active < 3 and outv[2] != 2:
                            ok, why = False, "the out-of-plane value moved"
                    if ok and withvec:
                        # in 1D/2D the rows/columns beyond the space dimension are structural
                        # (0 off the diagonal, 1 on it): only the active block must follow the values,
                        # the rest must stay in place
                        nact = {1: 1, 2: 2, 3: 3}[dim]
                        for i in range(3):
                            for j in range(3):
                                if dim < 3 and (i >= nact or j >= nact):
                                    c = mem[mb].get(8 * (3 * i + j))
                                    got = c[0][1] if c and c[0][0] == "tok" else repr(c)
                                    if got not in ("m%d%d" % (i, j), "m%d%d" % (i, outv[j])):
                                        ok, why = False, "structural entry (%d,%d) replaced by %s" % (i, j, got)
                                    continue
                                c = mem[mb].get(8 * (3 * i + j))
                                want = "m%d%d" % (i, outv[j])
                                got = c[0][1] if c and c[0][0] == "tok" else repr(c)
                                # columns of equal eigenvalues may be exchanged freely only together with their values:
                                if got != want:
                                    ok, why = False, "eigenvector entry (%d,%d) is %s, expected %s (column %d must follow value %d)" \
                                        % (i, j, got, want, j, outv[j])
                    if ok:
                        rep.ok(desc + " -> permutation %s" % outv, sample=(ranks in ((0, 1, 1), (1, 1, 0)) and dim == 3 and o < 2))
                    else:
                        rep.fail("ORDER@" + key, desc + ": " + why, output_permutation=outv, optimisation=opt)
    rep.floor("abstract inputs (weak order x ordering x sorter)", 13 * 3 * 8)
    rep.extra["exhaustive"] = True
    rep.assumptions = list(rep.assumptions) + ["inputs are finite (no NaN), as in the property's hypothesis"]
    return rep
