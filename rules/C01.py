"""C01 — symmetric tensor algebra matches its 3x3 matrix meaning (exact
arithmetic identities decided on the IR in the Poly domain)."""
from fractions import Fraction
from common import *
from absint import lower_driver, Unsupported
from tensoralg import *
from tensoralg import Specialiser
import poly as P

RULE = ("Poly-domain abstract interpretation of the -O2 IR of each closed-form stensor operation (N=1,2,3): the "
        "extracted normal forms in Q(sqrt2)[inputs] equal the matrix-level definition (Mandel convention) exactly")
# frozen on 2026-09-22 after reading stensor.ixx: change_basis(s, r) returns the components of s in the basis whose
# vectors are the COLUMNS of r, i.e. M' = r^T M r
CHANGE_BASIS_CONVENTION = "Rt.M.R"


def rel(loc):
    return loc.replace(REPO + "/", "")


def run(tier):
    rep = Report("C01", tier, "proof", RULE)
    rep.trusted += ["clang 14 code generation and -O2 (thorough: cross-checked with -O1)", "bin/ir2json, lib/absint.py, lib/poly.py"]
    drv = os.path.join(VERIF, "drivers", "c01_stensor.cxx")
    opts = ["-O2"] + (["-O1"] if tier == "thorough" else [])
    dims = (1, 2, 3)
    for opt in opts:
        P.reset_registry()
        spz = Specialiser()
        syms = spz.syms
        sdesc = ""
        mod = lower_driver(drv, os.path.join(OUT, "C01"), "c01" + opt, opt=opt)

        def one(fname, inputs, outs, scal=()):
            if fname not in mod["functions"]:
                raise AnalysisBroken("shim %s missing" % fname)
            try:
                r = run_shim(mod, fname, inputs, outs, scalars=scal)
            except Unsupported as e:
                raise AnalysisBroken("%s (%s): outside the straight-line algebraic fragment: %s" % (fname, opt, e))
            try:
                r = [spz.select(fname, r)]
            except Unsupported as e:
                raise AnalysisBroken("%s (%s): %s" % (fname, opt, e))
            rep.count("shims interpreted (%s)" % opt)
            for v in r[0][1]:
                if any(x is None for x in v):
                    raise AnalysisBroken("%s leaves an output component unwritten" % fname)
            return r[0]

        def check(name, N, got, want, what):
            key = "IDENTITY@%s<%d>" % (name, N)
            if len(got) != len(want):
                rep.fail(key, "%s<%d>: arity mismatch" % (name, N))
                return
            d = first_diff(got, want)
            if d is None:
                rep.ok("%s<%d>: %s (%d components, %s)" % (name, N, what, len(got), opt), sample=(N == 3 and opt == "-O2"))
            else:
                i, x, y = d
                rep.fail(key, "%s<%d> component %d is  %r  but the definition (%s) gives  %r%s" % (name, N, i, x, what, y, sdesc),
                         component=i, optimisation=opt)
        for sdesc in spz.passes():
            for N in dims:
                n = SSZ[N]
                a, b = syms("a", n), syms("b", n)
                A, B = stensor_matrix(a, N), stensor_matrix(b, N)
                half = Fraction(1, 2)
                # trace, det
                check("trace", N, one("verif_trace_%d" % N, [a], [1])[1][0], [trace3(A)], "tr M(s)")
                detv = one("verif_det_%d" % N, [a], [1])[1][0]
                check("det", N, detv, [det3(A)], "det M(s)")
                # invert: M(inv) . M(s) = I
                inv = one("verif_invert_%d" % N, [a], [n])[1][0]
                prod = matmul(stensor_matrix(inv, N), A)
                flat = [prod[i][j] for i in range(3) for j in range(3)]
                check("invert", N, flat, [Rat(1 if i == j else 0) for i in range(3) for j in range(3)], "M(invert(s)).M(s) = I")
                # square, symmetric product
                sq = one("verif_square_%d" % N, [a], [n])[1][0]
                check("square", N, sq, matrix_stensor(matmul(A, A), N), "M(s)^2")
                sp = one("verif_symprod_%d" % N, [a, b], [n])[1][0]
                AB = madd(matmul(A, B), matmul(B, A))
                check("symmetric_product", N, sp, matrix_stensor(mscale(AB, half), N), "(AB+BA)/2")
                spaa = one("verif_symprod_%d" % N, [a, a], [n])[1][0]
                check("symmetric_product(s,s)=square(s)", N, spaa, sq, "square(s)")
                # deviator
                dv = one("verif_deviator_%d" % N, [a], [n])[1][0]
                tr3 = trace3(A) * Fraction(1, 3)
                want = matrix_stensor(madd(A, mscale(ident(), tr3), 1, -1), N)
                check("deviator", N, dv, want, "M(s) - tr/3 I")
                # sigmaeq^2 = 3/2 dev:dev
                se = one("verif_sigmaeq_%d" % N, [a], [1])[1][0][0]
                D = stensor_matrix(want, N)
                dd = sum((D[i][j] * D[i][j] for i in range(3) for j in range(3)), Rat(0))
                check("sigmaeq^2", N, [se * se], [dd * Fraction(3, 2)], "3/2 dev:dev")
                # contraction
                ct = one("verif_contract_%d" % N, [a, b], [1])[1][0]
                check("contraction s1|s2", N, ct, [sum((A[i][j] * B[i][j] for i in range(3) for j in range(3)), Rat(0))], "sum Mij Nij")
                # change of basis: which convention, and agreement of the two entry points
                r = syms("r", 9)
                R = [r[0:3], r[3:6], r[6:9]]
                if N < 3:
                    # in 1D/2D a rotation keeps the out-of-plane axis: structural zeros
                    for (i, j) in ((0, 2), (1, 2), (2, 0), (2, 1)):
                        R[i][j] = Rat(0)
                    R[2][2] = Rat(1)
                    if N == 1:
                        R = ident()
                rin = [R[i][j] for i in range(3) for j in range(3)]
                if N > 1:
                    cb = one("verif_changebasis_%d" % N, [a, rin], [n])[1][0]
                    cbm = one("verif_changeBasis_member_%d" % N, [a, rin], [n])[1][0]
                    w1 = matrix_stensor(matmul(matmul(transpose(R), A), R), N)
                    w2 = matrix_stensor(matmul(matmul(R, A), transpose(R)), N)
                    m1, m2 = eq_list(cb, w1), eq_list(cb, w2)
                    conv = "Rt.M.R" if m1 and not m2 else ("R.M.Rt" if m2 and not m1 else "none/both")
                    if conv == CHANGE_BASIS_CONVENTION:
                        rep.ok("change_basis<%d>(s,r) = %s (%s)" % (N, conv, opt))
                    else:
                        d = first_diff(cb, w1)
                        rep.fail("IDENTITY@change_basis<%d>" % N,
                                 "change_basis<%d>: matches %s, expected %s; component %s%s" % (N, conv, CHANGE_BASIS_CONVENTION, d and d[0], sdesc))
                    check("stensor::changeBasis = change_basis", N, cbm, cb, "free function")
                # builders
                fm = one("verif_fromMatrix_%d" % N, [rin if N > 1 else syms("r", 9)], [n])[1][0]
                Rm = R if N > 1 else [syms("r", 9)[0:3], syms("r", 9)[3:6], syms("r", 9)[6:9]]
                check("buildFromMatrix", N, fm, matrix_stensor(Rm, N), "symmetric part of m, Mandel scaled")
                v, w = syms("v", 3), syms("w", 3)
                vv = [[v[i] * v[j] for j in range(3)] for i in range(3)]
                check("buildFromVectorDiadicProduct", N, one("verif_fromVectorDiadic_%d" % N, [v], [n])[1][0],
                      matrix_stensor(vv, N), "v (x) v")
                vw = [[v[i] * w[j] + w[i] * v[j] for j in range(3)] for i in range(3)]
                check("buildFromVectorsSymmetricDiadicProduct", N, one("verif_fromVectorsSymDiadic_%d" % N, [v, w], [n])[1][0],
                      matrix_stensor(vw, N, symmetrise=False), "v (x) w + w (x) v")
                ev = syms("l", 3)
                Rg = R if N > 1 else ident()
                if N == 1:
                    rin1 = [Rg[i][j] for i in range(3) for j in range(3)]
                spec = [[sum((ev[k] * Rg[i][k] * Rg[j][k] for k in range(3)), Rat(0)) for j in range(3)] for i in range(3)]
                fe = one("verif_fromEigen_%d" % N, [ev, rin if N > 1 else rin1], [n])[1][0]
                check("buildFromEigenValuesAndVectors", N, fe, matrix_stensor(spec, N), "sum_k l_k n_k (x) n_k, n_k = column k of m")
                # import / export
                t = syms("t", n)
                imp = one("verif_importTab_%d" % N, [t], [n])[1][0]
                r2 = S2()
                check("importTab", N, imp, t[:3] + [x * r2 for x in t[3:]], "shear components multiplied by sqrt2")
                exp = one("verif_exportTab_%d" % N, [a], [n])[1][0]
                check("exportTab", N, exp, a[:3] + [x / r2 for x in a[3:]], "shear components divided by sqrt2")
                check("exportTab(importTab(t)) = t", N, [x / r2 if i >= 3 else x for i, x in enumerate(imp)], t, "round trip")
                iv = one("verif_importVoigt_%d" % N, [t], [n])[1][0]
                check("importVoigt", N, iv, t[:3] + [x / r2 for x in t[3:]], "engineering shear (2 eps_ij) divided by sqrt2")
    rep.floor("shims interpreted (-O2)", 51)
    rep.assumptions += ["exact real arithmetic: nothing is decided about rounding, overflow or degenerate inputs (det = 0)",
                        "Mandel convention (xx,yy,zz,sqrt2 xy,sqrt2 xz,sqrt2 yz) as documented in docs/web/tensors.md",
                        "in 1D/2D the rotation matrix passed to change_basis keeps the out-of-plane axis"]
    return rep
