// controls for the OWNERSHIP rule: exactly three adoptions must be reported (b1, b2, b3), none of the others
#include <memory>
namespace verif_ctl {
struct A { virtual ~A() = default; };
struct B : A {};
inline void f(std::shared_ptr<A>& p, std::unique_ptr<A>& u) {
  auto ok1 = std::shared_ptr<A>(new B());                       // fresh
  std::shared_ptr<A> ok2(u.release());                          // fresh (ownership transferred)
  auto ok3 = std::dynamic_pointer_cast<B>(p);                   // aliasing cast, shared control block
  auto b1 = std::shared_ptr<B>(dynamic_cast<B*>(p.get()));      // borrowed
  A* raw = p.get();
  std::shared_ptr<A> b2(raw);                                   // borrowed through a local
  std::shared_ptr<A> b3;
  b3.reset(&*p);                                                // borrowed
  (void)ok1; (void)ok2; (void)ok3; (void)b1; (void)b2;
}
}
