// driver for C27: instantiates every bounds check of TFEL/Material/BoundsCheck.hxx (scalars, quantities, symmetric
// tensors of both for N = 1,2,3); only parsed by cfgdump.
#include "TFEL/Math/qt.hxx"
#include "TFEL/Math/stensor.hxx"
#include "TFEL/Material/OutOfBoundsPolicy.hxx"
#include "TFEL/Material/BoundsCheck.hxx"
using namespace tfel::material;
using stress = tfel::math::qt<tfel::math::unit::Stress, double>;
void verif_scalars(double v, stress q, double l, double u, OutOfBoundsPolicy p) {
  BoundsCheckBase::lowerBoundCheck("v", v, l, p);
  BoundsCheckBase::upperBoundCheck("v", v, u, p);
  BoundsCheckBase::lowerAndUpperBoundsChecks("v", v, l, u, p);
  BoundsCheckBase::lowerBoundCheck("q", q, l, p);
  BoundsCheckBase::upperBoundCheck("q", q, u, p);
  BoundsCheckBase::lowerAndUpperBoundsChecks("q", q, l, u, p);
}
template <unsigned short N>
void verif_tensors(const tfel::math::stensor<N, double>& s, const tfel::math::stensor<N, stress>& sq, double l, double u,
                   OutOfBoundsPolicy p) {
  BoundsCheck<N>::lowerBoundCheck("s", s, l, p);
  BoundsCheck<N>::upperBoundCheck("s", s, u, p);
  BoundsCheck<N>::lowerAndUpperBoundsChecks("s", s, l, u, p);
  BoundsCheck<N>::lowerBoundCheck("sq", sq, l, p);
  BoundsCheck<N>::upperBoundCheck("sq", sq, u, p);
  BoundsCheck<N>::lowerAndUpperBoundsChecks("sq", sq, l, u, p);
}
template void verif_tensors<1u>(const tfel::math::stensor<1u, double>&, const tfel::math::stensor<1u, stress>&, double, double, OutOfBoundsPolicy);
template void verif_tensors<2u>(const tfel::math::stensor<2u, double>&, const tfel::math::stensor<2u, stress>&, double, double, OutOfBoundsPolicy);
template void verif_tensors<3u>(const tfel::math::stensor<3u, double>&, const tfel::math::stensor<3u, stress>&, double, double, OutOfBoundsPolicy);
