"""C40 — a failed behaviour integration leaves the output state untouched."""
from gbrules import *

RULE = ("MUST-PRECEDE(exportStateData; success edges of initialize, a-priori scaling, integrate!=FAILURE, "
        "a-posteriori scaling); NEVER('return -1' after exportStateData); MAY-THROW query on calls following "
        "exportStateData inside the try whose handler returns -1; TRISTATE on wrappers (write-back only when the "
        "inner call did not fail); swapped pointers restored on all paths")


def run(tier):
    rep = Report("C40", tier, "other", RULE)
    per = load_corpus("C40")
    for unit, funcs in sorted(per.items()):
        rep.count("generated units analysed")
        rep.count("functions analysed", len(funcs))
        rule_export_order(rep, funcs)
        rule_tristate(rep, funcs, "C40")
        rule_restore(rep, funcs)
        rule_writeback(rep, funcs)
        rule_output_before_failure(rep, funcs)
    rep.floor("instantiations of mfront::gb::integrate", 20)
    rep.floor("tri-state status variables", 15)
    rep.floor("integrate instantiations examined for early output writes", 20)
    rep.floor("wrappers examined for write-back on failure", 10)
    rep.floor("write-back sites after the inner integration", 10)
    rep.floor("wrapper instantiations with pointer swaps", 15)
    rep.floor("calls after exportStateData examined", 20)
    rep.assumptions += [
        "corpus = /verif/corpus/gb/*.mfront; templates of the current tree as instantiated by freshly generated sources",
        "may-throw is syntactic: a callee that is not noexcept may throw (conservative); "
        "the exception edge itself is not in the CFG",
        "effects inside Behaviour::integrate itself (generated code) are out of scope: the state is exported only by exportStateData"]
    return rep
