"""IEEE-class domain for the IR interpreter (lib/absint.py).

A floating value is the set of classes it may belong to: nan, ninf, neg, zero, pos, pinf (neg/pos: finite non-zero; the sign of a
zero is not tracked: -0 and +0 compare equal).  Arithmetic is the IEEE one *with rounding*: a product or quotient of finite non-zero
values may underflow to zero or overflow to an infinity, a sum may overflow.  A comparison whose outcome is not the same for every
pair of classes forks the path (Machine.decide), so that explore() returns every reachable result."""
from absint import Domain, Unsupported

NAN, NINF, NEG, ZERO, POS, PINF = "nan", "ninf", "neg", "zero", "pos", "pinf"
ALL = frozenset([NAN, NINF, NEG, ZERO, POS, PINF])
NONFINITE = frozenset([NAN, NINF, PINF])
ORDER = {NINF: 0, NEG: 1, ZERO: 2, POS: 3, PINF: 4}


class FV:
    __slots__ = ("cls", "tag")

    def __init__(self, cls, tag=None):
        self.cls = frozenset(cls)
        self.tag = tag          # two values with the same tag are the same run-time number

    def key(self):
        return (tuple(sorted(self.cls)), self.tag)

    def __repr__(self):
        return "{%s}%s" % (",".join(sorted(self.cls)), ("@%s" % (self.tag,)) if self.tag else "")


def _sg(c):
    return {NINF: -1, NEG: -1, ZERO: 0, POS: 1, PINF: 1}[c]


def _signed(s, fin, inf):
    return ({NEG} if fin else set()) | ({NINF} if inf else set()) if s < 0 else ({POS} if fin else set()) | ({PINF} if inf else set())


def mul1(a, b):
    if NAN in (a, b):
        return {NAN}
    if (a == ZERO and b in (PINF, NINF)) or (b == ZERO and a in (PINF, NINF)):
        return {NAN}
    if ZERO in (a, b):
        return {ZERO}
    s = _sg(a) * _sg(b)
    if a in (PINF, NINF) or b in (PINF, NINF):
        return _signed(s, False, True)
    return _signed(s, True, True) | {ZERO}       # exact, underflow to zero, overflow


def div1(a, b):
    if NAN in (a, b):
        return {NAN}
    if a in (PINF, NINF) and b in (PINF, NINF):
        return {NAN}
    if a == ZERO and b == ZERO:
        return {NAN}
    if a == ZERO or b in (PINF, NINF):
        return {ZERO}
    if b == ZERO:
        return {PINF, NINF}         # sign of the zero is not tracked
    s = _sg(a) * _sg(b)
    if a in (PINF, NINF):
        return _signed(s, False, True)
    return _signed(s, True, True) | {ZERO}


def add1(a, b):
    if NAN in (a, b):
        return {NAN}
    if {a, b} == {PINF, NINF}:
        return {NAN}
    if a in (PINF, NINF):
        return {a}
    if b in (PINF, NINF):
        return {b}
    if a == ZERO:
        return {b}
    if b == ZERO:
        return {a}
    if a == b:
        return _signed(_sg(a), True, True)
    return {NEG, ZERO, POS}


def neg1(c):
    return {NAN: NAN, NINF: PINF, NEG: POS, ZERO: ZERO, POS: NEG, PINF: NINF}[c]


def lift(fn, x, y):
    out = set()
    for a in x.cls:
        for b in y.cls:
            out |= fn(a, b)
    return FV(out)


def cmp1(base, a, b):
    """possible outcomes of the ordered comparison for two classes (neither NaN)."""
    ra, rb = ORDER[a], ORDER[b]
    if ra != rb:
        lt = ra < rb
        return {{"eq": False, "ne": True, "gt": not lt, "ge": not lt, "lt": lt, "le": lt}[base]}
    if a in (ZERO, PINF, NINF):
        return {{"eq": True, "ne": False, "gt": False, "ge": True, "lt": False, "le": True}[base]}
    return {True, False}        # two finite non-zero values of the same sign


class FClassDomain(Domain):
    name = "IEEE classes"

    def __init__(self):
        self.n = 0
        self.m = None       # the machine (set by the rule): per-path refinements live in its sign_facts, which explore() resets

    def nar(self, v):
        """the value narrowed by what the comparisons decided earlier on this path say of its tag."""
        if self.m is not None and isinstance(v, FV) and v.tag is not None:
            k = self.m.sign_facts.get(("fcref", v.tag))
            if k is not None:
                return FV(v.cls & k, v.tag)
        return v

    def zero(self):
        return FV({ZERO})

    def const(self, fc):
        x = fc.as_float()
        if x != x:
            return FV({NAN})
        if x == float("inf"):
            return FV({PINF})
        if x == float("-inf"):
            return FV({NINF})
        return FV({ZERO} if x == 0 else ({POS} if x > 0 else {NEG}))

    def from_int(self, i):
        return FV({ZERO} if i == 0 else ({POS} if i > 0 else {NEG}))

    def arith(self, op, a, b):
        a, b = self.nar(a), self.nar(b)
        if op == "fadd":
            return lift(add1, a, b)
        if op == "fsub":
            if a.tag is not None and a.tag == b.tag and not (a.cls & NONFINITE):
                return FV({ZERO})
            return lift(add1, a, FV(neg1(c) for c in b.cls))
        if op == "fmul":
            r = lift(mul1, a, b)
            if a.tag is not None and a.tag == b.tag:
                r = FV(r.cls - {NEG, NINF})      # a square
            return r
        if op == "fdiv":
            return lift(div1, a, b)
        raise Unsupported("%s in the class domain" % op)

    def neg(self, a):
        a = self.nar(a)
        return FV((neg1(c) for c in a.cls), ("neg", a.tag) if a.tag is not None else None)

    def outcomes(self, pred, xs, ys, same):
        outs = set()
        for x in xs:
            for y in ys:
                if pred in ("ord", "uno"):
                    outs.add((NAN not in (x, y)) == (pred == "ord"))
                elif NAN in (x, y):
                    outs.add(pred[0] == "u")
                elif same:
                    outs.add({"eq": True, "ne": False, "gt": False, "ge": True, "lt": False, "le": True}[pred[1:]])
                else:
                    outs |= cmp1(pred[1:], x, y)
        return outs

    def fcmp(self, pred, a, b, m):
        a, b = self.nar(a), self.nar(b)
        same = a.tag is not None and a.tag == b.tag
        outs = self.outcomes(pred, a.cls, b.cls, same)
        if len(outs) == 1:
            return int(outs.pop())
        d = bool(m.decide(("fcmp", pred, a.key(), b.key())))
        # narrowing: classes of each tagged operand for which the decided outcome is possible
        for x, y, flip in ((a, b, False), (b, a, True)):
            if x.tag is not None:
                keep = frozenset(c for c in x.cls if d in (self.outcomes(pred, [c], y.cls, same) if not flip else self.outcomes(pred, y.cls, [c], same)))
                m.sign_facts[("fcref", x.tag)] = keep & m.sign_facts.get(("fcref", x.tag), ALL)
        return int(d)

    def call(self, name, args, m):
        a = [self.nar(x) for x in args if isinstance(x, FV)]
        if name in ("fabs",) and a:
            return FV(({NAN: NAN, NINF: PINF, NEG: POS, ZERO: ZERO, POS: POS, PINF: PINF}[c] for c in a[0].cls),
                      ("abs", a[0].tag) if a[0].tag is not None else None)
        if name in ("sqrt",) and a:
            return FV({NAN: NAN, NINF: NAN, NEG: NAN, ZERO: ZERO, POS: POS, PINF: PINF}[c] for c in a[0].cls)
        if name in ("maxnum", "minnum", "fmax", "fmin") and len(a) == 2:
            # IEEE maxNum/minNum: a NaN operand is ignored
            out = set()
            for x in a[0].cls:
                for y in a[1].cls:
                    if x == NAN:
                        out.add(y)
                    elif y == NAN:
                        out.add(x)
                    else:
                        hi = x if ORDER[x] >= ORDER[y] else y
                        lo = x if ORDER[x] <= ORDER[y] else y
                        out |= {x, y} if ORDER[x] == ORDER[y] else ({hi} if name in ("maxnum", "fmax") else {lo})
            return FV(out)
        if name in ("copysign",) and len(a) == 2:
            return FV(set().union(*[{c, neg1(c)} for c in a[0].cls]))
        raise Unsupported("call of %s in the class domain" % name)

    def select_undecided(self, m):
        raise Unsupported("select on an undecided condition")
