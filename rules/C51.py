"""C51 — verdict soundness of tfel-check comparisons and MTest tests:
NaN/infinity-safety and reflexivity, by abstract interpretation of the clang
CFG over IEEE classes (lib/fclass.py).

For each verdict function the whole body is explored path-sensitively with the
compared values abstracted to classes {nan, -inf, neg, 0, pos, +inf}:

 NAN-SAFE   for every assignment (result class, reference class) in which at
            least one is nan/+inf/-inf (the other ranging over all finite
            values, or also non-finite), every path on which a row was read
            must record a failure (success = false / results.append({false,..})
            / raise), for every tolerance >= 0.
 REFLEXIVE  (tfel-check) with both columns the *same* symbol x, x finite of
            any sign, and each tolerance = 0 or > 0: no path records a failure.
            A mode in which every path records a failure is a refutation
            (VIOLATION, the sign classes are the witness); a mode that mixes
            both outcomes is undecided (exit 2).
"""
import os, re
from common import *
from cfg import *
import fclass as fc

RULE = ("abstract interpretation over IEEE classes of each verdict function: NAN-SAFE (a non-finite result or "
        "reference always records a failure) and REFLEXIVE (a finite column compared with itself never does)")

TOL = re.compile(r"^this->(prec|precision2|eps)$")

# function -> (unit, {source name: regex on the pseudo-source of the expression}, reflexive?)
TARGETS = {
    "tfel::check::AbsoluteComparison::compare": ("tfel-check/src/AbsoluteComparison.cxx", "cmp", True),
    "tfel::check::RelativeComparison::compare": ("tfel-check/src/RelativeComparison.cxx", "cmp", True),
    "tfel::check::RelativeAndAbsoluteComparison::compare": ("tfel-check/src/RelativeAndAbsoluteComparison.cxx", "cmp", True),
    "tfel::check::MixedComparison::compare": ("tfel-check/src/MixedComparison.cxx", "cmp", True),
    "mtest::AnalyticalTest::check": ("mtest/src/AnalyticalTest.cxx", "analytical", False),
    "mtest::ReferenceFileComparisonTest::check": ("mtest/src/ReferenceFileComparisonTest.cxx", "reffile", False),
}
SOURCES = {
    "cmp": {"result": re.compile(r"^this->c1->getValues\(\)(\[.*\]|\.at\(.*\))$"),
            "reference": re.compile(r"^this->c2->getValues\(\)(\[.*\]|\.at\(.*\))$")},
    "analytical": {"result": re.compile(r"^this->get\(s\)$"), "reference": re.compile(r"^this->f\.getValue\(\)$")},
    "reffile": {"result": re.compile(r"^this->get\(s\)$"), "reference": re.compile(r"^this->values\[.*\]$")},
}
BAD = (fc.NAN, fc.PINF, fc.NINF)


def closures_raising(f, kids):
    """declIds of local closure variables whose body is raise_if(first parameter, ...)."""
    res = set()
    lam = {k.id: k for k in kids}
    for n in f.stmts.values():
        if n["k"] != "DeclStmt":
            continue
        for d in n["decls"]:
            if "init" not in d:
                continue
            i = f.strip(d["init"])
            if f.stmts[i]["k"] != "LambdaExpr":
                continue
            g = lam.get(f.stmts[i].get("lambdaOp"))
            if g is None or not g.params:
                continue
            p0 = g.params[0]["declId"]
            for m in g.stmts.values():
                if m["k"] == "CallExpr" and (m.get("callee") or "").split("<")[0] == "tfel::raise_if" and m.get("args"):
                    a = g.stmts[g.strip(m["args"][0])]
                    if a["k"] == "DeclRefExpr" and a.get("declId") == p0:
                        res.add(d["declId"])
    return res


def explore(f, kids, srcvals, tolval):
    """returns (outcomes, raised) : set of (rows_seen, failed) at normal exits, and whether a raise is possible/definite."""
    pats = srcvals

    def source(f_, s):
        n = f_.stmts[s]
        if n["k"] not in ("CXXOperatorCallExpr", "CXXMemberCallExpr", "MemberExpr", "ArraySubscriptExpr", "CallExpr"):
            return None
        t = f_.text(s)
        for name, (rx, val) in pats.items():
            if rx.match(t):
                return val
        if n["k"] == "MemberExpr" and TOL.match(t):
            return tolval(t)
        return None
    E = fc.Evaluator(f, source)
    raisers = closures_raising(f, kids)
    outcomes = set()

    def is_source(sid):
        n = f.stmts[sid]
        if n["k"] not in ("CXXOperatorCallExpr", "CXXMemberCallExpr", "ArraySubscriptExpr", "CallExpr"):
            return False
        t = f.text(sid)
        return any(rx.match(t) for rx, _v in pats.values())

    def el(st, b, i, e):
        envk, seen, failed = st
        if "s" not in e:
            return (st,)
        sid = e["s"]
        n = f.stmts[sid]
        k = n["k"]
        if is_source(sid):
            return ((envk, True, failed),)
        if k == "DeclStmt":
            env = fc.env_from_key(envk)
            for d in n["decls"]:
                if d.get("declKind") != "Var":
                    continue
                t = d.get("type", "").replace("const ", "")
                if "init" in d:
                    r = E.ev(d["init"], env)
                    if r[0] != "u":
                        env[d["declId"]] = r
                    else:
                        env.pop(d["declId"], None)
                elif t in ("double", "float", "long double"):
                    env[d["declId"]] = ("f", fc.V(fc.ALL))
            return ((fc.env_key(env), seen, failed),)
        if k in ("BinaryOperator", "CompoundAssignOperator") and n["op"] in ("=", "+=", "-=", "*=", "/="):
            l, r = f.kids(sid)[:2]
            ls = f.strip(l)
            ln = f.stmts[ls]
            if ln["k"] == "DeclRefExpr" and ln.get("local"):
                env = fc.env_from_key(envk)
                rv = E.ev(r, env)
                if n["op"] != "=":
                    cur = env.get(ln["declId"], ("u", None))
                    if cur[0] == "f" and rv[0] == "f":
                        rv = ("f", {"+=": fc.add, "-=": fc.sub, "*=": fc.mul, "/=": fc.div}[n["op"]](cur[1], rv[1]))
                    elif cur[0] == "f":
                        rv = ("f", fc.V(fc.ALL))
                    else:
                        rv = ("u", None)
                if rv[0] != "u":
                    env[ln["declId"]] = rv
                else:
                    env.pop(ln["declId"], None)
                return ((fc.env_key(env), seen, failed),)
            if ln["k"] == "MemberExpr" and f.path(ls) == "this->success" and n["op"] == "=":
                rv = E.ev(r, fc.env_from_key(envk))
                if rv[0] == "b" and rv[1] == frozenset([False]):
                    return ((envk, seen, True),)
                if rv[0] == "b" and rv[1] == frozenset([True]):
                    return ((envk, seen, False),)
                return ((envk, seen, True), (envk, seen, False))
            return (st,)
        if k == "CXXMemberCallExpr" and re.search(r"TestResult::append$", n.get("callee") or ""):
            falses = [x for a in n.get("args", []) for x in f.walk(a)
                      if f.stmts[x]["k"] == "CXXBoolLiteralExpr" and f.stmts[x]["value"] is False]
            if falses:
                return ((envk, seen, True),)
            return (st,)
        is_raise = False
        cond = None
        if k == "CallExpr" and (n.get("callee") or "").split("<")[0] in ("tfel::raise_if",) and n.get("args"):
            is_raise, cond = True, n["args"][0]
        if k == "CXXOperatorCallExpr" and n.get("op") == "()" and len(n.get("args", [])) >= 2:
            a0 = f.stmts[f.strip(n["args"][0])]
            if a0["k"] == "DeclRefExpr" and a0.get("declId") in raisers:
                is_raise, cond = True, n["args"][1]
        if is_raise:
            rv = E.ev(cond, fc.env_from_key(envk))
            poss = rv[1] if rv[0] == "b" else fc.TT
            out = []
            if True in poss:
                outcomes.add((seen, True, "raise"))
            if False in poss:
                out.append(st)
            return tuple(out)
        return (st,)

    def ed(st, b, succ, pol):
        if pol is None or b.cond is None:
            return (st,)
        envk, seen, failed = st
        env = fc.env_from_key(envk)
        rv = E.ev(b.cond, env)
        poss = rv[1] if rv[0] == "b" else fc.TT
        if pol not in poss:
            return ()
        # refine a tested boolean variable
        c = f.strip(b.cond)
        cn = f.stmts[c]
        neg_ = False
        if cn["k"] == "UnaryOperator" and cn["op"] == "!":
            c = f.strip(f.kids(c)[0])
            cn = f.stmts[c]
            neg_ = True
        if cn["k"] == "DeclRefExpr" and cn.get("declId") in env and env[cn["declId"]][0] == "b":
            env[cn["declId"]] = ("b", frozenset([pol != neg_]))
            return ((fc.env_key(env), seen, failed),)
        return (st,)
    IN, OUT = forward(f, [((), False, False)], el, ed)
    for st in IN.get(f.exit, ()):
        outcomes.add((st[1], st[2], "exit"))
    return outcomes


def check_function(rep, f, kids, kind, reflexive, control=False):
    nv = 0

    def fail(key, msg):
        nonlocal nv
        nv += 1
        if not control:
            rep.fail(key, msg)
    pats = SOURCES[kind]
    finset = fc.V(fc.FIN)
    choices = [(c, fc.V({c})) for c in BAD] + [("finite", finset)]
    bad_by_source = {"result": [], "reference": []}
    nmodes = 0
    for an, av in choices:
        for bn, bv in choices:
            if an == "finite" and bn == "finite":
                continue
            nmodes += 1
            out = explore(f, kids, {"result": (pats["result"], av), "reference": (pats["reference"], bv)},
                          lambda t: fc.V(fc.NONNEG))
            seen = [o for o in out if o[0]]
            if not seen:
                raise AnalysisBroken("%s: no path reads the compared values (sources not recognised)" % f.qname)
            if any(not o[1] for o in seen):
                if an != "finite" and bn == "finite":
                    bad_by_source["result"].append(an)
                elif bn != "finite" and an == "finite":
                    bad_by_source["reference"].append(bn)
                else:
                    bad_by_source["result"].append("%s/%s" % (an, bn))
            elif not control:
                rep.ok("%s: result=%s reference=%s always records a failure" % (f.qname, an, bn),
                       sample=(an, bn) in (("nan", "finite"), ("finite", "nan")))
    if not control:
        rep.count("NAN-SAFE modes", nmodes)
    for src, classes in bad_by_source.items():
        if classes:
            fail("NAN-SAFE@%s#%s" % (f.qname, src),
                 "%s (%s): when the %s value is %s the row (or test) is accepted: no path through the verdict code records a "
                 "failure (ordered comparison 'error > tolerance' is false on NaN and no finiteness test dominates it)"
                 % (f.qname, f.loc.replace(REPO + "/", ""), src, ", ".join(classes)))
    if reflexive:
        refuted, undecided = [], []
        for c in (fc.NEG, fc.ZERO, fc.POS):
            for tp in (fc.ZERO, fc.POS):
                for tq in (fc.ZERO, fc.POS):
                    x = fc.V({c}, "x")
                    out = explore(f, kids, {"result": (pats["result"], x), "reference": (pats["reference"], x)},
                                  lambda t, tp=tp, tq=tq: fc.V({tp if t.endswith("prec") or t.endswith("eps") else tq}))
                    seen = [o for o in out if o[0]]
                    if not control:
                        rep.count("REFLEXIVE modes")
                    res = set(o[1] for o in seen)
                    mode = "x %s, prec %s, precision2 %s" % (c, tp, tq)
                    if res == {False}:
                        if not control:
                            rep.ok("%s: column compared with itself (%s) never records a failure" % (f.qname, mode),
                                   sample=(c == fc.NEG and tp == fc.POS and tq == fc.ZERO))
                    elif res == {True}:
                        refuted.append(mode)
                    else:
                        undecided.append(mode)
        if refuted:
            fail("REFLEXIVE@%s" % f.qname,
                 "%s (%s): a finite column compared with itself is rejected on every path when %s (abstract witness: any values "
                 "in these sign classes)%s" % (f.qname, f.loc.replace(REPO + "/", ""), " | ".join(refuted),
                                                ("; magnitude-dependent for: " + " | ".join(undecided)) if undecided else ""))
        elif undecided:
            raise AnalysisBroken("%s: reflexivity undecided for %s" % (f.qname, " | ".join(undecided)))
    return nv


def always_checked(rep):
    """CHECKS-ALWAYS-RUN: (a) in the two attempt functions of the MTest solver every path to a return that is not a failure
    (a literal {false, ...} or a variable whose .first was decided false) and that GenericSolver::execute accepts (its acceptance
    test is read from execute and evaluated per valuation of its atoms) passes through Study::postConvergence, which runs the
    @Test checks: an accepted step is never left unchecked; (b) MTest::postConvergence calls check on every registered test,
    unconditionally."""
    us = [os.path.join(REPO, "mtest/src", x) for x in ("GenericSolver.cxx", "MTest.cxx")]
    d = cfgdump(us, os.path.join(OUT, "C51", "solver"), funcs=r"^mtest::(iterate2?|MTest::postConvergence)$")
    funcs = [f for f in load_functions(d) if f.parent is None and f.entry is not None]
    # (a) relational: for every valuation of the atoms of execute's acceptance test under which the attempt is accepted, no path of an
    # attempt function returns a success without Study::postConvergence (rules/attempts.py)
    import attempts
    ar = attempts.analyse()
    for q, o_ in sorted(ar["funcs"].items()):
        rep.count("return statements of the attempt functions", o_["returns"])
        if o_["unchecked_when_accepted"]:
            V, loc = o_["unchecked_when_accepted"][0]
            rep.fail("CHECKS-ALWAYS-RUN@%s" % q, "%s: %s can return a success without calling Study::postConvergence when %s, and GenericSolver::execute "
                     "(%s) accepts that attempt: the step is committed and written to the output although its @Test checks did not run"
                     % (loc.replace(REPO + "/", ""), q, attempts.describe(V), ar["loc"].replace(REPO + "/", "")))
        else:
            rep.ok("%s: every attempt that execute accepts passes through Study::postConvergence (the @Test checks)" % q)
    pc = [f for f in funcs if f.qname == "mtest::MTest::postConvergence"]
    if not pc:
        raise AnalysisBroken("MTest::postConvergence not found")
    g = pc[0]
    loops = [(s, n) for s, n in g.stmts.items() if n["k"] == "CXXForRangeStmt"]
    okl = False
    for s, n in loops:
        body = g.kids(s)[-1]
        calls = [g.stmts[x] for x in g.walk(body) if g.stmts[x]["k"] == "CXXMemberCallExpr" and (g.stmts[x].get("callee") or "").endswith("::check")]
        skips = [g.stmts[x]["k"] for x in g.walk(body) if g.stmts[x]["k"] in ("IfStmt", "BreakStmt", "ContinueStmt", "ReturnStmt", "ConditionalOperator")]
        rng = g.text(g.kids(s)[0]) if g.kids(s) else ""
        if calls and not skips and "tests" in " ".join(g.text(x) for x in g.walk(s) if g.stmts[x]["k"] == "MemberExpr"):
            okl = True
    if okl:
        rep.ok("MTest::postConvergence calls check on every registered test, unconditionally")
    else:
        rep.fail("CHECKS-ALWAYS-RUN@mtest::MTest::postConvergence", "MTest::postConvergence does not call check on every element of this->tests "
                 "unconditionally: a requested comparison can be skipped")
    rep.floor("return statements of the attempt functions", 6)


NOT_STATE = re.compile(r"^(const\b|std::(mutex|recursive_mutex|shared_mutex|once_flag|atomic_flag)\b)")


def static_locals(funcs):
    out = []
    for f in funcs:
        for s, n in sorted(f.stmts.items()):
            if n["k"] == "DeclStmt":
                for dd in n["decls"]:
                    if dd.get("static") and not NOT_STATE.match(dd.get("type") or ""):
                        out.append((f, s, dd))
    return out


def static_state_rule(rep):
    """STATIC-STATE: no function of tfel-check keeps a mutable function-local static: a verdict depends only on the check being run, not
    on the checks the same process ran before it (tfel-check runs every .check file of a directory tree in one process)."""
    units = units_under("tfel-check/src")
    d = cfgdump(units, os.path.join(OUT, "C51", "statics"), funcs=r"^tfel::check::", root=os.path.join(REPO, "tfel-check"))
    funcs = load_functions(d)
    rep.count("tfel-check functions examined for static state", len(funcs))
    seen = set()
    for f, s, dd in static_locals(funcs):
        key = "STATIC-STATE@%s#%s" % (f.qname.split("(")[0], dd.get("name"))
        if key in seen:
            continue
        seen.add(key)
        rep.fail(key, "%s: %s keeps the static local '%s' (%s): what one check stored there is seen by the checks run after it in the same "
                 "process - two .check files regenerating the same result file are compared with the first one's data"
                 % (f.short_loc(s).replace(REPO + "/", ""), f.qname.split("(")[0], dd.get("name"), (dd.get("type") or "")[:60]))
    if not seen:
        rep.ok("no function of tfel-check keeps a mutable static local (%d functions)" % len(funcs))
    rep.floor("tfel-check functions examined for static state", 150)
    ctl = os.path.join(VERIF, "controls", "C51_control.cxx")
    dc = cfgdump([ctl], os.path.join(OUT, "C51", "ctl2"), funcs=r"^verif_ctl::cached_length", flags_for=lambda u: (header_flags(), VERIF))
    got = sorted(dd.get("name") for _f, _s, dd in static_locals(load_functions(dc)))
    if got != ["files"]:
        raise AnalysisBroken("STATIC-STATE control: found %s, expected the cache 'files' only" % got)


def area_and_history_rules(rep):
    """Three structural clauses on tfel-check's Test / Comparison / AreaComparison:
     SETTER-GETTER: in class Test every set<X>() writes one member and no two setters write the same one; get<X>() returns the member
       set<X>() writes (a setter writing its neighbour's member leaves its own null: the Area comparison dereferenced it);
     VERDICT-RESET: the Comparison object is shared by the tests of a @TestType statement: setParameters (called by Test::compare before
       every compare()) assigns success = true, so that a verdict does not depend on the tests run before;
     AREA-VERDICT: in AreaComparison::compare the test that sets the verdict to false is NaN-safe (of the form !(a <= b) / !(a < b)), and
       the quantity that normalises the area is built from absolute values and guarded against zero."""
    us = [os.path.join(REPO, "tfel-check/src", x) for x in ("Test.cxx", "Comparison.cxx", "AreaComparison.cxx")]
    d = cfgdump(us, os.path.join(OUT, "C51", "tc"), funcs=r"^tfel::check::(Test|Comparison|AreaComparison)::", root=REPO)
    funcs = [f for f in load_functions(d) if f.parent is None]
    # ---- SETTER-GETTER
    def member_written(f):
        out = []
        for s_, n in f.stmts.items():
            bo = f.binop(s_)
            if bo and bo[0] == "=":
                l = f.stmts.get(f.strip(bo[1]))
                if l is not None and l["k"] == "MemberExpr" and f.stmts[f.strip(f.kids(f.strip(bo[1]))[0])]["k"] == "CXXThisExpr":
                    out.append(l.get("member"))
        return out

    def member_returned(f):
        for s_, n in f.stmts.items():
            if n["k"] == "ReturnStmt" and f.kids(s_):
                l = f.stmts.get(f.strip(f.kids(s_)[0]))
                if l is not None and l["k"] == "MemberExpr":
                    return l.get("member")
        return None
    setters, getters = {}, {}
    for f in funcs:
        m = re.match(r"^tfel::check::Test::(set|get)(\w+)$", f.qname)
        if not m or f.body is None:
            continue
        if m.group(1) == "set" and len(f.params) == 1:
            w = member_written(f)
            if len(w) == 1:
                setters[m.group(2)] = (w[0], f)
        elif m.group(1) == "get" and not f.params:
            r = member_returned(f)
            if r:
                getters[m.group(2)] = (r, f)
    rep.count("setters of tfel::check::Test", len(setters))
    by_member = {}
    for x, (mem, f) in setters.items():
        by_member.setdefault(mem, []).append(x)
    for mem, xs in sorted(by_member.items()):
        if len(xs) > 1:
            rep.fail("SETTER-GETTER@tfel::check::Test#%s" % mem, "%s: Test::set%s and Test::set%s both write the member '%s': one of the two properties is "
                     "never set (a null pointer for the comparison that needs it) and the other is overwritten"
                     % (setters[xs[0]][1].loc.replace(REPO + "/", ""), xs[0], xs[1], mem))
    for x, (mem, f) in sorted(setters.items()):
        if x in getters and getters[x][0] != mem:
            rep.fail("SETTER-GETTER@tfel::check::Test#get%s" % x, "Test::get%s returns '%s' but Test::set%s writes '%s'" % (x, getters[x][0], x, mem))
    if not any(v["key"].startswith("SETTER-GETTER") for v in rep.violations):
        rep.ok("tfel::check::Test: %d setters write %d distinct members, getters return what their setter writes" % (len(setters), len(by_member)))
    rep.floor("setters of tfel::check::Test", 8)
    # ---- VERDICT-RESET
    sp = [f for f in funcs if f.qname == "tfel::check::Comparison::setParameters"]
    tc = [f for f in funcs if f.qname == "tfel::check::Test::compare"]
    if not sp or not tc:
        raise AnalysisBroken("Comparison::setParameters / Test::compare not found")
    calls = [n.get("callee") for n in tc[0].stmts.values() if n["k"] == "CXXMemberCallExpr"]
    resets = False
    for s_, n in sp[0].stmts.items():
        bo = sp[0].binop(s_)
        if bo and bo[0] == "=":
            l = sp[0].stmts.get(sp[0].strip(bo[1]))
            r = sp[0].stmts.get(sp[0].strip(bo[2]))
            if l is not None and l["k"] == "MemberExpr" and l.get("member") == "success" and r is not None and r["k"] == "CXXBoolLiteralExpr" and r["value"]:
                resets = True
    if resets and any((c or "").endswith("Comparison::setParameters") for c in calls):
        rep.ok("Test::compare calls Comparison::setParameters, which resets the verdict, before compare()")
    else:
        rep.fail("VERDICT-RESET@tfel::check::Comparison::setParameters", "the Comparison object shared by the tests of a @TestType statement is not reset to "
                 "'success' before each comparison (its flag is only ever set to false): after one failed comparison every later one fails, a "
                 "column compared with itself included")
    # ---- AREA-VERDICT
    ac = [f for f in funcs if f.qname == "tfel::check::AreaComparison::compare"]
    if not ac:
        raise AnalysisBroken("AreaComparison::compare not found")
    a = ac[0]
    pm = a.parent_map()
    nguard = 0
    for s_, n in a.stmts.items():
        bo = a.binop(s_)
        if not (bo and bo[0] == "="):
            continue
        l, r = a.stmts.get(a.strip(bo[1])), a.stmts.get(a.strip(bo[2]))
        if l is None or r is None or r["k"] != "CXXBoolLiteralExpr" or r["value"] or l["k"] != "DeclRefExpr":
            continue
        q = s_
        while q in pm and a.stmts[pm[q]]["k"] != "IfStmt":
            q = pm[q]
        if q not in pm:
            continue
        cond = a.strip(a.stmts[pm[q]]["cond"])
        cn = a.stmts[cond]
        nguard += 1
        safe = cn["k"] == "UnaryOperator" and cn.get("op") == "!" and (a.binop(a.kids(cond)[0]) or ("",))[0] in ("<=", "<")
        if safe:
            rep.ok("AreaComparison::compare: the failing test '%s' is NaN-safe" % a.text(cond))
        else:
            rep.fail("AREA-VERDICT@tfel::check::AreaComparison::compare#nan", "%s: the test '%s' that makes the area comparison fail is false for a NaN: "
                     "a result file holding a NaN passes" % (a.short_loc(cond).replace(REPO + "/", ""), a.text(cond)))
    rep.count("failing tests of the area comparison", nguard)
    divs = [(s_, a.binop(s_)) for s_ in a.stmts if a.binop(s_) and a.binop(s_)[0] in ("/=", "/")]
    for s_, bo in divs:
        dv = a.stmts.get(a.strip(bo[2]))
        if dv is None or dv["k"] != "DeclRefExpr" or not dv.get("local"):
            continue
        rep.count("normalisations of the area")
        # every value assigned to the divisor is an absolute value, and the division is guarded by a comparison of the divisor with zero
        vals = []
        for x, m in a.stmts.items():
            if m["k"] == "DeclStmt":
                for dd in m["decls"]:
                    if dd.get("declId") == dv.get("declId") and "init" in dd:
                        vals.append(dd["init"])
            b2 = a.binop(x)
            if b2 and b2[0] == "=" and a.stmts[a.strip(b2[1])].get("declId") == dv.get("declId"):
                vals.append(b2[2])

        def is_abs(v, depth=0):
            vn = a.stmts.get(a.strip(v))
            if vn is None:
                return False
            if vn["k"] == "CallExpr" and re.search(r"(^|::)(abs|fabs)$", (vn.get("callee") or "").split("<")[0]):
                return True
            if vn["k"] == "DeclRefExpr" and vn.get("local") and depth < 2:
                for x, m in a.stmts.items():
                    if m["k"] == "DeclStmt":
                        for dd in m["decls"]:
                            if dd.get("declId") == vn.get("declId") and "init" in dd:
                                return is_abs(dd["init"], depth + 1)
            return False
        q, guarded = s_, False
        while q in pm:
            q = pm[q]
            if a.stmts[q]["k"] == "IfStmt" and dv.get("name") in a.text(a.stmts[q]["cond"]):
                guarded = True
        if vals and all(is_abs(v) for v in vals) and guarded:
            rep.ok("AreaComparison::compare: the area is normalised by '%s', an absolute value tested against zero" % dv.get("name"))
        else:
            rep.fail("AREA-VERDICT@tfel::check::AreaComparison::compare#normalisation", "%s: the area is divided by '%s', which is %s: a reference that is "
                     "negative everywhere gives a negative 'error' that passes any tolerance, a null reference gives 0/0"
                     % (a.short_loc(s_).replace(REPO + "/", ""), dv.get("name"), "not built from absolute values" if not (vals and all(is_abs(v) for v in vals)) else "not tested against zero"))
    rep.floor("failing tests of the area comparison", 1)
    rep.floor("normalisations of the area", 1)


MUTATORS = {"reset", "push_back", "emplace_back", "insert", "clear", "swap", "operator=", "assign", "emplace", "erase"}


def config_written_rule(rep):
    """CONFIG-WRITTEN: TestLauncher::treatTest builds every Test from the launcher's members (test->set<X>(this-><m>)); each such member
    is the state a keyword of the .check file sets.  A member consumed there and written by no function other than the constructor is a
    keyword whose handler writes somewhere else: the comparison is then made with the default although the file asked otherwise."""
    u = os.path.join(REPO, "tfel-check/src/TestLauncher.cxx")
    d = cfgdump([u], os.path.join(OUT, "C51", "tl"), funcs=r"^tfel::check::TestLauncher::", root=REPO)
    funcs = load_functions(d)
    def own_fields(f, sid):
        return [(x, f.stmts[x]) for x in f.walk(sid) if f.stmts[x]["k"] == "MemberExpr" and f.stmts[x].get("declKind") == "Field"
                and f.stmts[x].get("fieldClass") == "tfel::check::TestLauncher"]
    def up(f, pm, x):
        p_ = pm.get(x)
        while p_ is not None and f.stmts[p_]["k"] in ("ImplicitCastExpr", "ParenExpr", "MaterializeTemporaryExpr", "CXXBindTemporaryExpr"):
            x, p_ = p_, pm.get(p_)
        return x, p_
    def param_mutated(g, k):
        if k >= len(g.params):
            return False
        did, gpm = g.params[k].get("declId"), g.parent_map()
        for y, yn in g.stmts.items():
            if yn["k"] == "DeclRefExpr" and yn.get("declId") == did:
                y2, q = up(g, gpm, y)
                qn = g.stmts.get(q) if q is not None else None
                if qn is None:
                    continue
                if qn["k"] == "MemberExpr" and qn.get("declKind") == "CXXMethod" and qn.get("member") in MUTATORS:
                    return True
                if qn["k"] in ("BinaryOperator", "CompoundAssignOperator"):
                    bo = g.binop(q)
                    if bo and bo[0].endswith("=") and bo[0] not in ("==", "!=", "<=", ">=") and g.strip(bo[1]) == g.strip(y2):
                        return True
                if qn["k"] == "CXXOperatorCallExpr" and re.search(r"operator[-+*/|&]?=$", qn.get("callee") or "") and (qn.get("args") or [None])[0] in (y, y2):
                    return True
        return False
    consumed, written = {}, {}
    for f in funcs:
        if f.body is None:
            continue
        pm = f.parent_map()
        ctor = bool(re.match(r"^tfel::check::TestLauncher::TestLauncher\b", f.qname))
        in_treat_test = f.qname.startswith("tfel::check::TestLauncher::treatTest") and not f.qname.startswith("tfel::check::TestLauncher::treatTestType")
        for s_, n in f.stmts.items():
            if in_treat_test and n["k"] == "CXXMemberCallExpr" and re.match(r"^tfel::check::Test::set\w+$", n.get("callee") or ""):
                for a in n.get("args") or []:
                    for x, m in own_fields(f, a):
                        consumed.setdefault(m["member"], (f, s_, n["callee"].split("::")[-1]))
            if ctor or n["k"] != "MemberExpr" or n.get("declKind") != "Field" or n.get("fieldClass") != "tfel::check::TestLauncher":
                continue
            x, p_ = up(f, pm, s_)
            if p_ is None:
                continue
            pn = f.stmts[p_]
            w = False
            if pn["k"] == "MemberExpr" and pn.get("declKind") == "CXXMethod" and pn.get("member") in MUTATORS:
                w = True
            elif pn["k"] in ("CallExpr", "CXXMemberCallExpr") and (x in (pn.get("args") or []) or s_ in (pn.get("args") or [])):
                # handed to a non-const reference parameter: written when the callee (a function of the launcher) mutates that parameter
                args = pn.get("args") or []
                k = args.index(x) if x in args else args.index(s_)
                pts = pn.get("calleeParamTypes") or []
                if k < len(pts) and pts[k].rstrip().endswith("&") and not pts[k].startswith("const "):
                    cal = [g for g in funcs if g.id == pn.get("calleeId") and g.body is not None]
                    w = (not cal) or param_mutated(cal[0], k)
            elif pn["k"] in ("BinaryOperator", "CompoundAssignOperator"):
                bo = f.binop(p_)
                w = bool(bo) and bo[0] in ("=", "+=", "-=", "*=", "/=", "|=", "&=") and f.strip(bo[1]) == f.strip(x)
            elif pn["k"] == "CXXOperatorCallExpr" and re.search(r"operator[-+*/|&]?=$", pn.get("callee") or "") and (pn.get("args") or [None])[0] in (x, s_):
                w = True
            if w:
                written.setdefault(n["member"], f.qname.split("(")[0])
    rep.count("launcher members consumed by treatTest", len(consumed))
    bad = 0
    for m, (f, s_, setter) in sorted(consumed.items()):
        if m not in written:
            bad += 1
            rep.fail("CONFIG-WRITTEN@tfel::check::TestLauncher#%s" % m,
                     "%s: treatTest passes the launcher member '%s' to Test::%s, but no function of TestLauncher other than the constructor "
                     "ever writes it: the keyword meant to set it writes another member and every test runs with the constructor's default"
                     % (f.short_loc(s_).replace(REPO + "/", ""), m, setter))
    if not bad:
        rep.ok("each of the %d launcher members treatTest hands to a Test is written by a keyword handler (%s)"
               % (len(consumed), ", ".join("%s<-%s" % (m, written[m].split("::")[-1]) for m in sorted(consumed))))
    rep.floor("launcher members consumed by treatTest", 7)


def run(tier):
    rep = Report("C51", tier, "other", RULE)
    units = sorted(set(os.path.join(REPO, v[0]) for v in TARGETS.values()))
    ctl = os.path.join(VERIF, "controls", "C51_control.cxx")
    d = cfgdump(units, os.path.join(OUT, "C51", "dump"),
                funcs=r"^(tfel::check::[A-Za-z]+Comparison::compare|mtest::(AnalyticalTest|ReferenceFileComparisonTest)::check)$")
    funcs = load_functions(d)
    kids = children_of(funcs)
    fq = by_qname([f for f in funcs if f.parent is None])
    for q, (unit, kind, refl) in TARGETS.items():
        fs = fq.get(q, [])
        if not fs:
            raise AnalysisBroken("anchor %s vanished" % q)
        f = fs[0]
        rep.count("verdict functions")
        check_function(rep, f, kids.get((f.unit, f.id), []), kind, refl)
    rep.floor("verdict functions", 6)
    always_checked(rep)
    static_state_rule(rep)
    area_and_history_rules(rep)
    config_written_rule(rep)
    # positive control: a copy of the classical 'err > prec' loop must be reported, its '!(err <= prec)' twin must not
    dc = cfgdump([ctl], os.path.join(OUT, "C51", "ctl"), funcs=r"^verif_ctl::", flags_for=lambda u: (header_flags(), VERIF))
    cf = load_functions(dc)
    ck = children_of(cf)
    byn = by_qname([f for f in cf if f.parent is None])
    for nm, want in (("verif_ctl::Bad::compare", True), ("verif_ctl::Good::compare", False), ("verif_ctl::Mixed::compare", True)):
        g = byn[nm][0]
        got = check_function(rep, g, ck.get((g.unit, g.id), []), "cmp", True, control=True) > 0
        if got != want:
            raise AnalysisBroken("control %s: rule %s" % (nm, "silent" if want else "fired on NaN-safe code"))
    rep.assumptions += ["tolerances are finite and >= 0", "finite arithmetic does not overflow to infinity",
                        "every row is assumed to be in the same class within one exploration (per-row verdicts do not depend on other rows)",
                        "AreaComparison and the interpolation step are not analysed"]
    return rep
