"""TYPESTATE end-check discipline for token iterators (C35 / C54 / C13d).

An iterator (a local / parameter of an iterator type selected by the caller,
or the member path this->current) is in state CHECKED (known different from the
end of its sequence) or UNCHECKED.  Dereferencing (*it, it->m) requires
CHECKED.

  it != E / it == E          on the edge that establishes inequality -> CHECKED
  raise_if(it == E, ..), throw_if(..) closures   -> CHECKED on normal return
  ++it, it++, it += n, it = ..., std::advance    -> UNCHECKED      (--it -> CHECKED)
  f(.., it, ..)              the callee's summary (computed from its own body):
                             requires CHECKED?  ensures CHECKED / UNCHECKED / unchanged
  unknown callee             by non-const reference -> UNCHECKED, else unchanged

Summaries are computed for every analysed function with the iterator
parameters UNCHECKED on entry; a dereference of a parameter that is still in
its entry state makes the summary 'requires CHECKED' instead of a report, the
obligation moves to the callers; it is reported where it can no longer be
passed on: at a call site whose argument is UNCHECKED, or at a function whose
address is taken (handler tables: the dispatcher's state at the indirect call
is the entry state of every handler).
"""
import re
from collections import defaultdict
from cfg import *

ADV = ("++", "+=", "-=", "=")


class Tracker:
    def __init__(self, funcs, is_iter_type, member=None, raisers=("tfel::raise_if",)):
        """funcs: list of cfg.Func (all units); is_iter_type(type string) -> bool;
        member: tracked member access path (e.g. 'this->current') or None."""
        self.funcs = funcs
        self.is_iter = is_iter_type
        self.member = member
        self.raisers = raisers
        self.check_increment = False
        self._noreturn = {}
        self.check_singular = False     # needs flag correlation ('treated' set together with the iterator): off, see DESIGN.md 12.4 (C35-d)
        self.kids = children_of(funcs)
        self.summ = {}          # key(f) -> {var: (requires, ensures)}
        self.indirect = []      # (func, site, arg index, checked?) for calls through pointers to members
        self.by_key = {}
        for f in funcs:
            self.by_key.setdefault(self.key(f), f)

    @staticmethod
    def key(f):
        return (f.qname, tuple(p["type"] for p in f.params))

    # ---------------------------------------------------------------- helpers
    def var_of(self, f, sid):
        """tracked variable denoted by expression sid: declId (int) / 'M' for the member / None."""
        s = f.strip(sid)
        if s is None or s <= 0:
            return None
        n = f.stmts[s]
        if n["k"] == "DeclRefExpr" and n.get("declKind") in ("Var", "ParmVar") and self.is_iter(n.get("declType") or n.get("t") or ""):
            return n["declId"]
        if self.member and n["k"] == "MemberExpr" and f.path(s) == self.member:
            return "M"
        if n["k"] == "ParenExpr":
            return self.var_of(f, f.kids(s)[0])
        return None

    def tracked_params(self, f):
        return {p["declId"]: i for i, p in enumerate(f.params) if self.is_iter(p["type"])}

    def closure_raisers(self, f):
        res = set()
        lam = {k.id: k for k in self.kids.get((f.unit, f.id), [])}
        for n in f.stmts.values():
            if n["k"] != "DeclStmt":
                continue
            for d in n["decls"]:
                if "init" not in d:
                    continue
                i = f.strip(d["init"])
                if f.stmts[i]["k"] != "LambdaExpr":
                    continue
                g = lam.get(f.stmts[i].get("lambdaOp"))
                if g is None or not g.params:
                    continue
                p0 = g.params[0]["declId"]
                for m in g.stmts.values():
                    if m["k"] == "CallExpr" and (m.get("callee") or "").split("<")[0] in self.raisers and m.get("args"):
                        a = g.stmts[g.strip(m["args"][0])]
                        if a["k"] == "DeclRefExpr" and a.get("declId") == p0:
                            res.add(d["declId"])
                    if m["k"] == "IfStmt":
                        c = g.stmts[g.strip(m["cond"])]
                        if c["k"] == "DeclRefExpr" and c.get("declId") == p0:
                            th = [x for x in g.walk(m["then"]) if g.stmts[x]["k"] == "CXXThrowExpr" or
                                  (g.stmts[x]["k"] in ("CallExpr", "CXXMemberCallExpr") and g.stmts[x].get("noreturn"))]
                            if th:
                                res.add(d["declId"])
        return res

    def cmp_atom(self, f):
        def atom(f_, s):
            bo = f_.binop(s)
            if bo and bo[0] in ("==", "!="):
                for a, b in ((bo[1], bo[2]), (bo[2], bo[1])):
                    an = f_.stmts[f_.strip(a)]
                    if an["k"] == "CallExpr" and (an.get("callee") or "") == "std::next" and len(an.get("args", [])) >= 1:
                        lit = len(an["args"]) == 1 or isinstance(an["args"][1], int) and \
                            f_.stmts[f_.strip(an["args"][1])]["k"] == "CXXDefaultArgExpr"
                        v = self.var_of(f_, an["args"][0])
                        if v is not None and lit:
                            return ("nx:%s" % v, bo[0] == "==")
                for a, b in ((bo[1], bo[2]), (bo[2], bo[1])):
                    v = self.var_of(f_, a)
                    if v is not None and self.var_of(f_, b) != v:
                        bt = (f_.stmts[f_.strip(b)].get("t") or "")
                        if self.is_iter(bt) or "iterator" in bt:
                            return ("ne:%s" % v, bo[0] == "==")
            return None
        return atom

    # ---------------------------------------------------------------- analysis of one function
    def analyse(self, f, entry_checked=frozenset(), report=None):
        """returns summary {var: (requires, ensures)} for tracked params (+ 'M');
        report(kind, f, sid, var, detail) is called for violations when given."""
        tp = self.tracked_params(f)
        atom = self.cmp_atom(f)
        raisers = self.closure_raisers(f)
        requires = set()
        exits = []
        reported = set()
        modified_ever = set()

        def name_of(v):
            if v == "M":
                return self.member
            for s_, n_ in f.stmts.items():
                if n_["k"] == "DeclRefExpr" and n_.get("declId") == v:
                    return n_["name"]
            return str(v)

        def need_checked(st, v, sid, why):
            checked, pristine = st[0], st[1]
            if v in checked:
                return
            if v in pristine and (v in tp or v == "M"):
                requires.add(v)
                return
            if report is not None and (sid, v) not in reported:
                reported.add((sid, v))
                report("deref", f, sid, name_of(v), why)

        def el(st, b, i, e):
            checked, pristine, assume = st
            if "s" not in e:
                return (st,)
            sid = e["s"]
            n = f.stmts[sid]
            k = n["k"]
            # dereference
            if k == "CXXOperatorCallExpr" and n.get("op") in ("*", "->") and len(n.get("args", [])) == 1:
                v = self.var_of(f, n["args"][0])
                if v is not None:
                    need_checked(st, v, sid, "dereferenced")
                    if self.check_increment:
                        # once dereferenced (the report, if any, is made), the iterator is taken to be valid: no second report downstream
                        return ((checked | {v}, pristine, assume),)
                return (st,)
            if k == "UnaryOperator" and n.get("op") == "*":
                v = self.var_of(f, f.kids(sid)[0])
                if v is not None:
                    need_checked(st, v, sid, "dereferenced")
                return (st,)
            # a callee that never returns normally (every path of its body ends in a throw or a [[noreturn]] call): the path ends here
            if self.check_singular and k in ("CXXMemberCallExpr", "CallExpr"):
                ck_ = (n.get("callee") or "", tuple(n.get("calleeParamTypes") or []))
                nr_ = self._noreturn.get(ck_)
                if nr_ is None:
                    g_ = self.by_key.get(ck_)
                    nr_ = bool(g_ is not None and g_.entry is not None and g_.exit not in g_.reachable_blocks())
                    self._noreturn[ck_] = nr_
                if nr_:
                    return ()
            # call of a closure that dereferences an iterator it captured by reference (the immediately-invoked '[&p] { ... p->value ... }()'
            # idiom): the dereference happens here; a closure that tests or hands over the iterator before its first dereference is left alone
            if k == "CXXOperatorCallExpr" and n.get("op") == "()":
                for g in self.kids.get((f.unit, f.id), []):
                    if g.id != n.get("calleeId"):
                        continue
                    first = {}
                    for s2 in sorted(g.stmts):
                        m2 = g.stmts[s2]
                        if m2["k"] == "CXXOperatorCallExpr" and m2.get("op") in ("*", "->") and len(m2.get("args", [])) == 1:
                            v2 = self.var_of(g, m2["args"][0])
                            if v2 is not None and v2 != "M":
                                first.setdefault(v2, ("deref", s2))
                        elif m2["k"] in ("CallExpr", "CXXMemberCallExpr") or (g.binop(s2) and g.binop(s2)[0] in ("==", "!=")):
                            for a in (m2.get("args") or []) + (list(g.binop(s2)[1:]) if g.binop(s2) else []):
                                v2 = self.var_of(g, a)
                                if v2 is not None and v2 != "M":
                                    first.setdefault(v2, ("other", s2))
                    # the member iterator through 'this': the first call of the closure that needs it checked, unless one that checks it comes first
                    if self.member:
                        for s2 in sorted(g.stmts):
                            m2 = g.stmts[s2]
                            if m2["k"] == "CXXOperatorCallExpr" and m2.get("op") in ("*", "->") and m2.get("args") and self.var_of(g, m2["args"][0]) == "M":
                                first.setdefault("M", ("deref", s2))
                            elif m2["k"] == "CXXMemberCallExpr":
                                ent = (self.summ.get((m2.get("callee") or "", tuple(m2.get("calleeParamTypes") or []))) or {}).get("M")
                                if ent is not None and ent[0]:
                                    first.setdefault("M", ("deref", s2))
                                elif ent is not None and "C" in ent[1:]:
                                    first.setdefault("M", ("other", s2))
                    for v2, (what, s2) in first.items():
                        if v2 == "M":
                            if what == "deref":
                                need_checked(st, "M", sid, "dereferenced in the closure called here (%s)" % g.short_loc(s2).rsplit("/", 1)[-1])
                            continue
                        if what == "deref" and (v2 in tp or any(m3["k"] == "DeclRefExpr" and m3.get("declId") == v2 for m3 in f.stmts.values())):
                            need_checked(st, v2, sid, "dereferenced in the closure called here (%s)" % g.short_loc(s2).rsplit("/", 1)[-1])
            # modification
            mod = None
            if k == "CXXOperatorCallExpr" and n.get("op") in ("++", "--", "+=", "-=", "=") and n.get("args"):
                v = self.var_of(f, n["args"][0])
                if v is not None:
                    mod = (v, n["op"], n["args"][1] if len(n["args"]) > 1 else None)
            if k in ("UnaryOperator",) and n.get("op") in ("++", "--"):
                v = self.var_of(f, f.kids(sid)[0])
                if v is not None:
                    mod = (v, n["op"], None)
            if k in ("BinaryOperator", "CompoundAssignOperator") and n.get("op") in ("=", "+=", "-="):
                v = self.var_of(f, f.kids(sid)[0])
                if v is not None:
                    mod = (v, n["op"], f.kids(sid)[1])
            if mod is not None:
                v, op, rhs = mod
                # a default-constructed (singular) local iterator copied into a tracked iterator
                if op == "=" and rhs is not None and self.check_singular:
                    rv_ = self.var_of(f, rhs)
                    if rv_ is not None and ("sing", rv_) in checked and report is not None and (sid, rv_, "sing") not in reported:
                        reported.add((sid, rv_, "sing"))
                        report("singular", f, sid, name_of(rv_), "assigned to '%s' although it was never given a value on this path" % name_of(v))
                checked = checked - {("sing", v)}
                if op == "++" and self.check_increment and v not in checked and not (v in pristine and (v in tp or v == "M")) and ("next", v) not in checked:
                    if report is not None and (sid, v, "inc") not in reported:
                        reported.add((sid, v, "inc"))
                        report("increment", f, sid, name_of(v), "incremented")
                modified_ever.add(v)
                pristine = pristine - {v}
                back = False
                if op == "=" and rhs is not None:
                    r0 = f.stmts[f.strip(rhs)]
                    back = r0["k"] == "CallExpr" and (r0.get("callee") or "") == "std::prev"
                if op == "--" or back:
                    checked = checked | {v}
                elif op == "++" and ("next", v) in checked:
                    checked = (checked - {("next", v)}) | {v}       # std::next(v) was compared with the end
                elif op == "=" and rhs is not None and self.var_of(f, rhs) in checked:
                    checked = checked | {v}
                else:
                    checked = checked - {v}
                if op != "++":
                    checked = checked - {("next", v)}
                return ((checked, pristine, assume),)
            if k == "DeclStmt":
                for d in n["decls"]:
                    if d.get("declKind") == "Var" and self.is_iter(d.get("type", "")):
                        v = d["declId"]
                        src = self.var_of(f, d["init"]) if "init" in d else None
                        back = False
                        if "init" in d:
                            i0 = f.stmts[f.strip(d["init"])]
                            back = i0["k"] == "CallExpr" and (i0.get("callee") or "") == "std::prev"
                        if (src is not None and src in checked) or back:
                            checked = checked | {v}     # copy of a checked iterator / a step backwards
                        else:
                            checked = checked - {v}
                        i1 = f.stmts.get(f.strip(d["init"])) if "init" in d else None
                        if self.check_singular and ("init" not in d or (i1 is not None and i1["k"] == "CXXConstructExpr" and not i1.get("args"))):
                            checked = checked | {("sing", v)}       # declared without a value: singular until assigned
                        pristine = pristine - {v}
                return ((checked, pristine, assume),)
            # calls
            if k in ("CallExpr", "CXXMemberCallExpr", "CXXOperatorCallExpr", "CXXConstructExpr"):
                cal = n.get("callee") or ""
                args = n.get("args", [])
                # raisers: on normal return the tested condition was false
                cond = None
                if k == "CallExpr" and cal.split("<")[0] in self.raisers and args:
                    cond = args[0]
                if k == "CXXOperatorCallExpr" and n.get("op") == "()" and len(args) >= 2:
                    a0 = f.stmts[f.strip(args[0])]
                    if a0["k"] == "DeclRefExpr" and a0.get("declId") in raisers:
                        cond = args[1]
                if cond is not None:
                    c0 = f.stmts.get(f.strip(cond))
                    if c0 is not None and c0["k"] == "CXXBoolLiteralExpr" and c0.get("value"):
                        return ()       # raise_if(true, ...) / throw_if(true, ...): never returns
                    fx = refine(f, cond, False, {}, atom)
                    for kx, vx in fx.items():
                        if vx is True and kx.startswith(("ne:", "nx:")):
                            vv = kx[3:]
                            vv = int(vv) if vv != "M" else "M"
                            checked = checked | ({vv} if kx.startswith("ne:") else {("next", vv)})
                    return ((checked, pristine, assume),)
                if k == "CXXOperatorCallExpr" and n.get("op") != "()":
                    return (st,)
                if not cal and report is not None and k in ("CXXMemberCallExpr", "CallExpr"):
                    # indirect call (handler table): remember the state of the iterator arguments
                    for i_, a in enumerate(args):
                        v = self.var_of(f, a)
                        if v is not None:
                            self.indirect.append((f, sid, i_, v in checked))
                pts = n.get("calleeParamTypesW") or n.get("calleeParamTypes") or []
                ptc = tuple(n.get("calleeParamTypes") or [])
                summ = self.summ.get((cal, ptc))
                callee = self.by_key.get((cal, ptc))
                offs = 1 if (k == "CXXOperatorCallExpr") else 0
                variants = [None]
                if summ is not None and n.get("t") == "bool" and any(len(x) > 2 and x[2] != x[3] for x in summ.values()):
                    variants = [True, False]
                outs = []
                for rv in variants:
                    ck, pr = checked, pristine
                    for i_, a in enumerate(args[offs:]):
                        v = self.var_of(f, a)
                        if v is None:
                            continue
                        pt = pts[i_] if i_ < len(pts) else ""
                        nonconst_ref = pt.rstrip().endswith("&") and not pt.lstrip().startswith("const")
                        if summ is not None and callee is not None and i_ < len(callee.params):
                            pv = callee.params[i_]["declId"]
                            ent = summ.get(pv, (False, "same", "same", "same"))
                            req = ent[0]
                            ens = ent[1] if rv is None else (ent[2] if rv else ent[3])
                            if req and rv in (None, True):
                                need_checked((checked, pristine), v, sid, "passed to %s, which dereferences it before any end check" % cal)
                            if ens == "C":
                                ck = ck | {v}
                            elif ens == "U" and nonconst_ref:
                                ck = ck - {v}
                                pr = pr - {v}
                        elif nonconst_ref:
                            ck = ck - {v}
                            pr = pr - {v}
                    outs.append((ck, pr, assume if rv is None else frozenset(set(assume) | {(sid, rv)})))
                if len(outs) > 1 or not (self.member and k == "CXXMemberCallExpr"):
                    return tuple(outs)
                checked, pristine, assume = outs[0]
                # member iterator: methods of the same object
                if self.member and k == "CXXMemberCallExpr":
                    o = f.stmts[f.strip(n.get("obj"))] if n.get("obj") else {}
                    if o.get("k") == "CXXThisExpr":
                        if summ is not None and "M" in summ:
                            req, ens = summ["M"][0], summ["M"][1]
                            if req:
                                need_checked((checked, pristine), "M", sid, "%s dereferences %s before any end check" % (cal, self.member))
                            if ens == "C":
                                checked = checked | {"M"}
                            elif ens == "U":
                                checked = checked - {"M"}
                                pristine = pristine - {"M"}
                        elif summ is None and callee is None and not n.get("constMethod") and \
                                re.match(r"(read|treat|ignore|handle|analyse|parse|next|import|register|declare|set[A-Z].*From)", cal.rsplit("::", 1)[-1]):
                            # a bodyless (virtual / other unit) method whose name says it consumes tokens: may move the
                            # member iterator; other bodyless methods are assumed not to touch it (recorded assumption)
                            checked = checked - {"M"}
                            pristine = pristine - {"M"}
                return ((checked, pristine, assume),)
            if k == "ReturnStmt":
                ks = f.kids(sid)
                lit = f.stmts[f.strip(ks[0])] if ks else None
                rv = bool(lit["value"]) if lit is not None and lit["k"] == "CXXBoolLiteralExpr" else None
                exits.append((rv, checked, pristine))
            return (st,)

        def atom_all(f_, s_):
            a = atom(f_, s_)
            if a is not None:
                return a
            n_ = f_.stmts[s_]
            if n_["k"] in ("CallExpr", "CXXMemberCallExpr") and n_.get("t") == "bool":
                return ("ret:%d" % s_, False)
            return None

        # flags set together with an iterator: a local bool b such that every 'b = true' shares its CFG block with an assignment of the local
        # iterator v, and conversely: on an edge where b is known true, v has been assigned (the states where v is still singular are infeasible)
        paired = {}
        if self.check_singular:
            pos_ = f.stmt_positions()
            asg_v, asg_b = {}, {}
            for s_, n_ in f.stmts.items():
                if n_["k"] == "CXXOperatorCallExpr" and n_.get("op") == "=" and n_.get("args"):
                    v_ = self.var_of(f, n_["args"][0])
                    if v_ is not None and v_ != "M" and s_ in pos_:
                        asg_v.setdefault(v_, set()).add(pos_[s_][0])
                if n_["k"] == "BinaryOperator" and n_.get("op") == "=":
                    l_, r_ = f.stmts.get(f.strip(f.kids(s_)[0])), f.stmts.get(f.strip(f.kids(s_)[1]))
                    if l_ is not None and l_["k"] == "DeclRefExpr" and l_.get("local") and (l_.get("declType") or "") in ("bool", "_Bool") and \
                            r_ is not None and r_["k"] == "CXXBoolLiteralExpr" and r_.get("value") and s_ in pos_:
                        asg_b.setdefault(l_["declId"], set()).add(pos_[s_][0])
            for b_, bb in asg_b.items():
                for v_, vb in asg_v.items():
                    if bb == vb:
                        paired[b_] = v_

        def flag_of(cond):
            """(flag declId, value of the flag when the condition is true)"""
            c_ = f.stmts.get(f.strip(cond))
            if c_ is None:
                return None
            if c_["k"] == "DeclRefExpr" and c_.get("declId") in paired:
                return c_["declId"], True
            if c_["k"] == "UnaryOperator" and c_.get("op") == "!":
                k_ = f.stmts.get(f.strip(f.kids(f.strip(cond))[0]))
                if k_ is not None and k_["k"] == "DeclRefExpr" and k_.get("declId") in paired:
                    return k_["declId"], False
            return None

        def ed(st, b, succ, pol):
            checked, pristine, assume = st
            if pol is None or b.cond is None:
                return (st,)
            if paired:
                fl = flag_of(b.cond)
                if fl is not None:
                    flag_true = (fl[1] == pol)
                    if flag_true and ("sing", paired[fl[0]]) in checked:
                        return ()       # the flag is true: the iterator was assigned on this path
            facts = {"ret:%d" % s_: v_ for s_, v_ in assume}
            v0 = eval3(f, b.cond, facts, atom_all)
            if v0 is not None and v0 != pol:
                return ()
            fx = refine(f, b.cond, pol, facts, atom_all)
            for kx, vx in fx.items():
                if vx is True and kx.startswith(("ne:", "nx:")):
                    vv = kx[3:]
                    vv = int(vv) if vv != "M" else "M"
                    checked = checked | ({vv} if kx.startswith("ne:") else {("next", vv)})
            inside = set(f.walk(b.cond))
            assume = frozenset(a for a in assume if a[0] not in inside)
            return ((checked, pristine, assume),)
        init_pr = frozenset(tp) | (frozenset(["M"]) if self.member else frozenset())
        IN, OUT = forward(f, [(frozenset(entry_checked), init_pr, frozenset())], el, ed, max_states=400000)
        if f.d.get("ret") != "bool" or not exits:
            exits += [(None, c, p_) for c, p_, _a in IN.get(f.exit, ())]
        summ = {}

        def ens_of(v, sub):
            if sub and all(v in c for _r, c, _p in sub):
                return "C"
            if v in modified_ever and any(v not in p_ for _r, _c, p_ in sub):
                return "U"
            if any(v not in p_ for _r, _c, p_ in sub):
                return "U"
            return "same"
        for v in list(tp) + (["M"] if self.member else []):
            et = [x for x in exits if x[0] is True] or exits
            ef = [x for x in exits if x[0] is False] or exits
            summ[v] = (v in requires, ens_of(v, exits), ens_of(v, et), ens_of(v, ef))
        return summ

    def compute_summaries(self, rounds=4):
        for r in range(rounds):
            new = {}
            for f in self.funcs:
                if not self.tracked_params(f) and not self.member:
                    continue
                if f.parent is not None:
                    continue
                try:
                    new[self.key(f)] = self.analyse(f)
                except RuntimeError:
                    new[self.key(f)] = {}
            if new == self.summ:
                break
            self.summ = new
        return self.summ
