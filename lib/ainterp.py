"""Abstract interpreter over cfgdump CFGs with the Intervals(1) domain.

One scalar input X is symbolic; abstract values are affine forms a*X+b with
rational coefficients, booleans, enum constants, or TOP.  X ranges over a
cell (open interval or point); a comparison that is undecided on the cell
raises Split(point) and the driver refines the partition and restarts, so the
result is the finite partition of the real line on which the analysed function
is constant.  Opaque conditions fork (both successors).  No value of the code
under analysis is ever computed: only the literal thresholds are compared.
"""
from fractions import Fraction
from cfg import *

TOP = ("top",)
INF = float("inf")


class Split(Exception):
    def __init__(self, point):
        self.point = point


class Unsupported(Exception):
    pass


def aff(a, b):
    return ("aff", Fraction(a), Fraction(b))


def const(v):
    return ("aff", Fraction(0), Fraction(v))


def is_const(v):
    return v[0] == "aff" and v[1] == 0


class Cell:
    """open interval (lo,hi) or point [p,p]."""

    def __init__(self, lo, hi, point=False):
        self.lo, self.hi, self.point = lo, hi, point

    def __repr__(self):
        if self.point:
            return "{%s}" % self.lo
        return "(%s,%s)" % (self.lo, self.hi)

    def sample_in(self, x):
        if self.point:
            return x == self.lo
        return self.lo < x < self.hi

    def sign_of(self, a, b):
        """sign of a*X+b on the cell: -1, 0, +1, or raises Split."""
        if a == 0:
            return (b > 0) - (b < 0)
        root = -b / a
        if self.point:
            v = a * self.lo + b
            return (v > 0) - (v < 0)
        if self.lo < root < self.hi:
            raise Split(root)
        # whole open cell on one side of the root
        if root <= self.lo:
            side = 1      # X > root
        else:
            side = -1     # X < root
        s = side if a > 0 else -side
        return s


def partition(run_cell, lo=-INF, hi=INF, max_cells=200):
    """returns [(Cell, outcome)] covering (lo,hi)."""
    todo = [Cell(lo, hi)]
    res = []
    while todo:
        c = todo.pop()
        try:
            res.append((c, run_cell(c)))
        except Split as s:
            p = s.point
            if c.point or not (c.lo < p < c.hi):
                raise Unsupported("bad split %s in %s" % (p, c))
            todo += [Cell(c.lo, p), Cell(p, p, True), Cell(p, c.hi)]
        if len(res) + len(todo) > max_cells:
            raise Unsupported("too many cells")
    res.sort(key=lambda t: (t[0].lo, 0 if t[0].point else 1))
    return res


class Interp:
    def __init__(self, funcs, is_input, on_call=None, max_depth=6):
        """funcs: list of Func (one TU); is_input(fn, sid, interp, env) -> bool decides whether
        expression sid denotes the symbolic input X."""
        self.by_id = {f.id: f for f in funcs}
        self.is_input = is_input
        self.on_call = on_call
        self.cell = None
        self.max_depth = max_depth
        self.depth = 0
        self.nested_calls = 0

    # ---------------------------------------------------------- expressions
    def eval(self, fn, sid, env):
        if sid is None or sid <= 0:
            return TOP
        n = fn.stmts[sid]
        k = n["k"]
        r = self.is_input(fn, sid, self, env)
        if r is True:
            return aff(1, 0)
        if r is not None and r is not False:
            return r
        if k in ("MemberExpr", "ArraySubscriptExpr") or \
                (k == "CXXOperatorCallExpr" and n.get("op") in ("()", "[]")):
            p = fn.path(sid)
            if p and ("path:" + p) in env:
                return env["path:" + p]
        if k in TRANSPARENT or k in ("CXXFunctionalCastExpr", "CStyleCastExpr",
                                     "CXXStaticCastExpr"):
            ks = fn.kids(sid)
            if not ks:
                return TOP
            v = self.eval(fn, ks[0], env)
            if k == "ImplicitCastExpr" and n.get("cast") in ("IntegralToBoolean", "FloatingToBoolean"):
                if is_const(v):
                    return ("bool", v[2] != 0)
                return TOP
            if n.get("cast") in ("IntegralCast", "IntegralToFloating", "FloatingCast", "NoOp",
                                 "LValueToRValue", "ConstructorConversion", None):
                if v[0] == "bool" and n.get("cast") in ("IntegralCast", "IntegralToFloating"):
                    return const(1 if v[1] else 0)
                return v
            return TOP
        if k == "IntegerLiteral":
            return const(n["value"])
        if k == "FloatingLiteral":
            return const(Fraction(n["value"]))
        if k == "CXXBoolLiteralExpr":
            return ("bool", bool(n["value"]))
        if k == "DeclRefExpr":
            if n.get("declKind") == "EnumConstant":
                return ("enum", n["qname"])
            return env.get(n["declId"], TOP)
        if k == "MemberExpr":
            p = fn.path(sid)
            if p and ("path:" + p) in env:
                return env["path:" + p]
            return TOP
        if k == "CXXConstructExpr" and len(n.get("args", [])) == 1:
            # single-argument value wrappers (qt<..>{x}, real{x})
            return self.eval(fn, n["args"][0], env)
        if k == "InitListExpr" and len(fn.kids(sid)) == 1:
            return self.eval(fn, fn.kids(sid)[0], env)
        if k == "UnaryOperator":
            v = self.eval(fn, fn.kids(sid)[0], env)
            if n["op"] == "!":
                if v[0] == "bool":
                    return ("bool", not v[1])
                return TOP
            if n["op"] == "-" and v[0] == "aff":
                return aff(-v[1], -v[2])
            if n["op"] == "+":
                return v
            return TOP
        if k == "ConditionalOperator":
            c, a, b = fn.kids(sid)[:3]
            cv = self.eval(fn, c, env)
            if cv[0] == "bool":
                return self.eval(fn, a if cv[1] else b, env)
            va, vb = self.eval(fn, a, env), self.eval(fn, b, env)
            return va if va == vb else TOP
        if k == "BinaryOperator" or (k == "CXXOperatorCallExpr" and len(n.get("args", [])) == 2
                                     and n.get("op") in ("<", ">", "<=", ">=", "==", "!=", "+", "-", "*")):
            if k == "BinaryOperator":
                l, r = fn.kids(sid)[:2]
            else:
                l, r = n["args"]
            op = n["op"]
            if op == "&&":
                lv = self.eval(fn, l, env)
                if lv == ("bool", False):
                    return lv
                rv = self.eval(fn, r, env)
                if lv == ("bool", True):
                    return rv if rv[0] == "bool" else TOP
                if rv == ("bool", False):
                    return rv
                return TOP
            if op == "||":
                lv = self.eval(fn, l, env)
                if lv == ("bool", True):
                    return lv
                rv = self.eval(fn, r, env)
                if lv == ("bool", False):
                    return rv if rv[0] == "bool" else TOP
                if rv == ("bool", True):
                    return rv
                return TOP
            if op == ",":
                return self.eval(fn, r, env)
            lv, rv = self.eval(fn, l, env), self.eval(fn, r, env)
            if op in ("==", "!=") and lv[0] == "enum" and rv[0] == "enum":
                return ("bool", (lv == rv) == (op == "=="))
            if op in ("==", "!=") and lv[0] == "bool" and rv[0] == "bool":
                return ("bool", (lv == rv) == (op == "=="))
            if lv[0] != "aff" or rv[0] != "aff":
                return TOP
            if op == "+":
                return aff(lv[1] + rv[1], lv[2] + rv[2])
            if op == "-":
                return aff(lv[1] - rv[1], lv[2] - rv[2])
            if op == "*":
                if lv[1] == 0:
                    return aff(lv[2] * rv[1], lv[2] * rv[2])
                if rv[1] == 0:
                    return aff(rv[2] * lv[1], rv[2] * lv[2])
                return TOP
            if op in ("<", ">", "<=", ">=", "==", "!="):
                s = self.cell.sign_of(lv[1] - rv[1], lv[2] - rv[2])
                return ("bool", {"<": s < 0, ">": s > 0, "<=": s <= 0, ">=": s >= 0,
                                 "==": s == 0, "!=": s != 0}[op])
            return TOP
        if k == "CXXOperatorCallExpr" and n.get("op") == "()":
            # immediately-invoked lambda / call of a local closure
            callee_id = n.get("calleeId")
            f2 = self.by_id.get(callee_id)
            if f2 is not None:
                return self.call(f2, [self.eval(fn, a, env) for a in n["args"][1:]], env)
            return TOP
        if k in ("CallExpr", "CXXMemberCallExpr"):
            f2 = self.by_id.get(n.get("calleeId"))
            if f2 is not None:
                self.nested_calls += 1
                return self.call(f2, [self.eval(fn, a, env) for a in n["args"]], env, pure=True)
            return TOP
        return TOP

    def call(self, f2, argvals, env, pure=True):
        """evaluate callee for its return value (side effects on env are
        dropped unless the call is handled at statement level by run())."""
        if self.depth >= self.max_depth:
            return TOP
        e2 = dict(env)
        for p, v in zip(f2.params, argvals):
            e2[p["declId"]] = v
        self.depth += 1
        try:
            outs = self.run(f2, e2)
        finally:
            self.depth -= 1
        rets = {o.get("__ret", TOP) for o in outs}
        if len(rets) == 1:
            return rets.pop()
        return TOP

    # ---------------------------------------------------------------- run
    def run(self, fn, env0):
        """returns list of exit environments (dict) of fn started with env0."""
        exits = []

        def freeze(e):
            return tuple(sorted(e.items(), key=lambda kv: str(kv[0])))

        def elem_fn(st, b, i, e):
            if "s" not in e:
                return (st,)
            sid = e["s"]
            n = fn.stmts[sid]
            k = n["k"]
            env = dict(st)
            if "__ret" in env:
                return (st,)
            if k == "DeclStmt":
                outs = [env]
                for d in n["decls"]:
                    if d.get("declKind") != "Var" or "init" not in d:
                        continue
                    outs2 = []
                    for en in outs:
                        for v, en2 in self.eval_stmt_level(fn, d["init"], en):
                            en2 = dict(en2)
                            en2[d["declId"]] = v
                            outs2.append(en2)
                    outs = outs2
                return tuple(freeze(o) for o in outs)
            if k == "ReturnStmt":
                ks = fn.kids(sid)
                res = []
                if ks:
                    for v, en2 in self.eval_stmt_level(fn, ks[0], env):
                        en2 = dict(en2)
                        en2["__ret"] = v
                        res.append(freeze(en2))
                else:
                    env["__ret"] = ("void",)
                    res.append(freeze(env))
                return tuple(res)
            par = fn.parent_map().get(sid)
            stmt_level = par is None or fn.stmts[par]["k"] in (
                "CompoundStmt", "IfStmt", "ForStmt", "WhileStmt", "DoStmt", "CXXForRangeStmt",
                "CaseStmt", "DefaultStmt", "CXXTryStmt", "LabelStmt", "SwitchStmt")
            if par is not None and fn.stmts[par]["k"] == "ExprWithCleanups":
                gp = fn.parent_map().get(par)
                stmt_level = gp is None or fn.stmts[gp]["k"] in ("CompoundStmt", "IfStmt", "CXXTryStmt")
                if fn.stmts[gp]["k"] == "IfStmt" and fn.stmts[gp].get("cond") == par:
                    stmt_level = False
            if par is not None and fn.stmts[par]["k"] == "IfStmt" and fn.stmts[par].get("cond") == sid:
                stmt_level = False
            if not stmt_level:
                # sub-expression: effects of calls are still recorded
                if fn.is_call(sid) and self.on_call:
                    upd = self.on_call(self, fn, sid, env)
                    if upd:
                        env.update(upd)
                        return (freeze(env),)
                return (st,)
            # assignment to a tracked local / path
            if (k == "BinaryOperator" and n["op"] == "=") or \
                    (k == "CXXOperatorCallExpr" and n.get("op") == "=" and len(n["args"]) == 2):
                l, r = (fn.kids(sid)[:2] if k == "BinaryOperator" else n["args"])
                res = []
                for v, en2 in self.eval_stmt_level(fn, r, env):
                    en2 = dict(en2)
                    ls = fn.strip(l)
                    ln = fn.stmts[ls]
                    if ln["k"] == "DeclRefExpr":
                        en2[ln["declId"]] = v
                    else:
                        p = fn.path(ls)
                        if p:
                            en2["path:" + p] = v
                    res.append(freeze(en2))
                return tuple(res)
            if k in ("CompoundAssignOperator",) or (k == "UnaryOperator" and n["op"] in ("++", "--")):
                ls = fn.strip(fn.kids(sid)[0])
                ln = fn.stmts[ls]
                if ln["k"] == "DeclRefExpr":
                    env[ln["declId"]] = TOP
                else:
                    p = fn.path(ls)
                    if p:
                        env["path:" + p] = TOP
                return (freeze(env),)
            if fn.is_call(sid):
                outs = self.eval_stmt_level(fn, sid, env)
                return tuple(freeze(en2) for v, en2 in outs)
            return (st,)

        def edge_fn(st, b, succ, pol):
            if pol is None or b.cond is None:
                return (st,)
            env = dict(st)
            if "__ret" in env:
                return (st,)
            v = self.eval(fn, b.cond, env)
            if v[0] == "bool":
                return (st,) if v[1] == pol else ()
            return (st,)

        IN, OUT = forward(fn, [freeze(env0)], elem_fn, edge_fn, max_states=50000)
        res = []
        for st in IN.get(fn.exit, ()):
            res.append(dict(st))
        return res

    def eval_stmt_level(self, fn, sid, env):
        """evaluate an expression at a position where an in-dump callee's
        effects on the environment are kept: returns [(value, env)]."""
        s = fn.strip(sid)
        n = fn.stmts[s]
        if fn.is_call(s) and self.on_call:
            upd = self.on_call(self, fn, s, env)
            if upd:
                env = dict(env)
                env.update(upd)
        if n["k"] in ("CallExpr", "CXXMemberCallExpr") or \
                (n["k"] == "CXXOperatorCallExpr" and n.get("op") == "()"):
            f2 = self.by_id.get(n.get("calleeId"))
            if f2 is not None and self.depth < self.max_depth:
                args = n["args"][1:] if n["k"] == "CXXOperatorCallExpr" else n["args"]
                e2 = dict(env)
                for p, a in zip(f2.params, args):
                    e2[p["declId"]] = self.eval(fn, a, env)
                    # pointer/reference parameters: remember the argument path
                    ap = fn.path(a)
                    if ap:
                        e2["argpath:%d" % p["declId"]] = ("path", ap)
                self.depth += 1
                try:
                    outs = self.run(f2, e2)
                finally:
                    self.depth -= 1
                res = []
                for o in outs:
                    v = o.pop("__ret", TOP)
                    res.append((v, o))
                if res:
                    return res
                return [(TOP, env)]
        return [(self.eval(fn, sid, env), env)]
