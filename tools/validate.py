#!/opt/veriftools/pyvenv/bin/python
"""validates MANIFEST.json and every evidence file against the given schemas."""
import json, jsonschema, glob, sys
ok = True
jsonschema.validate(json.load(open('/verif/MANIFEST.json')), json.load(open('/root/.vp/MANIFEST.schema.json')))
es = json.load(open('/root/.vp/EVIDENCE.schema.json'))
for p in sorted(glob.glob('/verif/evidence/*.json')):
    try:
        jsonschema.validate(json.load(open(p)), es)
    except Exception as e:
        ok = False; print("INVALID", p, str(e)[:300])
m = json.load(open('/verif/MANIFEST.json'))
for c in m['checks']:
    import os
    if not os.path.exists(c['evidence_file']):
        print("MISSING evidence", c['property_id']); ok = False
print("valid" if ok else "PROBLEMS")
