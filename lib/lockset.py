"""Lock-set dataflow over cfgdump CFGs: RAII guards and explicit lock()/unlock()."""
from cfg import *

GUARDS = ("std::unique_lock", "std::lock_guard", "std::scoped_lock")


def guard_decls(f):
    """declId -> mutex path for RAII guard locals of f."""
    res = {}
    for n in f.stmts.values():
        if n["k"] != "DeclStmt":
            continue
        for d in n["decls"]:
            if d.get("cls") in GUARDS and "init" in d:
                i = f.strip(d["init"])
                c = f.stmts[i]
                if c["k"] in ("CXXConstructExpr", "CXXTemporaryObjectExpr") and c.get("args"):
                    p = f.path(c["args"][0])
                    if p:
                        res[d["declId"]] = norm_mutex(p)
    return res


def norm_mutex(p):
    return p.replace("this->", "")


def lock_transfer(f, guards):
    """returns elem transfer for the held-set component: held is a frozenset of
    (mutex, holder) where holder is the guard declId or 'explicit'."""
    def step(held, e):
        if "s" in e:
            n = f.stmts[e["s"]]
            if n["k"] == "DeclStmt":
                for d in n["decls"]:
                    if d.get("declId") in guards:
                        held = held | {(guards[d["declId"]], d["declId"])}
                return held
            if n["k"] == "CXXMemberCallExpr":
                cal = n.get("callee") or ""
                nm = cal.rsplit("::", 1)[-1]
                obj = n.get("obj")
                on = f.stmts[f.strip(obj)] if obj else None
                if nm in ("unlock", "lock") and on is not None:
                    if on["k"] == "DeclRefExpr" and on.get("declId") in guards:
                        g = on["declId"]
                        if nm == "unlock":
                            return frozenset(h for h in held if h[1] != g)
                        return held | {(guards[g], g)}
                    cls = n.get("calleeClass") or ""
                    if cls in ("std::mutex", "std::recursive_mutex"):
                        p = f.path(obj)
                        if p:
                            p = norm_mutex(p)
                            if nm == "unlock":
                                return frozenset(h for h in held if not (h[0] == p and h[1] == "explicit"))
                            return held | {(p, "explicit")}
            return held
        if e.get("dtor") == "auto" and e.get("varId") in guards:
            g = e["varId"]
            return frozenset(h for h in held if h[1] != g)
        return held
    return step


def held_mutexes(held):
    return {h[0] for h in held}
