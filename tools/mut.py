#!/usr/bin/env python3
"""self-test helper: apply one textual edit to a file of /repo, run a check, revert.
usage: mut.py ID relpath OLD NEW [--count N]   (OLD must occur exactly once unless --count)"""
import subprocess, sys
pid, path, old, new = sys.argv[1:5]
full = "/repo/" + path
s = open(full).read()
cnt = s.count(old)
want = int(sys.argv[sys.argv.index("--count") + 1]) if "--count" in sys.argv else 1
if cnt != want:
    print("mut: pattern occurs %d times (wanted %d)" % (cnt, want)); sys.exit(3)
open(full, "w").write(s.replace(old, new))
try:
    p = subprocess.run(["/verif/check", pid], capture_output=True, text=True)
    lines = [l for l in p.stdout.splitlines() if not l.startswith("  analysed")]
    print("rc=%d" % p.returncode)
    for l in lines[:12]:
        print("   " + l[:260])
finally:
    subprocess.run(["git", "-C", "/repo", "checkout", "--", path])
