"""C12 — Gauss-Kronrod G7K15: the rule is extracted from the IR as a linear
form in applications of an opaque integrand and checked algebraically."""
from fractions import Fraction
from common import *
from absint import lower_driver, Unsupported
from tensoralg import *
import poly as P
from cfg import *

RULE = ("Poly-domain abstract interpretation of the private G7K15 kernel with an opaque integrand: the result is a linear form "
        "sum_i w_i (b-a)/2 f((x_i+1)/2 (b-a)+a); nodes and weights are extracted from the normal form; moment conditions "
        "sum w_i x_i^k = (1+(-1)^k)/(k+1) hold for k<=22 (Kronrod) and k<=13 (embedded Gauss) within 5e-14, nodes/weights are "
        "symmetric, the error estimate is |K15-G7|; operator() negates the swapped call when a>b and returns nullopt before "
        "any evaluation when a bound is NaN")
TOL = Fraction(5, 10 ** 14)


def coeff(poly_, ids):
    """coefficient (Fraction) of the monomial made of exactly the variables ids (each to the first power)."""
    want = tuple(sorted((i, 1) for i in ids))
    return poly_.t.get(want, Fraction(0))


def run(tier):
    rep = Report("C12", tier, "other", RULE)
    rep.trusted += ["clang 14 code generation and -O2", "bin/ir2json, lib/absint.py, lib/poly.py"]
    P.reset_registry()
    drv = os.path.join(VERIF, "drivers", "c12_gk.cxx")
    mod = lower_driver(drv, os.path.join(OUT, "C12"), "c12")
    a, b = Rat.var("a"), Rat.var("b")
    try:
        res = run_shim(mod, "verif_gk", [[a, b]], [2])
    except Unsupported as e:
        raise AnalysisBroken("G7K15 kernel: %s" % e)
    rep.count("paths of the kernel", len(res))
    ida, idb = P.var_id("a"), P.var_id("b")
    for path, outs, trace, assum, ret, dom in res:
        I, E = outs[0]
        if not (isinstance(I, Rat) and I.d.is_const()):
            raise AnalysisBroken("integral is not a polynomial form")
        apps = sorted(dom.apps.values(), key=lambda t: t[1])
        rep.count("integrand evaluations", len(apps))
        nodes, wk, wg = [], [], []
        sign = None
        for val, name, args in apps:
            fid = P.var_id(name)
            arg = args[0]
            cb = coeff(arg.n, [idb]) / arg.d.const_value()
            ca = coeff(arg.n, [ida]) / arg.d.const_value()
            if abs(ca + cb - 1) > TOL or len(arg.n.t) > 2:
                rep.fail("NODE-SHAPE@GaussKronrodQuadrature::integrate", "evaluation point %r is not (x+1)/2 (b-a)+a" % arg)
                continue
            x = 2 * cb - 1
            kb = coeff(I.n, [fid, idb]) / I.d.const_value()
            ka = coeff(I.n, [fid, ida]) / I.d.const_value()
            if abs(ka + kb) > TOL:
                rep.fail("WEIGHT-SHAPE@GaussKronrodQuadrature::integrate", "weight of f(%s) is not w (b-a)/2" % x)
            w = 2 * kb
            # the error estimate E = +/- (K15 - G7)
            eb = coeff(E.n, [fid, idb]) / E.d.const_value()
            nodes.append(x)
            wk.append(w)
            wg.append(eb)       # = +/- (wk - wg)/2 ; sign resolved below
        if len(nodes) != 15:
            rep.fail("NODE-COUNT@GaussKronrodQuadrature::integrate", "the kernel evaluates the integrand %d times, expected 15" % len(nodes))
            continue
        # E must be linear in the f's only (no other term): |K15 - G7|
        extra = [m for m in E.n.t if len(m) != 2]
        if extra:
            rep.fail("ERROR-ESTIMATE@GaussKronrodQuadrature::integrate", "the error estimate has terms that are not w (b-a) f(x)")
        best = None
        for sg in (1, -1):
            g = [wk[i] - sg * 2 * wg[i] for i in range(15)]
            nz = [i for i in range(15) if abs(g[i]) > TOL]
            if len(nz) == 7:
                best = (sg, g, nz)
        if best is None:
            rep.fail("ERROR-ESTIMATE@GaussKronrodQuadrature::integrate", "K15 -/+ error estimate is not a 7-point rule on a subset of the nodes")
            continue
        sg, g, nz = best
        order = sorted(range(15), key=lambda i: nodes[i])
        xs = [nodes[i] for i in order]
        ws = [wk[i] for i in order]
        gs = [g[i] for i in order]

        def moments(w, kmax, label):
            bad = None
            for k in range(kmax + 1):
                srm = sum(wi * xi ** k for wi, xi in zip(w, xs))
                exact = Fraction(2, k + 1) if k % 2 == 0 else Fraction(0)
                rep.count("moment conditions")
                if abs(srm - exact) > TOL:
                    bad = (k, float(srm - exact))
                    break
            if bad:
                rep.fail("MOMENT@%s" % label, "%s: sum w_i x_i^%d differs from the exact moment by %.3g (> 5e-14): the rule does not "
                         "have the stated degree of exactness" % (label, bad[0], bad[1]))
            else:
                rep.ok("%s: moments 0..%d exact within 5e-14 (degree of exactness %d)" % (label, kmax, kmax))
        moments(ws, 22, "Kronrod K15")
        moments(gs, 13, "embedded Gauss G7")
        sym = all(abs(xs[i] + xs[14 - i]) <= TOL and abs(ws[i] - ws[14 - i]) <= TOL and abs(gs[i] - gs[14 - i]) <= TOL for i in range(15))
        if sym and all(w > 0 for w in ws):
            rep.ok("nodes and weights are symmetric about 0 and all Kronrod weights are positive")
        else:
            rep.fail("SYMMETRY@GaussKronrodQuadrature::integrate", "nodes/weights are not symmetric or a weight is not positive")
        if sorted(nz) == sorted(i for i in range(15) if order.index(i) % 2 == 1):
            rep.ok("the Gauss points are the 2nd, 4th, ... Kronrod points; error estimate = %s(K15 - G7)" % ("+" if sg > 0 else "-"))
        else:
            rep.fail("GAUSS-SUBSET@GaussKronrodQuadrature::integrate", "the embedded Gauss rule does not use every other Kronrod node")
        rep.extra["nodes"] = [float(x) for x in xs]
        rep.extra["kronrod_weights"] = [float(x) for x in ws]
    # (b) structure of operator(): NaN bounds -> nullopt before any evaluation; a > b -> negated swapped call
    dumps = cfgdump([drv.replace("c12_gk", "c12_gk_op")], os.path.join(OUT, "C12", "dump"),
                    funcs=r"^tfel::math::GaussKronrodQuadrature::operator\(\)$",
                    flags_for=lambda u: (header_flags(["-fno-access-control"]), VERIF))
    funcs = [f for f in load_functions(dumps) if f.parent is None]
    if not funcs:
        raise AnalysisBroken("operator() not instantiated")
    for f in funcs:
        rep.count("operator() instantiations")
        state_bad = []

        def atom(f_, s0):
            n = f_.stmts[s0]
            if n["k"] == "CXXOperatorCallExpr" and n.get("op") == "()" and len(n.get("args", [])) == 2 and \
                    f_.stmts[f_.strip(n["args"][0])].get("name") == "is_nan":
                return ("nan_" + f_.text(n["args"][1]), False)
            return None

        def el(st, bk, i, e):
            if "s" in e:
                n = f.stmts[e["s"]]
                if n["k"] == "CXXMemberCallExpr" and (n.get("callee") or "").rsplit("::", 1)[-1] in (
                        "integrate", "computeUnboundedIntegral", "computeLeftUnboundedIntegral", "computeRightUnboundedIntegral"):
                    fx = dict(st)
                    if not (fx.get("nan_a") is False and fx.get("nan_b") is False):
                        state_bad.append(e["s"])
            return (st,)

        def ed(st, bk, succ, pol):
            fx = branch(f, bk, pol, dict(st), atom)
            if fx is None:
                return ()
            return (tuple(sorted(fx.items())),)
        IN_, O_ = forward(f, [()], el, ed)
        if state_bad:
            rep.fail("NAN-BOUNDS@GaussKronrodQuadrature::operator()", "%s: the integrand may be evaluated before both bounds were tested with is_nan"
                     % f.short_loc(state_bad[0]).replace(REPO + "/", ""))
        else:
            rep.ok("operator(): every integration call is dominated by the false edges of is_nan(a) and is_nan(b) [%s]" % f.display[-60:])
        # swapped call is negated: on the true edge of (a > b) the integrate call has arguments (f, b, a) and the result is negated
        swapped = [s for s, n in f.stmts.items() if n["k"] == "CXXMemberCallExpr" and (n.get("callee") or "").endswith("::integrate")
                   and [f.text(x) for x in n["args"][1:3]] == ["b", "a"]]
        direct = [s for s, n in f.stmts.items() if n["k"] == "CXXMemberCallExpr" and (n.get("callee") or "").endswith("::integrate")
                  and [f.text(x) for x in n["args"][1:3]] == ["a", "b"]]
        negs = [s for s, n in f.stmts.items() if (n["k"] == "UnaryOperator" and n.get("op") == "-") or
                (n["k"] == "CXXOperatorCallExpr" and n.get("op") == "-" and len(n.get("args", [])) == 1)]
        if swapped and direct and negs:
            rep.ok("operator(): a > b is handled by the negated integral over [b, a]")
        else:
            rep.fail("SWAPPED-BOUNDS@GaussKronrodQuadrature::operator()", "the a > b case is not the negated integral over [b, a]")
    rep.floor("integrand evaluations", 15)
    rep.floor("moment conditions", 30)
    rep.floor("operator() instantiations", 1)
    rep.assumptions += ["the node/weight literals carry 15 digits: moment conditions are checked within 5e-14",
                        "not decided: adaptive refinement meeting the tolerance, the changes of variables for unbounded intervals, Runge-Kutta order"]
    return rep
