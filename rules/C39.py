"""C39 — generic behaviour entry point: K[] decoding tables, return codes,
policy forwarding, tri-state status discipline."""
from gbrules import *

RULE = ("Intervals(1) abstract interpretation of the K[0] decoders through the call chain "
        "integrate -> computePredictionOperator / wrappers (table must agree with BehaviourData.h "
        "at every integer code -3..4 and 97..104); K[1]/K[2] decode tables; RETURN-CODES in {-1,0,1}; "
        "MUST-PRECEDE(setOutOfBoundsPolicy(p); initialize) and ARG-FORWARD(policy); TRISTATE")


def run(tier):
    rep = Report("C39", tier, "other", RULE)
    per = load_corpus("C39")
    for unit, funcs in sorted(per.items()):
        rep.count("generated units analysed")
        rep.count("functions analysed", len(funcs))
        rule_tristate(rep, funcs, "C39")
        rule_return_codes(rep, funcs)
        rule_policy(rep, funcs)
        hyps = None if tier == "thorough" else ("TRIDIMENSIONAL",)
        rule_k0_tables(rep, funcs, "mfront::gb::integrate", hyps)
        for w in WRAPPERS:
            if any(f.qname == w for f in funcs):
                rule_k0_tables(rep, funcs, w, hyps)
        if "FiniteStrain" in unit:
            rule_k12_tables(rep, funcs)
    rep.floor("tri-state status variables", 15)
    rep.floor("K[0] code obligations", 16 * 7 * (5 if tier == "thorough" else 1))
    rep.floor("policy obligations", 20)
    rep.assumptions += [
        "corpus = /verif/corpus/gb/*.mfront (small strain, Hencky, Green-Lagrange, finite strain), all hypotheses "
        "the generic interface instantiates; the templates under analysis are those of the current tree",
        "specification of the K[] codes = comment of mfront/include/MFront/GenericBehaviour/BehaviourData.h "
        "(integer codes; [2.5:3.5] read as the tangent operator)",
        "opaque conditions (behaviour results) fork both ways; no feasibility reasoning"]
    return rep
