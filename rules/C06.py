"""C06 — closed-form derivative helpers are the exact derivatives of the
library's own primal functions (normal forms differentiated symbolically)."""
from fractions import Fraction
from common import *
from absint import lower_driver, Unsupported
from tensoralg import *
import poly as P

RULE = ("Poly-domain abstract interpretation of primal and derivative helpers on the same run; the derivative "
        "normal form equals the exact partial derivatives (quotient rule on num/den) of the primal normal form")


def flat(M):
    return [x for r in M for x in r]


def run(tier):
    rep = Report("C06", tier, "proof", RULE)
    rep.trusted += ["clang 14 code generation and -O2 (thorough: cross-checked with -O1)", "bin/ir2json, lib/absint.py, lib/poly.py"]
    d1 = os.path.join(VERIF, "drivers", "c01_stensor.cxx")
    d2 = os.path.join(VERIF, "drivers", "c02_tensor.cxx")
    for opt in ["-O2"] + (["-O1"] if tier == "thorough" else []):
        P.reset_registry()
        m1 = lower_driver(d1, os.path.join(OUT, "C06"), "c01" + opt, opt=opt)
        m2 = lower_driver(d2, os.path.join(OUT, "C06"), "c02" + opt, opt=opt)

        def one(mod, fname, inputs, outs):
            if fname not in mod["functions"]:
                raise AnalysisBroken("shim %s missing" % fname)
            try:
                r = run_shim(mod, fname, inputs, outs)
            except Unsupported as e:
                raise AnalysisBroken("%s (%s): outside the straight-line algebraic fragment: %s" % (fname, opt, e))
            if len(r) != 1:
                raise AnalysisBroken("%s: %d paths" % (fname, len(r)))
            rep.count("shims interpreted (%s)" % opt)
            if any(x is None for x in r[0][1][0]):
                raise AnalysisBroken("%s leaves an output component unwritten" % fname)
            return r[0][1][0]

        def check(name, N, got, want, what):
            key = "DERIVATIVE@%s<%d>" % (name, N)
            if len(got) != len(want):
                rep.fail(key, "%s<%d>: arity mismatch %d/%d" % (name, N, len(got), len(want)))
                return
            d = first_diff(got, want)
            if d is None:
                rep.ok("%s<%d> = %s (%d components, %s)" % (name, N, what, len(got), opt), sample=(N == 3 and opt == "-O2"))
            else:
                i, x, y = d
                rep.fail(key, "%s<%d> component %d is  %r  but %s is  %r" % (name, N, i, x, what, y),
                         component=i, optimisation=opt)
        for N in (1, 2, 3):
            ns, nt = SSZ[N], TSZ[N]
            sn = ["s%d" % i for i in range(ns)]
            fn = ["f%d" % i for i in range(nt)]
            gn = ["g%d" % i for i in range(nt)]
            s = [Rat.var(x) for x in sn]
            f = [Rat.var(x) for x in fn]
            g = [Rat.var(x) for x in gn]
            # determinant of a symmetric tensor
            dets = one(m1, "verif_det_%d" % N, [s], [1])[0]
            check("computeDeterminantDerivative(stensor)", N, one(m2, "verif_ddet_s_%d" % N, [s], [ns]),
                  [dets.diff(x) for x in sn], "d det(s)/d s_k of the library's det")
            check("computeDeterminantSecondDerivative(stensor)", N, one(m2, "verif_d2det_s_%d" % N, [s], [ns * ns]),
                  [dets.diff(x).diff(y) for x in sn for y in sn], "d2 det(s)/d s_i d s_j")
            dev = one(m1, "verif_deviator_%d" % N, [s], [ns])
            ddet = one(m1, "verif_det_%d" % N, [dev], [1])[0]
            check("computeDeviatorDeterminantDerivative", N, one(m2, "verif_ddevdet_s_%d" % N, [s], [ns]),
                  [ddet.diff(x) for x in sn], "d det(dev(s))/d s_k")
            check("computeDeviatorDeterminantSecondDerivative", N, one(m2, "verif_d2devdet_s_%d" % N, [s], [ns * ns]),
                  [ddet.diff(x).diff(y) for x in sn for y in sn], "d2 det(dev(s))/d s_i d s_j")
            # determinant of a tensor
            dett = one(m2, "verif_tdet_%d" % N, [f], [1])[0]
            check("computeDeterminantDerivative(tensor)", N, one(m2, "verif_ddet_t_%d" % N, [f], [nt]),
                  [dett.diff(x) for x in fn], "d det(F)/d F_k")
            # convention (frozen from tests/Math/t2tot2/ComputeTensorDeterminantSecondDerivativeTest.cxx and the
            # identity it checks): the t2tot2 returned is the derivative of the adjugate det(F).F^-1, i.e. row i holds
            # the gradient of the TRANSPOSED component of d det/dF
            trn = [0, 1, 2, 4, 3, 6, 5, 8, 7][:nt]
            check("computeDeterminantSecondDerivative(tensor)", N, one(m2, "verif_d2det_t_%d" % N, [f], [nt * nt]),
                  [dett.diff(fn[trn[i]]).diff(y) for i in range(nt) for y in fn],
                  "d (det(F) F^-1)_i / d F_j  (derivative of the adjugate)")
            # square
            sq = one(m1, "verif_square_%d" % N, [s], [ns])
            dsq = one(m2, "verif_dsquare_%d" % N, [s], [ns * ns])
            check("st2tost2::dsquare(s)", N, dsq, [sq[i].diff(x) for i in range(ns) for x in sn], "d square(s)_i/d s_j")
            c4 = syms("c", ns * ns)
            C4 = [c4[i * ns:(i + 1) * ns] for i in range(ns)]
            D4 = [dsq[i * ns:(i + 1) * ns] for i in range(ns)]
            check("st2tost2::dsquare(s,C)", N, one(m2, "verif_dsquare2_%d" % N, [s, c4], [ns * ns]), flat(matmul(D4, C4)),
                  "dsquare(s)*C (chain rule)")
            # Cauchy-Green tensors
            rcg = one(m2, "verif_rcg_%d" % N, [f], [ns])
            lcg = one(m2, "verif_lcg_%d" % N, [f], [ns])
            check("t2tost2::dCdF", N, one(m2, "verif_dCdF_%d" % N, [f], [ns * nt]),
                  [rcg[i].diff(x) for i in range(ns) for x in fn], "d (F^t F)_i/d F_j")
            check("t2tost2::dBdF", N, one(m2, "verif_dBdF_%d" % N, [f], [ns * nt]),
                  [lcg[i].diff(x) for i in range(ns) for x in fn], "d (F F^t)_i/d F_j")
            # tensor product
            prod = one(m2, "verif_tprod_%d" % N, [f, g], [nt])
            check("t2tot2::tpld(B)", N, one(m2, "verif_tpld_%d" % N, [g], [nt * nt]),
                  [prod[i].diff(x) for i in range(nt) for x in fn], "d (A.B)_i/d A_j")
            check("t2tot2::tprd(A)", N, one(m2, "verif_tprd_%d" % N, [f], [nt * nt]),
                  [prod[i].diff(x) for i in range(nt) for x in gn], "d (A.B)_i/d B_j")
    rep.floor("shims interpreted (-O2)", 60)
    # eigen-tensor derivatives and the derivatives built on them: structural clauses shared with C05 (check-before-divide on
    # eigenvalue differences, coupling of n_ij with the pair (i, j), exhaustive coincidence analysis)
    import C05
    C05.clauses(rep)
    rep.assumptions += ["Mandel / 9-component coordinates are orthonormal, so component k of the returned tensor is the partial "
                        "derivative with respect to the k-th stored component; st2tost2(i,j) = d a_i/d b_j",
                        "oracle = the library's own primal function: a consistent change of both sides stays silent",
                        "eigen-tensor derivatives: only the structural clauses (guarded divisions, coupling, exhaustive case analysis) are decided; PK1 derivative conversions and finite-difference convergence are not covered"]
    return rep
