#!/bin/sh
# @Interpolation Linear using 1 is ignored: a.txt is y=t on t=0,1,2; b.txt is y=t/2 on t=0,2,4.  Interpolated on the abscissa the
# two curves differ by 1 at t=2.  Before 1ecb7d187 tfel-check compared row by row "with interpolation none" and reported SUCCESS (exit 0,
# observed.checklog); after it: "with interpolation linear using column 1 failed", exit 1.
D=$(mktemp -d); cp "$(dirname "$0")"/a.txt "$(dirname "$0")"/b.txt "$(dirname "$0")"/t.check $D; cd $D
LD_LIBRARY_PATH=$(find /repo/_build -name "*.so" -printf '%h\n' | sort -u | tr '\n' ':') /verif/tools/safe.sh 60 /repo/_build/tfel-check/src/tfel-check t.check
echo "exit=$?"; grep -n "interpolation" t.checklog; cd /; rm -r $D
