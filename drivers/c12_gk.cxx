// shim around the private G7K15 kernel of GaussKronrodQuadrature (C12); compiled with -fno-access-control
#include <tuple>
#include "TFEL/Math/NumericalIntegration/GaussKronrodQuadrature.hxx"
extern "C" double verif_f(double);
extern "C" void verif_gk(const double* ab, double* o) {
  const tfel::math::GaussKronrodQuadrature q;
  const auto [i, e] = q.integrate([](const double x) { return verif_f(x); }, ab[0], ab[1]);
  o[0] = i;
  o[1] = e;
}
