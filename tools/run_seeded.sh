#!/bin/bash
# applies every kept seeded change to /repo in turn, runs the check of its property (quick tier), undoes it;
# prints one line per seed: caught (exit 1 + VIOLATION), analysis-broken (exit 2) or MISSED (exit 0)
cd /verif
[ -z "$(git -C /repo status --porcelain --untracked-files=no)" ] || { echo "/repo has local changes"; exit 2; }
for d in seeded/*/; do
  id=$(basename $d); prop=$(python3 -c "import json;m=json.load(open('$d/meta.json'));print(m.get('check', m['property']))")   # 'check': the check that decides it when it is not the seeded property's
  [ -n "$1" ] && [ "$1" != "$id" ] && [ "$1" != "$prop" ] && continue
  # patch_rebased.diff: the same change re-expressed on the current tree when a later fix: commit touched the same lines
  pf=/verif/${d}patch.diff; [ -f /verif/${d}patch_rebased.diff ] && pf=/verif/${d}patch_rebased.diff
  git -C /repo apply $pf 2>/tmp/run_seeded.err || { echo "$id ($prop): patch does not apply to the current tree"; continue; }
  out=$(./check $prop --tier quick 2>&1); rc=$?
  git -C /repo checkout -- .
  n=$(echo "$out" | grep -c "^VIOLATION")
  case $rc in 1) echo "$id ($prop): caught, $n violation line(s): $(echo "$out" | grep -m1 -B1 '^VIOLATION' | head -1 | cut -c1-160)";;
              2) echo "$id ($prop): ANALYSIS-BROKEN: $(echo "$out" | grep -m1 BROKEN | cut -c1-200)";;
              0) echo "$id ($prop): MISSED";; esac
done
