"""C54 — mtest / ptest inputs never crash the driver: end-check discipline of the
token iterators (necessary condition: no dereference of an iterator that may
be the end of the token vector) + ownership.

 R1 TYPESTATE (lib/itstate.py) over the parser units of mtest/src and the
    tokenizer: a tokens_iterator is dereferenced only where it is known to
    differ from the end (branch, raise_if / throw_if, or a helper whose
    summary establishes it: checkNotEndOfLine, readSpecifiedToken ...);
    ++ / assignment / helpers that advance it reset that knowledge.  Keyword
    handlers are called through a table right after the keyword was consumed:
    their entry state is the dispatcher's state at the indirect call.
 R2 OWNERSHIP (lib/ownership.py) over the same units.
A file that ends in the middle of a construct must produce an error message,
not a read past the end of the token vector.
"""
import os, re
from common import *
from cfg import *
from itstate import Tracker
from ownership import check_ownership

RULE = ("typestate dataflow on the clang CFG: token iterators dereferenced only in state CHECKED; helper summaries "
        "computed from bodies; handler entry state = dispatcher state at the indirect call; ownership rule")
ITER = re.compile(r"__normal_iterator<const tfel::utilities::Token \*")


def rel(loc):
    return loc.replace(REPO + "/", "")


def units_for(tier):
    us = [u for u in units_under("mtest/src") if re.search(r"(Parser|Scheme|MTestMain|PipeTest)", os.path.basename(u))]
    us += [os.path.join(REPO, "src/Utilities/CxxTokenizer.cxx")]
    return sorted(set(us))


def analyse_units(rep, units, funcs_re, member=None):
    d = cfgdump(units, os.path.join(OUT, rep.pid, "dump"), funcs=funcs_re, root=REPO)
    funcs = load_functions(d)
    # one definition per (qname, signature): headers are seen from several units
    uniq = {}
    for f in funcs:
        uniq.setdefault((f.qname, tuple(p["type"] for p in f.params), f.loc, f.parent is not None and f.display), f)
    funcs = list(uniq.values())
    rep.count("units analysed", len(units))
    rep.count("functions analysed", len(funcs))
    tr = Tracker(funcs, lambda t: bool(ITER.search(t or "")), member=member)
    tr.compute_summaries()
    nreq = sum(1 for k, s in tr.summ.items() for v, e in s.items() if e[0])
    nens = sum(1 for k, s in tr.summ.items() for v, e in s.items() if e[1] == "C")
    rep.count("summaries: parameters required CHECKED", nreq)
    rep.count("summaries: helpers establishing CHECKED", nens)
    found = []

    def report(kind, f, sid, var, why):
        found.append((f, sid, var, why))
    nderef = 0
    for f in funcs:
        if f.parent is not None:
            continue
        has = any(n["k"] == "CXXOperatorCallExpr" and n.get("op") in ("*", "->") and tr.var_of(f, n["args"][0]) is not None
                  for n in f.stmts.values() if n.get("args"))
        if not has and not tr.tracked_params(f):
            continue
        nderef += sum(1 for n in f.stmts.values() if n["k"] == "CXXOperatorCallExpr" and n.get("op") in ("*", "->")
                      and n.get("args") and tr.var_of(f, n["args"][0]) is not None)
        try:
            tr.analyse(f, report=report)
        except RuntimeError as e:
            raise AnalysisBroken("%s: %s" % (f.qname, e))
    rep.count("iterator dereference sites", nderef)
    # handlers: address-taken methods
    taken = set()
    for f in funcs:
        for s, n in f.stmts.items():
            if n["k"] == "UnaryOperator" and n.get("op") == "&":
                k = f.stmts[f.strip(f.kids(s)[0])]
                if k["k"] == "DeclRefExpr" and k.get("declKind") == "CXXMethod":
                    taken.add(k["qname"])
    rep.count("handlers registered in tables", len(taken))
    unchecked_sites = [(f, sid, i) for f, sid, i, ok in tr.indirect if not ok]
    for f in funcs:
        if f.qname not in taken or f.parent is not None:
            continue
        summ = tr.summ.get(tr.key(f), {})
        for v, ent in summ.items():
            req = ent[0]
            if req and v != "M":
                # is there a dispatcher that calls handlers with an unchecked iterator?
                disp = [(g, s_) for g, s_, i in unchecked_sites if g.cls == f.cls or True]
                if disp:
                    g, s_ = disp[0]
                    found.append((f, f.body, [p["name"] for p in f.params if p["declId"] == v][0],
                                  "dereferenced by the handler before any end check, while the dispatcher %s calls its handlers "
                                  "with an iterator it has just advanced (%s)" % (g.qname, rel(g.short_loc(s_)))))
    return funcs, found


RECURSION_EXCEPTIONS = {
    "mtest::OxidationStatusEvolution::operator()": "evaluates the evolution registered under the fixed name 'r' by PipeTest itself (a constant "
                                                   "evolution that an input file cannot redefine: addEvolution refuses an existing name); it cannot be part of a cycle",
}


def recursion_rule(rep):
    """BOUNDED-RECURSION: a method of an evolution class that calls the method of the same name on another evolution taken from the
    evolution manager recurses through user data (an evolution may name itself, directly or through others: the input decides).
    Such a method must hold a re-entrancy guard while it does so: a local object whose constructor tests a boolean member of *this
    (raising when it is set) and sets it, constructed before the recursive call; otherwise a cyclic definition in the input file
    exhausts the stack."""
    us = [u for u in units_under("mtest/src") if re.search(r"Evolution", os.path.basename(u))]
    d = cfgdump(us, os.path.join(OUT, "C54", "evol"), funcs=r"^mtest::", root=os.path.join(REPO, "mtest"))
    funcs = load_functions(d)
    byq = {}
    for f in funcs:
        if f.parent is None:
            byq.setdefault(f.qname, []).append(f)
    n_ = 0
    for f in funcs:
        if f.parent is not None or f.cls is None or f.entry is None:
            continue
        me = f.qname.rsplit("::", 1)[-1]
        rec = []
        for s_, n in sorted(f.stmts.items()):
            if n["k"] in ("CXXMemberCallExpr", "CXXOperatorCallExpr") and n.get("virtual") and (n.get("callee") or "").rsplit("::", 1)[-1] == me:
                obj = n.get("obj") if n["k"] == "CXXMemberCallExpr" else (n.get("args") or [None])[0]
                o = f.stmts.get(f.strip(obj)) if obj is not None else None
                if o is not None and o["k"] == "CXXThisExpr":
                    continue
                rec.append(s_)
        if not rec:
            continue
        if f.qname in RECURSION_EXCEPTIONS:
            rep.ok("%s: %s" % (f.qname, RECURSION_EXCEPTIONS[f.qname]))
            continue
        n_ += 1
        # a guard: local of class type constructed from a member of *this; its constructor raises when the flag is set and sets it
        guarded = False
        for s_, n in sorted(f.stmts.items()):
            if n["k"] != "DeclStmt" or s_ > min(rec):
                continue
            for dd in n["decls"]:
                if "init" not in dd:
                    continue
                ce = f.stmts.get(f.strip(dd["init"]))
                if ce is None or ce["k"] != "CXXConstructExpr" or not ce.get("args"):
                    continue
                a0 = f.stmts.get(f.strip(ce["args"][0]))
                if a0 is None or a0["k"] != "MemberExpr" or "bool" not in (a0.get("fieldType") or ""):
                    continue
                for g in byq.get(ce.get("callee") or "", []):
                    tests = any(m_["k"] == "CallExpr" and (m_.get("callee") or "").endswith("raise_if") for m_ in g.stmts.values()) or \
                        any(m_["k"] == "CXXThrowExpr" for m_ in g.stmts.values())
                    sets = any(m_["k"] == "BinaryOperator" and m_.get("op") == "=" and
                               any(g.stmts[x]["k"] == "CXXBoolLiteralExpr" and str(g.stmts[x].get("value")).lower() in ("true", "1")
                                   for x in g.walk(g.kids(y)[1])) for y, m_ in g.stmts.items())
                    if tests and sets:
                        guarded = True
        if guarded:
            rep.ok("%s recurses through the evolution manager under a re-entrancy guard" % f.qname)
        else:
            rep.fail("BOUNDED-RECURSION@%s" % f.qname, "%s: %s calls %s on an evolution taken from the evolution manager without a re-entrancy guard: "
                     "an input file in which an evolution depends on itself (e.g. @Evolution<function> 'x' 't*x';) recurses until the stack "
                     "is exhausted" % (rel(f.short_loc(rec[0])), f.qname, me))
    rep.count("methods recursing through the evolution manager", n_)
    rep.floor("methods recursing through the evolution manager", 2)


def run(tier):
    rep = Report("C54", tier, "other", RULE)
    recursion_rule(rep)
    units = units_for(tier)
    funcs, found = analyse_units(rep, units, r"^(mtest::|tfel::utilities::CxxTokenizer)")
    seen = set()
    for f, sid, var, why in found:
        if not f.qname.startswith("mtest::"):
            continue        # the tokenizer's own local iterators belong to C35; its helpers reach mtest through summaries
        loc = rel(f.short_loc(sid)) if sid in f.stmts else rel(f.loc)
        key = "UNCHECKED-DEREF@%s#%s" % (f.qname, var)
        if key in seen:
            continue
        seen.add(key)
        rep.fail(key, "%s: in %s the token iterator '%s' is %s on a path where it may be the end of the token vector (an input that "
                 "stops there reads past the end instead of raising)" % (loc, f.qname, var, why))
    n = rep.analysed.get("iterator dereference sites", 0)
    for _ in range(max(0, n - len(seen))):
        rep.ok("dereference in state CHECKED", sample=False)
    check_ownership(rep, funcs, rel)
    import borrow
    borrow.rule(rep, funcs, lambda t: bool(ITER.search(t or "")), rel, 0)
    import progress
    progress.rule(rep, funcs, rel, {})
    more = [u for u in units_under("mtest/src") if u not in units] if tier == "thorough" else []
    more += units_under("src/Utilities")
    if tier == "thorough":
        more += [u for u in units_under("src/Math") if re.search(r"(Evaluator|Parser|parser)", u)]
    progress.scan(rep, sorted(set(more)), r"^(mtest|tfel)::", rel, {}, "libraries")
    rep.floor("loops examined for progress", 30)
    rep.floor("iterator dereference sites", 150)
    rep.floor("summaries: helpers establishing CHECKED", 2)
    rep.assumptions += ["a necessary condition only: other sources of undefined behaviour and termination are not decided",
                        "iterators compared with any expression of iterator type are taken to be compared with the end of their sequence",
                        "public entry points are analysed with their iterator parameters as given by their in-tree callers"]
    return rep
