"""C50 — a rejected MTest step leaves no trace: pairing and effect-coverage rules.

 R1 pairing (CFG of GenericSolver::execute, the time-stepping driver): every
    attempt (iterate / iterate2) whose verdict is 'not converged' is followed
    by scs.revert() before the next attempt; on the converged branch
    scs.update(dt) precedes the advance of time 't += dt'; nothing else
    restarts an attempt.
 R2 update/revert symmetry, read from the AST: every end-of-step field that
    update() commits into its beginning-of-step sibling (X0 = X1) is restored
    by revert() (X1 = X0), for CurrentState and StudyCurrentState; the
    structure-level update/revert visit every integration-point state.
 R3 who-may-write the beginning-of-step fields (s0, s_1, iv0, iv_1, se0, de0,
    u0, u_1, dt_1 ...): among the functions reachable from iterate/iterate2 in
    the call graph of mtest/src (virtual calls resolved by name), none writes
    such a field directly (assignment, element assignment, std::copy/fill
    destination, resize/clear/swap); the fields recomputed from immutable
    data before each attempt (e0, e_th0, esv0) are listed exceptions.
 R4 named parameters of the study state (getParameter<T>("Name")): a parameter
    whose name ends in AtBeginningOfTimeStep is set only from constants or from
    parameters written by the post-convergence stage alone.
Not decided: equality of the final state with a direct run; writes through
references that escape the direct idioms.
"""
import os, re
from common import *
from cfg import *

RULE = ("pairing automaton on the time-stepping driver (revert after a rejected attempt, update before advancing time); "
        "update/revert symmetry over the state records; who-may-write the beginning-of-step fields among the functions reachable "
        "from an attempt")
BEGIN_FIELDS = re.compile(r"^(.*0|.*_1)$")
RECOMPUTED = {"e0": "recomputed from u0 (not written during an attempt) by both drivers before each attempt",
              "e_th0": "thermal strain at the beginning of the step, recomputed from the evolutions at time t",
              "esv0": "external state variables at the beginning of the step, recomputed from the evolutions at time t",
              "u10": "previous iterate of the unknowns (acceleration algorithms): reset by revert()"}
FRESH_ALLOCATORS = {"mtest::StructureCurrentState::getModelCurrentState": "creates the record of an auxiliary model on first use "
                    "(make_shared<CurrentState> inserted in model_states, then allocateCurrentState on the new object); no existing record is written"}
STATE_CLASSES = ("mtest::CurrentState", "mtest::StudyCurrentState", "mtest::StructureCurrentState")


def rel(loc):
    return loc.replace(REPO + "/", "")


def copies(f, cls_hint=None):
    """[(dst field, src field)] for statements 'a.X = a.Y' / 'this->X = this->Y' in f."""
    res = []
    for s, n in f.stmts.items():
        bo = None
        if n["k"] == "BinaryOperator" and n["op"] == "=":
            bo = f.kids(s)[:2]
        elif n["k"] == "CXXOperatorCallExpr" and n.get("op") == "=" and len(n.get("args", [])) == 2:
            bo = n["args"]
        if not bo:
            continue
        l, r = f.stmts[f.strip(bo[0])], f.stmts[f.strip(bo[1])]
        if l["k"] == "MemberExpr" and r["k"] == "MemberExpr" and l.get("declKind") == "Field" and r.get("declKind") == "Field":
            res.append((l["member"], r["member"], l.get("fieldClass")))
    return res


def direct_writes(f):
    """[(field, class, sid)] written directly in f."""
    res = []

    def field_of(x):
        """field MemberExpr at the root of an lvalue expression x (through (), [], .begin())."""
        x = f.strip(x)
        if x is None or x <= 0:
            return None
        n = f.stmts[x]
        if n["k"] == "MemberExpr" and n.get("declKind") == "Field" and n.get("fieldClass") in STATE_CLASSES:
            return n
        if n["k"] == "CXXOperatorCallExpr" and n.get("op") in ("()", "[]") and n.get("args"):
            return field_of(n["args"][0])
        if n["k"] == "CXXMemberCallExpr" and (n.get("callee") or "").rsplit("::", 1)[-1] in ("begin", "data", "front", "back", "at"):
            return field_of(n.get("obj"))
        if n["k"] == "UnaryOperator" and n["op"] in ("&", "*"):
            return field_of(f.kids(x)[0])
        if n["k"] == "ArraySubscriptExpr":
            return field_of(f.kids(x)[0])
        return None
    for s, n in f.stmts.items():
        tgt = None
        if n["k"] in ("BinaryOperator", "CompoundAssignOperator") and n["op"] in ("=", "+=", "-=", "*=", "/="):
            tgt = field_of(f.kids(s)[0])
        elif n["k"] == "CXXOperatorCallExpr" and n.get("op") in ("=", "+=", "-=", "*=", "/=") and n.get("args"):
            tgt = field_of(n["args"][0])
        elif n["k"] == "UnaryOperator" and n["op"] in ("++", "--"):
            tgt = field_of(f.kids(s)[0])
        elif n["k"] == "CallExpr" and (n.get("callee") or "") in ("std::copy", "std::fill", "std::transform", "std::copy_n", "std::fill_n"):
            a = n.get("args", [])
            idx = {"std::copy": 2, "std::transform": -1, "std::copy_n": 2}.get(n["callee"], 0)
            if a:
                tgt = field_of(a[idx])
        elif n["k"] == "CXXMemberCallExpr" and (n.get("callee") or "").rsplit("::", 1)[-1] in ("resize", "clear", "swap", "push_back", "assign", "fill"):
            tgt = field_of(n.get("obj"))
        if tgt is not None:
            res.append((tgt["member"], tgt.get("fieldClass"), s))
    return res


def run(tier):
    rep = Report("C50", tier, "other", RULE)
    units = units_under("mtest/src")
    d = cfgdump(units, os.path.join(OUT, "C50", "dump"), funcs=r"^mtest::", records=r"^mtest::", root=os.path.join(REPO, "mtest"))
    funcs = load_functions(d)
    rep.count("units analysed", len(units))
    rep.count("functions analysed", len(funcs))
    kids = children_of(funcs)
    byq = by_qname([f for f in funcs if f.parent is None])
    # ------------------------------------------------------------ R1
    ex = [f for f in byq.get("mtest::GenericSolver::execute", []) if len(f.params) == 6]
    if not ex:
        raise AnalysisBroken("GenericSolver::execute(scs, wk, s, o, ti, te) not found")
    f = ex[0]
    lam = kids.get((f.unit, f.id), [])
    attempt_ops = set()
    for g in lam:
        if any(n["k"] == "CallExpr" and (n.get("callee") or "").startswith("mtest::iterate") for n in g.stmts.values()):
            attempt_ops.add(g.id)

    def is_attempt(s):
        n = f.stmts[s]
        if n["k"] == "CallExpr" and (n.get("callee") or "").startswith("mtest::iterate"):
            return True
        if n["k"] == "CXXOperatorCallExpr" and n.get("op") == "()":
            # immediately invoked closure that calls iterate / iterate2
            for x in f.walk(s):
                if f.stmts[x]["k"] == "LambdaExpr" and f.stmts[x].get("lambdaOp") in attempt_ops:
                    return True
        return False
    conv = [d_["declId"] for n in f.stmts.values() if n["k"] == "DeclStmt" for d_ in n["decls"] if d_.get("name") == "converged"]
    if not conv:
        raise AnalysisBroken("local 'converged' of GenericSolver::execute not found")

    def atom(f_, s):
        n = f_.stmts[s]
        if n["k"] == "DeclRefExpr" and n.get("declId") in conv:
            return ("converged", False)
        return None
    bad = []
    nattempts = [0]

    def el(st, b, i, e):
        facts, phase = st
        if "s" not in e:
            return (st,)
        s = e["s"]
        n = f.stmts[s]
        if is_attempt(s):
            nattempts[0] += 1
            if phase == "pending":
                bad.append((s, "a new attempt starts although the previous, rejected attempt was not reverted"))
            return (((), "pending"),)
        if n["k"] == "CXXMemberCallExpr":
            cal = n.get("callee") or ""
            if cal == "mtest::StudyCurrentState::revert":
                return ((facts, "clean"),)
            if cal == "mtest::StudyCurrentState::update":
                if dict(facts).get("converged") is not True:
                    bad.append((s, "scs.update(dt) is reached although the attempt is not known to have converged"))
                return ((facts, "clean"),)
        if n["k"] == "CompoundAssignOperator" and n["op"] == "+=" and f.text(f.kids(s)[0]) == "t":
            if phase != "clean":
                bad.append((s, "time is advanced before the state was committed by scs.update(dt)"))
        return (st,)

    def ed(st, b, succ, pol):
        facts, phase = st
        fx = branch(f, b, pol, dict(facts), atom)
        if fx is None:
            return ()
        return ((tuple(sorted(fx.items())), phase),)
    IN, _OUT = forward(f, [((), "clean")], el, ed)
    rep.count("attempt sites in the time-stepping driver", 1 if nattempts[0] else 0)
    if not nattempts[0]:
        raise AnalysisBroken("no attempt (iterate/iterate2) found in GenericSolver::execute")
    seenb = set()
    for s, why in bad:
        if why in seenb:
            continue
        seenb.add(why)
        rep.fail("PAIRING@mtest::GenericSolver::execute#%s" % why.split(" ")[0], "%s: GenericSolver::execute: %s" % (rel(f.short_loc(s)), why))
    if not bad:
        rep.ok("GenericSolver::execute: a rejected attempt is always reverted before the next one; update(dt) (under 'converged') precedes t += dt")
    # a normal exit with a pending (rejected, unreverted) attempt is fine only through raise; exits with pending state:
    for facts, phase in IN.get(f.exit, ()):
        if phase == "pending" and dict(facts).get("converged") is not True:
            rep.fail("PAIRING@mtest::GenericSolver::execute#exit", "GenericSolver::execute can return normally after a rejected attempt that was not reverted")
    # ------------------------------------------------------------ R2
    up = {"mtest::CurrentState": [g for g in byq.get("mtest::update", []) if g.params and "CurrentState" in g.params[0]["type"] and "Structure" not in g.params[0]["type"]],
          "mtest::StudyCurrentState": byq.get("mtest::StudyCurrentState::update", [])}
    rv = {"mtest::CurrentState": [g for g in byq.get("mtest::revert", []) if g.params and "CurrentState" in g.params[0]["type"] and "Structure" not in g.params[0]["type"]],
          "mtest::StudyCurrentState": byq.get("mtest::StudyCurrentState::revert", [])}
    for cls in up:
        if not up[cls] or not rv[cls]:
            raise AnalysisBroken("update/revert of %s not found" % cls)
        cu = [(a, b) for a, b, c in copies(up[cls][0])]
        cr = [(a, b) for a, b, c in copies(rv[cls][0])]
        groups = {}
        for dst, src in cu:
            if src.endswith("1") and not src.endswith("_1"):
                groups.setdefault(src, []).append(dst)      # X0 = X1 (shifts of older history X_1 = X0 are not commits of the attempt)
        for src, dsts in sorted(groups.items()):
            rep.count("committed fields")
            back = [d_ for d_ in dsts if (src, d_) in cr]
            if back:
                rep.ok("%s: update commits %s = %s and revert restores %s = %s" % (cls, "/".join(dsts), src, src, back[0]))
            else:
                rep.fail("SYMMETRY@%s#%s" % (cls, src), "%s: update() commits %s = %s but revert() does not restore %s from %s: a rejected "
                         "attempt leaves its value of %s behind" % (cls, "/".join(dsts), src, src, " or ".join(dsts), src))
            # every committed copy that an attempt may have changed must be reset as well
            for d_ in dsts:
                if d_ in RECOMPUTED and not any(a_ == d_ for a_, _b in cr):
                    rep.fail("SYMMETRY@%s#%s" % (cls, d_), "%s: %s is written during an attempt (%s) but revert() does not reset it"
                             % (cls, d_, RECOMPUTED[d_]))
    for q in ("mtest::StructureCurrentState::update", "mtest::StructureCurrentState::revert"):
        g = byq.get(q, [None])[0]
        if g is None:
            raise AnalysisBroken("%s not found" % q)
        loops = [n for n in g.stmts.values() if n["k"] == "CXXForRangeStmt"]
        called = [n.get("callee") for n in g.stmts.values() if n["k"] == "CallExpr"]
        want = "mtest::" + q.rsplit("::", 1)[-1]
        skip = [n["k"] for n in g.stmts.values() if n["k"] in ("BreakStmt", "ContinueStmt", "IfStmt")]
        if loops and want in called and not skip:
            rep.ok("%s visits every integration-point state" % q)
        else:
            rep.fail("SYMMETRY@%s" % q, "%s does not apply %s to every integration-point state" % (q, want))
    # ------------------------------------------------------------ R3
    from effects import Effects
    bases = {}
    for u_, dd in d.items():
        for r_ in dd.get("records", []):
            bases.setdefault(r_["qname"], [re.sub(r"^(class|struct) ", "", b_) for b_ in r_.get("bases", [])])
    rep.count("classes with their bases", len(bases))
    # lazily created records: confirmed by reading, and re-checked structurally below
    for q_, why in FRESH_ALLOCATORS.items():
        gs = byq.get(q_, [])
        if not gs:
            raise AnalysisBroken("fresh allocator %s not found" % q_)
        g_ = gs[0]
        mk = [n for n in g_.stmts.values() if n["k"] == "CallExpr" and (n.get("callee") or "").startswith("std::make_shared") and "mtest::CurrentState" in (n.get("t") or "")]
        wr = [n.get("callee") for n in g_.stmts.values() if n["k"] in ("CXXMemberCallExpr", "CallExpr") and (n.get("callee") or "").startswith("mtest::")
              and not (n.get("callee") or "").endswith("::allocateCurrentState")]
        if not mk or wr:
            rep.fail("FRESH-ALLOCATOR@%s" % q_, "%s no longer has the shape of a lazy allocator (make_shared<CurrentState> + allocateCurrentState only): %s"
                     % (q_, wr))
        else:
            rep.ok("%s only creates and initialises a new record: %s" % (q_, why))
    eff = Effects(funcs, STATE_CLASSES, bases=bases, fresh_allocators=FRESH_ALLOCATORS,
                  scratch_types=("BehaviourWorkSpace", "SolverWorkSpace"))
    try:
        W = eff.compute()
    except RuntimeError as e:
        raise AnalysisBroken(str(e))
    rep.count("functions with a write summary on a state record", sum(1 for w in W.values() if w))
    rep.count("summary entries (root, field)", sum(len(w) for w in W.values()))
    rep.extra["writes with an unresolved base object (not attributed)"] = eff.unresolved
    nroots = 0
    for q in ("mtest::iterate", "mtest::iterate2"):
        for g in byq.get(q, []):
            state_params = [i for i, p_ in enumerate(g.params) if "StudyCurrentState" in p_["type"] and "const" not in p_["type"].split("StudyCurrentState")[0]]
            if not state_params:
                raise AnalysisBroken("%s has no mutable StudyCurrentState parameter" % q)
            nroots += 1
            w = W.get((g.unit, g.id), {})
            seen_f = set()
            for (r, field), wit in sorted(w.items(), key=lambda kv: (kv[0][1], str(kv[0][0]))):
                if r[0] != "param" or r[1] not in state_params:
                    continue
                rep.count("state fields an attempt may leave changed")
                seen_f.add(field)
                if BEGIN_FIELDS.match(field) and field not in RECOMPUTED:
                    rep.fail("BEGIN-OF-STEP-WRITE@%s#%s" % (q, field), "%s may leave the beginning-of-step field %s changed when it returns: a rejected "
                             "attempt changes the state the next attempt restarts from [%s]" % (q, field, rel(wit)))
            rep.extra["fields written by " + q] = sorted(seen_f)
    if nroots == 0:
        raise AnalysisBroken("mtest::iterate / iterate2 not found")
    if not any(v["key"].startswith("BEGIN-OF-STEP-WRITE") for v in rep.violations):
        rep.ok("an attempt (iterate / iterate2 and everything they call) leaves no beginning-of-step field of the study state changed "
               "(exceptions recomputed before each attempt: %s)" % ", ".join(sorted(RECOMPUTED)))
    # ------------------------------------------------------------ R4 named parameters of the study state
    # StudyCurrentState also carries named parameters (getParameter<T>("Name", create) returns a reference into a map): a name ending
    # in AtBeginningOfTimeStep is a beginning-of-step value; it may be (re)set, at each attempt, only from a constant or from a parameter
    # that is written by the post-convergence stage only (a committed value), never from one that the iterations of an attempt write.
    def pname(g, sid):
        n = g.stmts.get(g.strip(sid))
        if n is None:
            return None
        if n["k"] == "CXXMemberCallExpr" and (n.get("callee") or "").rsplit("::", 1)[-1] in ("getParameter", "setParameter", "containsParameter") \
                and n.get("args"):
            lit = [g.stmts[x].get("value") for x in g.walk(n["args"][0]) if g.stmts[x]["k"] == "StringLiteral"]
            return lit[0] if lit else None
        return None
    writes = []      # (function qname, target parameter, sources, location)
    setonce = []
    for g in funcs:
        refs, vals = {}, {}
        for s_, n in g.stmts.items():
            if n["k"] == "DeclStmt":
                for dd in n["decls"]:
                    if "init" in dd and (dd.get("type") or "").rstrip().endswith("&") and "const" not in (dd.get("type") or ""):
                        nm = pname(g, dd["init"])
                        if nm:
                            refs[dd["declId"]] = nm
                    elif "init" in dd:
                        # a copy of a named parameter: 'const auto active = state.getParameter<bool>("...")'
                        ini = g.stmts.get(g.strip(dd["init"]))
                        if ini is not None and ini["k"] == "CXXMemberCallExpr" and (ini.get("callee") or "").rsplit("::", 1)[-1] == "getParameter":
                            nm = pname(g, g.strip(dd["init"]))
                            if nm:
                                vals[dd["declId"]] = nm

        def target(sid):
            n = g.stmts.get(g.strip(sid))
            if n is None:
                return None
            if n["k"] == "DeclRefExpr" and n.get("declId") in refs:
                return refs[n["declId"]]
            if n["k"] == "CXXMemberCallExpr" and (n.get("callee") or "").rsplit("::", 1)[-1] == "getParameter":
                return pname(g, g.strip(sid))
            return None

        def sources(sid):
            src = set()
            for x in g.walk(sid):
                m = g.stmts[x]
                if m["k"] == "CXXMemberCallExpr" and (m.get("callee") or "").rsplit("::", 1)[-1] == "getParameter":
                    nm = pname(g, x)
                    src.add(nm or "<other>")
                elif m["k"] == "DeclRefExpr" and m.get("declId") in refs:
                    src.add(refs[m["declId"]])
                elif m["k"] == "DeclRefExpr" and m.get("declId") in vals:
                    src.add(vals[m["declId"]])
                elif m["k"] == "DeclRefExpr" and m.get("declKind") in ("Var", "ParmVar") and m.get("declId") not in refs \
                        and not (m.get("declType") or "").startswith("mtest::StudyCurrentState"):
                    src.add("<other>")
                elif m["k"] in ("CallExpr", "CXXOperatorCallExpr") and not (m.get("callee") or "").startswith("std::"):
                    src.add("<other>")
            return src or {"<const>"}
        top = g
        for s_, n in sorted(g.stmts.items()):
            if n["k"] == "BinaryOperator" and n.get("op") == "=":
                l, r = g.kids(s_)[:2]
                t = target(l)
                if t is None:
                    continue
                # chained assignments: the value comes from the innermost right-hand side
                rr = r
                while g.stmts.get(g.strip(rr), {}).get("k") == "BinaryOperator" and g.stmts[g.strip(rr)].get("op") == "=":
                    rr = g.kids(g.strip(rr))[1]
                writes.append((g.qname, t, sources(rr), g.short_loc(s_)))
            elif n["k"] == "CXXMemberCallExpr" and (n.get("callee") or "").rsplit("::", 1)[-1] == "setParameter" and len(n.get("args", [])) == 2 \
                    and (n.get("callee") or "").startswith("mtest::StudyCurrentState"):
                t = pname(g, s_)
                if t:
                    writes.append((g.qname, t, sources(n["args"][1]), g.short_loc(s_)))
                    # 'set once if absent' with a computed value, in a function that runs during an attempt
                    pmg = g.parent_map()
                    q_, once = s_, False
                    while q_ in pmg:
                        q_ = pmg[q_]
                        if g.stmts[q_]["k"] == "IfStmt" and "containsParameter" in g.text(g.stmts[q_]["cond"]) and t in g.text(g.stmts[q_]["cond"]).replace('"', ""):
                            once = True
                    if once:
                        setonce.append((g.qname, t, sources(n["args"][1]), g.short_loc(s_)))
    rep.count("writes to named parameters of the study state", len(writes))
    seen_once = set()
    for q, t, src, loc in setonce:
        fn = q.rsplit("::", 1)[-1]
        if fn in ("postConvergence", "completeInitialisation", "initializeCurrentState", "initializeWorkSpace") or src <= {"<const>"}:
            continue
        key = "SET-ONCE-IN-ATTEMPT@%s#%s" % (q, t)
        if key in seen_once:
            continue
        seen_once.add(key)
        rep.fail(key, "%s: %s creates the study parameter '%s' when it is absent, from a value computed during the attempt; neither revert() nor "
                 "prepare() removes it: when the first attempt is rejected, the value computed in that rejected attempt is used by every later "
                 "step (the run differs from one performed directly with the accepted steps)" % (rel(loc), q, t))
    writers = {}
    for q, t, src, loc in writes:
        writers.setdefault(t, set()).add(q.rsplit("::", 1)[-1])
    committed = set(t for t, ws in writers.items() if ws <= {"postConvergence"})
    for q, t, src, loc in writes:
        if not t.endswith("AtBeginningOfTimeStep"):
            continue
        rep.count("writes to beginning-of-step parameters")
        badsrc = sorted(x for x in src if x != "<const>" and x not in committed)
        if badsrc:
            rep.fail("BEGIN-OF-STEP-PARAMETER@%s#%s" % (q, t), "%s: %s sets the beginning-of-step parameter '%s' from %s, which is written during the "
                     "iterations of an attempt (by %s): after a rejected attempt the next one starts from the rejected attempt's value "
                     "instead of the committed one" % (rel(loc), q, t, badsrc, sorted(set(w for b_ in badsrc for w in writers.get(b_, ["?"])))))
        else:
            rep.ok("%s sets '%s' from %s" % (q, t, sorted(src)))
    rep.floor("writes to beginning-of-step parameters", 1)
    rep.floor("committed fields", 5)
    # ---------------- R5 nothing is recorded for an attempt that execute rejects
    import attempts
    try:
        ar = attempts.analyse()
    except AnalysisBroken as e_:
        # the shape R5 reads (update() in the then-arm, revert() in the else-arm of one branch of execute) is gone; when R1 has already
        # reported why (a rejected attempt that is not reverted), that report stands and R5 is not evaluated
        if rep.violations:
            rep.extra["R5_not_evaluated"] = str(e_)
            return rep
        raise
    rep.extra["acceptance_test"] = {"where": rel(ar["loc"]), "condition": ar["cond"], "atoms": [list(a) for a in ar["atoms"]],
                                    "accepted_under": [attempts.describe(dict(zip(ar["atoms"], v))) for v, acc in ar["table"].items() if acc]}
    for q, o_ in sorted(ar["funcs"].items()):
        rep.count("postConvergence call sites in the attempt functions", o_["pc_sites"])
        if o_["pc_when_rejected"]:
            V, loc = o_["pc_when_rejected"][0]
            rep.fail("POSTCONVERGENCE-ONLY-IF-ACCEPTED@%s" % q, "%s: %s calls Study::postConvergence (the @Test comparisons, the user post-processings, "
                     "the end-of-step parameters of the pipe test) although GenericSolver::execute (%s) rejects the attempt when %s: a rejected "
                     "attempt leaves a trace" % (rel(loc), q, rel(ar["loc"]), attempts.describe(V)))
        else:
            rep.ok("%s calls Study::postConvergence only for attempts that execute accepts" % q)
    rep.floor("postConvergence call sites in the attempt functions", 2)
    rep.floor("state fields an attempt may leave changed", 6)
    rep.floor("functions with a write summary on a state record", 20)
    rep.assumptions += ["writes whose base object cannot be resolved to a parameter, *this or a local (count in the evidence) are not attributed",
                        "virtual calls are resolved by method name within mtest::; behaviours loaded from shared libraries receive views of "
                        "the state built by the wrappers and are outside the analysed program",
                        "an exception leaving an attempt ends the run (MTest::execute catches at top level): exceptional exits are not restart points",
                        "counters (iterations, subSteps) are not part of the state compared by the property"]
    return rep
