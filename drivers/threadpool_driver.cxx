// instantiates ThreadPool::addTask / Wrapper for a value task and a void task
#include "TFEL/System/ThreadPool.hxx"
int verif_value_task();
void verif_void_task();
void verif_threadpool_driver(tfel::system::ThreadPool& p) {
  auto a = p.addTask([] { return verif_value_task(); });
  auto b = p.addTask([] { verif_void_task(); });
  p.wait();
}
