// driver for C28: stress-free-expansion conversion and Hill tensors for every (hypothesis, axes convention) pair that
// the library defines; lowered to IR and interpreted abstractly (never run).
#include "TFEL/Material/ModellingHypothesis.hxx"
#include "TFEL/Material/OrthotropicAxesConvention.hxx"
#include "TFEL/Material/Hill.hxx"
#include "TFEL/Material/StiffnessTensor.hxx"
using namespace tfel::material;
using MH = ModellingHypothesis;
using OAC = OrthotropicAxesConvention;
template <MH::Hypothesis mh, OAC c>
static void sfe(const double* in, double* out) {
  constexpr auto N = ModellingHypothesisToSpaceDimension<mh>::value;
  tfel::math::stensor<N, double> s;
  for (unsigned short i = 0; i != tfel::math::StensorDimeToSize<N>::value; ++i) s[i] = in[i];
  convertStressFreeExpansionStrain<mh, c>(s);
  for (unsigned short i = 0; i != tfel::math::StensorDimeToSize<N>::value; ++i) out[i] = s[i];
}
template <MH::Hypothesis mh, OAC c>
static void hill(const double* in, double* out) {
  constexpr auto N = ModellingHypothesisToSpaceDimension<mh>::value;
  constexpr auto n = tfel::math::StensorDimeToSize<N>::value;
  const auto h = computeHillTensor<mh, c, double>(in[0], in[1], in[2], in[3], in[4], in[5]);
  for (unsigned short i = 0; i != n; ++i)
    for (unsigned short j = 0; j != n; ++j) out[i * n + j] = h(i, j);
}
template <MH::Hypothesis mh, OAC c>
static void stiff(const double* in, double* out) {
  constexpr auto N = ModellingHypothesisToSpaceDimension<mh>::value;
  constexpr auto n = tfel::math::StensorDimeToSize<N>::value;
  tfel::math::st2tost2<N, double> C;
  computeOrthotropicStiffnessTensor<mh, StiffnessTensorAlterationCharacteristic::UNALTERED, c>(
      C, in[0], in[1], in[2], in[3], in[4], in[5], in[6], in[7], in[8]);
  for (unsigned short i = 0; i != n; ++i)
    for (unsigned short j = 0; j != n; ++j) out[i * n + j] = C(i, j);
}
template <MH::Hypothesis mh, OAC c>
static void stiffA(const double* in, double* out) {
  constexpr auto N = ModellingHypothesisToSpaceDimension<mh>::value;
  constexpr auto n = tfel::math::StensorDimeToSize<N>::value;
  tfel::math::st2tost2<N, double> C;
  computeOrthotropicStiffnessTensor<mh, StiffnessTensorAlterationCharacteristic::ALTERED, c>(
      C, in[0], in[1], in[2], in[3], in[4], in[5], in[6], in[7], in[8]);
  for (unsigned short i = 0; i != n; ++i)
    for (unsigned short j = 0; j != n; ++j) out[i * n + j] = C(i, j);
}
#define VERIF_PAIR(H, C)                                                                                 \
  extern "C" void verif_sfe_##H##_##C(const double* in, double* out) { sfe<MH::H, OAC::C>(in, out); }    \
  extern "C" void verif_hill_##H##_##C(const double* in, double* out) { hill<MH::H, OAC::C>(in, out); }
#define VERIF_STIFF(H, C) \
  extern "C" void verif_stiff_##H##_##C(const double* in, double* out) { stiff<MH::H, OAC::C>(in, out); } \
  extern "C" void verif_stiffA_##H##_##C(const double* in, double* out) { stiffA<MH::H, OAC::C>(in, out); }
#define VERIF_ALLC(H) VERIF_PAIR(H, DEFAULT) VERIF_PAIR(H, PIPE) VERIF_STIFF(H, DEFAULT) VERIF_STIFF(H, PIPE)
VERIF_ALLC(AXISYMMETRICALGENERALISEDPLANESTRAIN)
VERIF_ALLC(AXISYMMETRICALGENERALISEDPLANESTRESS)
VERIF_ALLC(AXISYMMETRICAL)
VERIF_ALLC(PLANESTRESS)
VERIF_ALLC(PLANESTRAIN)
VERIF_ALLC(GENERALISEDPLANESTRAIN)
VERIF_ALLC(TRIDIMENSIONAL)
VERIF_PAIR(PLANESTRESS, PLATE)
VERIF_PAIR(PLANESTRAIN, PLATE)
VERIF_PAIR(GENERALISEDPLANESTRAIN, PLATE)
VERIF_PAIR(TRIDIMENSIONAL, PLATE)
