"""C28 — modelling hypotheses and axes conventions are coherent.

 (a) decision tables read from the CFG of ModellingHypothesis.cxx: toString,
     toUpperCaseString, fromString, isModellingHypothesis and
     getModellingHypotheses cover exactly the enumerators of
     ModellingHypothesis::Hypothesis (UNDEFINEDHYPOTHESIS excepted), names are
     pairwise distinct, fromString(toString(h)) = h, toUpperCaseString is the
     upper-cased name, every other input raises;
 (b) run-time getSpaceDimension / getStensorSize / getTensorSize agree, for
     each hypothesis, with the documented values (1,3,3 / 2,4,5 / 3,6,9) and,
     through a type-level witness TU, with the compile-time metafunctions
     ModellingHypothesisToSpaceDimension/StensorSize/TensorSize and
     StensorDimeToSize / TensorDimeToSize of that dimension;
 (c) axes conventions (Engine B, identity/Poly domain on the IR of
     drivers/c28_hyp.cxx): for every (hypothesis, convention) pair the library
     defines, convertStressFreeExpansionStrain, computeHillTensor and
     computeOrthotropicStiffnessTensor (UNALTERED, hypotheses whose tensor is a
     sub-block) are the restriction to the hypothesis of the 3D object with
     the material axes permuted by ONE permutation per pair: y<->z for PIPE
     under the three plane hypotheses, the identity otherwise - the three
     routines must agree on it.
"""
import os, re, subprocess
from common import *
from cfg import *

RULE = ("decision tables of the hypothesis name/size functions vs the enumerators and the documented sizes; type-level witness "
        "against the compile-time metafunctions; restriction-of-permuted-3D identities for the axes conventions")
MH = "tfel::material::ModellingHypothesis"
DOC = {"AXISYMMETRICALGENERALISEDPLANESTRAIN": (1, 3, 3), "AXISYMMETRICALGENERALISEDPLANESTRESS": (1, 3, 3),
       "AXISYMMETRICAL": (2, 4, 5), "PLANESTRESS": (2, 4, 5), "PLANESTRAIN": (2, 4, 5), "GENERALISEDPLANESTRAIN": (2, 4, 5),
       "TRIDIMENSIONAL": (3, 6, 9)}
PLANE = ("PLANESTRESS", "PLANESTRAIN", "GENERALISEDPLANESTRAIN")


def rel(loc):
    return loc.replace(REPO + "/", "")


def table_of(f, kind):
    """enumerate all paths: facts on 'h == X' atoms -> returned literal / raise.
    kind 'enum' : h is the enum parameter; 'string': h is the string parameter."""
    def atom(f_, s):
        bo = f_.binop(s)
        if bo and bo[0] == "==":
            l, r = f_.stmts[f_.strip(bo[1])], f_.stmts[f_.strip(bo[2])]
            for a, b in ((l, r), (r, l)):
                if a["k"] == "DeclRefExpr" and a.get("parm"):
                    if b.get("declKind") == "EnumConstant":
                        return ("=" + b["name"], False)
                    lit = [f_.stmts[x]["value"] for x in f_.walk(bo[2] if a is l else bo[1]) if f_.stmts[x]["k"] == "StringLiteral"]
                    if lit:
                        return ("=" + lit[0], False)
        return None
    rows = []

    def el(st, b, i, e):
        fx, out = st
        if "s" in e:
            n = f.stmts[e["s"]]
            if n["k"] == "ReturnStmt":
                ks = f.kids(e["s"])
                v = None
                for x in f.walk(ks[0]) if ks else []:
                    m = f.stmts[x]
                    if m["k"] == "StringLiteral":
                        v = ("str", m["value"])
                    elif m["k"] == "DeclRefExpr" and m.get("declKind") == "EnumConstant":
                        v = ("enum", m["name"])
                    elif m["k"] == "IntegerLiteral":
                        v = ("int", m["value"])
                    elif m["k"] == "CXXBoolLiteralExpr":
                        v = ("bool", m["value"])
                    if v:
                        break
                out = v or ("expr", f.text(ks[0]) if ks else "")
            elif n["k"] == "CallExpr" and n.get("noreturn"):
                out = ("raise", n.get("callee"))
        return ((fx, out),)

    def ed(st, b, succ, pol):
        fx, out = st
        f2 = branch(f, b, pol, dict(fx), atom)
        if f2 is None:
            return ()
        # one-hot: the parameter equals at most one constant
        trues = [k for k, v in f2.items() if v is True]
        if len(trues) > 1:
            return ()
        return ((tuple(sorted(f2.items())), out),)
    IN, OUT = forward(f, [((), None)], el, ed)
    finals = set(IN.get(f.exit, ()))
    for bid, sts in OUT.items():
        if f.abrupt(bid):
            finals |= sts
    table = {}
    default = set()
    for fx, out in finals:
        trues = [k[1:] for k, v in fx if v is True]
        if trues:
            table.setdefault(trues[0], set()).add(out)
        else:
            default.add(out)
    return table, default


def run(tier):
    rep = Report("C28", tier, "proof", RULE)
    unit = os.path.join(REPO, "src/Material/ModellingHypothesis.cxx")
    d = cfgdump([unit], os.path.join(OUT, "C28", "dump"), funcs=r"^tfel::material::(ModellingHypothesis::|get(SpaceDimension|StensorSize|TensorSize)$)",
                records=r"^tfel::material::ModellingHypothesis$")
    funcs = {f.qname: f for f in load_functions(d) if f.parent is None}
    # enumerators from the witness side (AST of the header through the getModellingHypotheses list + DOC)
    enums = sorted(DOC)
    g = funcs.get(MH + "::getModellingHypotheses")
    if g is None:
        raise AnalysisBroken("getModellingHypotheses vanished")
    listed = [n["name"] for s, n in sorted(g.stmts.items()) if n["k"] == "DeclRefExpr" and n.get("declKind") == "EnumConstant"]
    if sorted(listed) == enums:
        rep.ok("getModellingHypotheses lists the seven hypotheses once each")
    else:
        rep.fail("TABLE@getModellingHypotheses", "getModellingHypotheses lists %s; expected each of %s once" % (listed, enums))
    names = {}
    for q, want_kind in (("toString", "str"), ("toUpperCaseString", "str")):
        f = funcs.get(MH + "::" + q)
        if f is None:
            raise AnalysisBroken("%s vanished" % q)
        t, dflt = table_of(f, "enum")
        rep.count("decision-table rows", len(t) + 1)
        for e in enums:
            outs = t.get(e, set())
            if len(outs) == 1 and list(outs)[0][0] == "str":
                names.setdefault(q, {})[e] = list(outs)[0][1]
                rep.ok("%s(%s) = '%s'" % (q, e, list(outs)[0][1]), sample=(e == "PLANESTRESS"))
            else:
                rep.fail("TABLE@%s#%s" % (q, e), "%s(%s) yields %s" % (q, e, sorted(outs) or "no path"))
        if not dflt or not all(o and o[0] == "raise" for o in dflt):
            rep.fail("TABLE@%s#default" % q, "%s does not raise for an unsupported hypothesis (%s)" % (q, sorted(map(str, dflt))))
        vals = list(names.get(q, {}).values())
        if len(set(vals)) != len(vals):
            rep.fail("TABLE@%s#distinct" % q, "%s maps two hypotheses to the same name: %s" % (q, names[q]))
    for e in enums:
        a, b = names.get("toString", {}).get(e), names.get("toUpperCaseString", {}).get(e)
        if a and b:
            if a.upper() == b and b == e:
                rep.ok("toUpperCaseString(%s) is the upper-cased name and the enumerator's identifier" % e, sample=False)
            else:
                rep.fail("TABLE@toUpperCaseString#%s" % e, "toString(%s)='%s' but toUpperCaseString gives '%s'" % (e, a, b))
    f = funcs.get(MH + "::fromString")
    t, dflt = table_of(f, "string")
    rep.count("decision-table rows", len(t) + 1)
    for e in enums:
        nm = names.get("toString", {}).get(e)
        outs = t.get(nm, set())
        if outs == {("enum", e)}:
            rep.ok("fromString(toString(%s)) = %s" % (e, e), sample=(e == "PLANESTRESS"))
        else:
            rep.fail("ROUNDTRIP@%s" % e, "fromString('%s') yields %s, expected %s" % (nm, sorted(outs) or "no path", e))
    extra = set(t) - set(names.get("toString", {}).values())
    for x in sorted(extra):
        rep.fail("TABLE@fromString#%s" % x, "fromString accepts '%s', which toString never produces" % x)
    if not dflt or not all(o and o[0] == "raise" for o in dflt):
        rep.fail("TABLE@fromString#default", "fromString does not raise on an unknown name")
    f = funcs.get(MH + "::isModellingHypothesis")
    acc = sorted(set(n["value"] for n in f.stmts.values() if n["k"] == "StringLiteral"))
    if acc == sorted(names.get("toString", {}).values()):
        rep.ok("isModellingHypothesis accepts exactly the seven names")
    else:
        rep.fail("TABLE@isModellingHypothesis", "isModellingHypothesis tests %s, the names are %s" % (acc, sorted(names.get("toString", {}).values())))
    # ---- (b) sizes
    runtime = {}
    for i, q in enumerate(("getSpaceDimension", "getStensorSize", "getTensorSize")):
        f = funcs.get("tfel::material::" + q)
        if f is None:
            raise AnalysisBroken("%s vanished" % q)
        t, dflt = table_of(f, "enum")
        rep.count("decision-table rows", len(t) + 1)
        for e in enums:
            outs = t.get(e, set())
            if outs == {("int", DOC[e][i])}:
                runtime.setdefault(e, {})[q] = DOC[e][i]
                rep.ok("%s(%s) = %d (documented)" % (q, e, DOC[e][i]), sample=(e == "AXISYMMETRICAL"))
            else:
                rep.fail("SIZE@%s#%s" % (q, e), "%s(%s) yields %s, documented value %d" % (q, e, sorted(outs) or "no path", DOC[e][i]))
        if not dflt or not all(o and o[0] == "raise" for o in dflt):
            rep.fail("SIZE@%s#default" % q, "%s does not raise for an unsupported hypothesis" % q)
    # type-level witness: compile-time metafunctions agree with the same table
    lines = ['#include "TFEL/Material/ModellingHypothesis.hxx"', '#include "TFEL/Math/stensor.hxx"', '#include "TFEL/Math/tensor.hxx"',
             "using namespace tfel::material;"]
    obl = []
    for e in enums:
        dim, ss, ts = DOC[e]
        obl += [("ModellingHypothesisToSpaceDimension<ModellingHypothesis::%s>::value == %d" % (e, dim), e),
                ("ModellingHypothesisToStensorSize<ModellingHypothesis::%s>::value == %d" % (e, ss), e),
                ("ModellingHypothesisToTensorSize<ModellingHypothesis::%s>::value == %d" % (e, ts), e),
                ("tfel::math::StensorDimeToSize<%d>::value == %d" % (dim, ss), e),
                ("tfel::math::TensorDimeToSize<%d>::value == %d" % (dim, ts), e)]
    for i, (o, e) in enumerate(obl):
        lines.append('static_assert(%s, "W%d");' % (o, i))
    lines.append('static_assert(ModellingHypothesisToSpaceDimension<ModellingHypothesis::TRIDIMENSIONAL>::value == 2, "CONTROL");')
    wd = os.path.join(OUT, "C28")
    os.makedirs(wd, exist_ok=True)
    wp = os.path.join(wd, "witness.cxx")
    open(wp, "w").write("\n".join(lines) + "\n")
    p = subprocess.run(["clang++", "-fsyntax-only"] + header_flags() + [wp], capture_output=True, text=True)
    failed = set(int(m) for m in re.findall(r'static_assert failed[^\n]*"W(\d+)"', p.stderr))
    if '"CONTROL"' not in p.stderr:
        raise AnalysisBroken("witness TU: the deliberately false assertion was not reported (%s)" % p.stderr[-400:])
    other = [l for l in p.stderr.splitlines() if "error:" in l and "static_assert failed" not in l]
    if other:
        raise AnalysisBroken("witness TU does not parse: %s" % other[0])
    for i, (o, e) in enumerate(obl):
        rep.count("type-level witnesses")
        if i in failed:
            rep.fail("WITNESS@%s" % o.split(" ==")[0], "compile-time constant disagrees with the documented/run-time table: %s is false" % o)
        else:
            rep.ok("static: %s" % o, sample=(i < 2))
    # ---- (c) axes conventions
    conventions(rep, tier)
    rep.floor("decision-table rows", 40)
    rep.floor("type-level witnesses", 35)
    rep.assumptions += ["the documented permutation of the Pipe convention is read as: material axes y and z are exchanged under the plane "
                        "stress / plane strain / generalised plane strain hypotheses, nothing is exchanged otherwise (behaviour manual; "
                        "the three routines are required to agree on it)",
                        "'identical in-plane responses' of behaviours is not decided; the Plate convention has no stiffness builder in the library"]
    return rep


def conventions(rep, tier):
    from absint import lower_driver, Unsupported
    from tensoralg import run_shim, syms, first_diff
    from poly import Rat
    import poly as P
    from poly import Rat
    P.reset_registry()
    mod = lower_driver(os.path.join(VERIF, "drivers", "c28_hyp.cxx"), os.path.join(OUT, "C28"), "c28", opt="-O2")

    def one(name, inputs, n):
        if name not in mod["functions"]:
            raise AnalysisBroken("shim %s missing" % name)
        try:
            r = run_shim(mod, name, [inputs], [n])
        except Unsupported as e:
            raise AnalysisBroken("%s: %s" % (name, e))
        if len(r) != 1:
            raise AnalysisBroken("%s: %d paths" % (name, len(r)))
        rep.count("convention shims interpreted")
        return r[0][1][0]
    h = syms("h", 6)
    e9 = syms("e", 9)
    s6 = syms("s", 6)
    H3 = one("verif_hill_TRIDIMENSIONAL_DEFAULT", h, 36)
    C3 = one("verif_stiff_TRIDIMENSIONAL_DEFAULT", e9, 36)
    pairs = [(e, c) for e in DOC for c in ("DEFAULT", "PIPE")] + [(e, "PLATE") for e in PLANE + ("TRIDIMENSIONAL",)]
    for e, c in pairs:
        n = DOC[e][1]
        perm = [0, 2, 1, 4, 3, 5] if (c == "PIPE" and e in PLANE) else [0, 1, 2, 3, 4, 5]
        what = "y<->z" if perm[1] == 2 else "identity"
        # stress-free expansion: diagonal components follow the permutation, nothing else moves
        out = one("verif_sfe_%s_%s" % (e, c), s6[:n], n)
        want = [s6[perm[k]] for k in range(3)] + [s6[k] for k in range(3, n)]
        d = first_diff(out, want)
        key = "CONVENTION@%s/%s" % (e, c)
        if d is None:
            rep.ok("convertStressFreeExpansionStrain<%s,%s>: axes permutation %s" % (e, c, what), sample=(c == "PIPE" and e == "PLANESTRAIN"))
        else:
            rep.fail(key + "#expansion", "convertStressFreeExpansionStrain<%s,%s>: component %d is %r, expected %r (axes permutation %s)"
                     % (e, c, d[0], d[1], d[2], what))
        # Hill tensor = restriction of the permuted 3D tensor
        out = one("verif_hill_%s_%s" % (e, c), h, n * n)
        want = [H3[perm[i] * 6 + perm[j]] for i in range(n) for j in range(n)]
        d = first_diff(out, want)
        if d is None:
            rep.ok("computeHillTensor<%s,%s> = restriction of the 3D Hill tensor with axes permutation %s" % (e, c, what),
                   sample=(c == "PIPE" and e == "PLANESTRAIN"))
        else:
            rep.fail(key + "#hill", "computeHillTensor<%s,%s>: entry (%d,%d) is %r; the 3D tensor with axes permutation %s gives %r"
                     % (e, c, d[0] // n, d[0] % n, d[1], what, d[2]))
        # stiffness (not defined for PLATE; plane stress is a condensation, axisymmetric generalised plane stress too)
        if c != "PLATE" and e not in ("PLANESTRESS", "AXISYMMETRICALGENERALISEDPLANESTRESS"):
            # permuting the material axes permutes the engineering constants: the 3D tensor of the permuted material
            out = one("verif_stiff_%s_%s" % (e, c), e9, n * n)
            want = [C3[perm[i] * 6 + perm[j]] for i in range(n) for j in range(n)]
            d = first_diff(out, want)
            if d is None:
                rep.ok("computeOrthotropicStiffnessTensor<%s,UNALTERED,%s> = restriction of the 3D tensor with axes permutation %s"
                       % (e, c, what), sample=(c == "PIPE" and e == "PLANESTRAIN"))
            else:
                rep.fail(key + "#stiffness", "computeOrthotropicStiffnessTensor<%s,%s>: entry (%d,%d) is %r; the 3D tensor with axes "
                         "permutation %s gives %r" % (e, c, d[0] // n, d[0] % n, d[1], what, d[2]))
    # altered stiffness: the alteration only exists under plane stress (static condensation of sigma_zz = 0)
    for e in DOC:
        if e == "AXISYMMETRICALGENERALISEDPLANESTRESS":
            continue
        for c in ("DEFAULT", "PIPE"):
            n = DOC[e][1]
            perm = [0, 2, 1, 4, 3, 5] if (c == "PIPE" and e in PLANE) else [0, 1, 2, 3, 4, 5]
            what = "y<->z" if perm[1] == 2 else "identity"
            out = one("verif_stiffA_%s_%s" % (e, c), e9, n * n)
            sub = [[C3[perm[i] * 6 + perm[j]] for j in range(n)] for i in range(n)]
            if e == "PLANESTRESS":
                want = [Rat(0)] * (n * n)
                for i in range(n):
                    for j in range(n):
                        if i != 2 and j != 2:
                            want[i * n + j] = sub[i][j] - sub[i][2] * sub[2][j] / sub[2][2]
                txt = "plane-stress condensation of the 3D tensor (axes permutation %s)" % what
            else:
                want = [sub[i][j] for i in range(n) for j in range(n)]
                txt = "the unaltered restriction of the 3D tensor (axes permutation %s): the alteration only exists under plane stress" % what
            d = first_diff(out, want)
            if d is None:
                rep.ok("computeOrthotropicStiffnessTensor<%s,ALTERED,%s> = %s" % (e, c, txt), sample=(c == "PIPE" and e == "PLANESTRAIN"))
            else:
                rep.fail("CONVENTION@%s/%s#altered-stiffness" % (e, c), "computeOrthotropicStiffnessTensor<%s,ALTERED,%s>: entry (%d,%d) is %r, "
                         "expected %s: %r" % (e, c, d[0] // n, d[0] % n, d[1], txt, d[2]))
    rep.floor("convention shims interpreted", 55)
