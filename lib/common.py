"""Shared plumbing: compilation database, tool runners, evidence, findings."""
import json, os, re, shlex, subprocess, sys, time, hashlib, shutil
from concurrent.futures import ThreadPoolExecutor

VERIF = os.path.dirname(os.path.dirname(os.path.abspath(__file__)))
REPO = os.environ.get("VERIF_REPO", "/repo")
BUILD = os.path.join(REPO, "_build")
BIN = os.path.join(VERIF, "bin")
OUT = os.path.join(VERIF, "out")
NPROC = int(os.environ.get("VERIF_JOBS", "16"))


class AnalysisBroken(Exception):
    """anchor vanished, floor not met, tool failure: exit 2, never a pass."""


_db = None


def compdb():
    """fresh compilation database from ninja (never cached across runs)."""
    global _db
    if _db is not None:
        return _db
    try:
        raw = subprocess.run(["ninja", "-C", BUILD, "-t", "compdb"],
                             capture_output=True, text=True, check=True).stdout
        entries = json.loads(raw)
    except Exception as e:  # pragma: no cover
        raise AnalysisBroken("cannot obtain compilation database: %s" % e)
    db = {}
    for e in entries:
        f = os.path.normpath(os.path.join(e["directory"], e["file"]))
        if not f.endswith((".cxx", ".cpp", ".cc", ".c")):
            continue
        if f in db:
            continue
        db[f] = e
    _db = db
    return db


_DROP_PREFIX = ("-W", "-march", "-ftree-vectorize", "-fvisibility")


def clang_flags(path, extra=()):
    """compiler flags of a repository unit, cleaned for clang."""
    e = compdb().get(os.path.normpath(path))
    if e is None:
        raise AnalysisBroken("unit not in compilation database: " + path)
    toks = shlex.split(e["command"])[1:]
    out = []
    skip = False
    for i, t in enumerate(toks):
        if skip:
            skip = False
            continue
        if t in ("-o", "-MT", "-MF", "-MQ"):
            skip = True
            continue
        if t in ("-c", "-MD", "-MMD") or t == e["file"] or t.endswith(e["file"]):
            continue
        if t.startswith(_DROP_PREFIX):
            continue
        out.append(t)
    if not any(t.startswith("-std=") for t in out):
        out.append("-std=gnu++20")
    out += ["-w", "-Wno-everything", "-ferror-limit=0"]
    out += list(extra)
    return out, e["directory"]


def header_flags(extra=()):
    """flags for a driver TU that instantiates header-only templates."""
    inc = [os.path.join(REPO, "include"), os.path.join(BUILD, "include"),
           os.path.join(REPO, "mfront", "include"),
           os.path.join(BUILD, "mfront", "include"),
           os.path.join(REPO, "mtest", "include"),
           os.path.join(REPO, "tfel-check", "include")]
    fl = ["-std=gnu++20", "-w", "-ferror-limit=0", "-DTFEL_ARCH64"]
    for i in inc:
        fl += ["-I", i]
    return fl + list(extra)


def units_under(*reldirs, pattern=r"\.cxx$"):
    res = []
    for f in sorted(compdb()):
        for d in reldirs:
            if f.startswith(os.path.join(REPO, d) + "/") and re.search(pattern, f):
                res.append(f)
                break
    return res


def unit_target(path):
    """CMake target a unit is compiled for (from the object path of the compilation database)."""
    e = compdb().get(os.path.normpath(path))
    m = re.search(r"CMakeFiles/([^/]+)\.dir/", (e or {}).get("output", "") or (e or {}).get("command", ""))
    return m.group(1) if m else None


def _run_one(args):
    cmd, outfile, cwd = args
    p = subprocess.run(cmd, cwd=cwd, capture_output=True, text=True)
    return cmd, outfile, p.returncode, p.stderr


def cfgdump(units, outdir, funcs=None, records=None, calls=False, root=None, vars=None,
            flags_for=None, jobs=NPROC):
    """run bin/cfgdump over units in parallel; returns {unit: parsed json}."""
    tool = os.path.join(BIN, "cfgdump")
    if not os.path.exists(tool):
        raise AnalysisBroken("bin/cfgdump missing: run ./setup.sh")
    if os.path.isdir(outdir):
        shutil.rmtree(outdir)
    os.makedirs(outdir)
    jobsl = []
    for u in units:
        if flags_for is not None:
            fl, cwd = flags_for(u)
        else:
            fl, cwd = clang_flags(u)
        h = hashlib.sha1(u.encode()).hexdigest()[:10]
        of = os.path.join(outdir, os.path.basename(u) + "." + h + ".json")
        cmd = [tool, "-o", of]
        if funcs:
            cmd.append("--funcs=" + funcs)
        if records:
            cmd.append("--records=" + records)
        if vars:
            cmd.append("--vars=" + vars)
        if calls:
            cmd.append("--calls")
        if root:
            cmd.append("--root=" + root)
        cmd += [u, "--"] + fl
        jobsl.append((cmd, of, cwd))
    res = {}
    with ThreadPoolExecutor(max_workers=jobs) as ex:
        for (cmd, of, rc, err), u in zip(ex.map(_run_one, jobsl), units):
            if not os.path.exists(of):
                raise AnalysisBroken("cfgdump produced nothing for %s: %s"
                                     % (u, err[-2000:]))
            with open(of) as f:
                d = json.load(f)
            if d.get("errors", 0) or rc != 0:
                raise AnalysisBroken("front end errors in %s (%s): %s"
                                     % (u, d.get("errors"), err[-3000:]))
            res[u] = d
    return res


# --------------------------------------------------------------- findings
def load_known_findings():
    path = os.path.join(VERIF, "known_findings.jsonl")
    res = {}
    if os.path.exists(path):
        for line in open(path):
            line = line.strip()
            if not line or line.startswith("#") or line.startswith("fixed:"):
                continue
            d = json.loads(line)
            res[(d["property"], d["key"])] = d
    return res


class Report:
    """collects obligations, violations, evidence for one property run."""

    def __init__(self, pid, tier, level, rule_text):
        self.pid = pid
        self.tier = tier
        self.level = level
        self.rule_text = rule_text
        self.t0 = time.time()
        self.obligations = 0
        self.discharged = 0
        self.samples = []
        self.violations = []   # dict(key, msg, detail)
        self.known = []
        self.analysed = {}
        self.assumptions = []
        self.trusted = ["clang 14 front end (parser, Sema, CFG builder)",
                        "/verif/engines + /verif/lib + /verif/rules (this framework)"]
        self.notes = []
        self.extra = {}

    def ok(self, what, sample=True, **kw):
        self.obligations += 1
        self.discharged += 1
        if sample and len(self.samples) < 12:
            self.samples.append(dict(obligation=what, verdict="holds", **kw))

    def fail(self, key, msg, **detail):
        """key: stable semantic key (rule@function#discriminator)."""
        self.obligations += 1
        if any(v["key"] == key for v in self.violations):
            return          # same finding seen through another instantiation
        self.violations.append(dict(key=key, msg=msg, detail=detail))

    def count(self, name, n=1):
        self.analysed[name] = self.analysed.get(name, 0) + n

    def floor(self, name, minimum):
        got = self.analysed.get(name, 0)
        if got < minimum and self.violations:
            return      # instances are missing *because* of reported violations: report those
        if got < minimum:
            raise AnalysisBroken("rule instance count for '%s' is %d, below the "
                                 "confirmed floor %d (rule would pass vacuously)"
                                 % (name, got, minimum))

    def finish(self):
        known = load_known_findings()
        outdir = os.path.join(OUT, self.pid)
        os.makedirs(outdir, exist_ok=True)
        new = []
        for v in self.violations:
            k = known.get((self.pid, v["key"]))
            if k is not None:
                print("KNOWN-FINDING: property=%s %s [%s]"
                      % (self.pid, k.get("what", v["msg"]), v["key"]))
                self.known.append(v)
            else:
                new.append(v)
        wall = time.time() - self.t0
        cov = {
            "obligations": self.obligations,
            "discharged": self.discharged,
            "checker_cmd": "./check %s --tier %s" % (self.pid, self.tier),
            "trusted_base": self.trusted,
            "explanation": self.rule_text,
            "rule": self.rule_text,
            "samples": self.samples[:12] or [{"note": "no obligation recorded"}],
            "analysed": self.analysed,
            "known_findings_reported": [v["key"] for v in self.known],
            "new_violations": [v["key"] for v in new],
        }
        cov.update(self.extra)
        level = self.level
        if level == "proof" and self.discharged != self.obligations:
            # a proof-level evidence file needs discharged == obligations
            level = "other"
        ev = {
            "property_id": self.pid, "tier": self.tier,
            "seed": int(os.environ.get("VERIF_SEED", "0") or 0),
            "level": level, "coverage": cov,
            "assumptions": self.assumptions, "wall_s": round(wall, 2),
            "violations": len(new),
        }
        os.makedirs(os.path.join(VERIF, "evidence"), exist_ok=True)
        with open(os.path.join(VERIF, "evidence", self.pid + ".json"), "w") as f:
            json.dump(ev, f, indent=1, sort_keys=True)
        print("[%s] tier=%s obligations=%d discharged=%d known=%d new=%d wall=%.1fs"
              % (self.pid, self.tier, self.obligations, self.discharged,
                 len(self.known), len(new), wall))
        for k, n in sorted(self.analysed.items()):
            print("  analysed %-40s %d" % (k, n))
        if new:
            for i, v in enumerate(new):
                rp = os.path.join(outdir, "violation-%d.json" % i)
                with open(rp, "w") as f:
                    json.dump(dict(property=self.pid, rule=self.rule_text, **v),
                              f, indent=1)
                print("  %s: %s" % (v["key"], v["msg"]))
                print("VIOLATION property=%s replay=%s" % (self.pid, rp))
            return 1
        return 0
