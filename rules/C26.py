"""C26 — inverse Langevin approximations: derivative and parity clauses (exact/near-exact
formula identities on the IR).  Accuracy w.r.t. the true inverse Langevin
function is not decided."""
from fractions import Fraction
from common import *
from absint import lower_driver, Unsupported
from tensoralg import *
import poly as P

RULE = ("Poly-domain abstract interpretation: the rational approximations are odd with an even derivative (normal forms of f(y) and "
        "f(-y) on each region); on every path of computeFunctionAndDerivative the second component is the "
        "exact derivative (quotient rule) of the first, the first equals computeFunction on the same path, KUHN_GRUN_1942 "
        "dispatches to the Morch series; Bergstrom-Boyce: tan/cos branch has the shape c1 tan(c2 y)+c3 y and "
        "c1 c2/cos(c2 y)^2+c3, both variants switch at the same constant")
RTOL = 1e-12


def run(tier):
    rep = Report("C26", tier, "other", RULE)
    rep.trusted += ["clang 14 code generation and -O2", "bin/ir2json, lib/absint.py, lib/poly.py"]
    P.reset_registry()
    mod = lower_driver(os.path.join(VERIF, "drivers", "c26_langevin.cxx"), os.path.join(OUT, "C26"), "c26")
    y = Rat.var("y")

    def paths(fname, nout):
        if fname not in mod["functions"]:
            raise AnalysisBroken("shim %s missing" % fname)
        try:
            r = run_shim(mod, fname, [[y]], [nout])
        except Unsupported as e:
            raise AnalysisBroken("%s: unsupported: %s" % (fname, e))
        rep.count("shims interpreted")
        rep.count("paths explored", len(r))
        return r
    res = {}

    def cond_holds(path, y0):
        """the comparisons recorded on a path, evaluated at y = y0 (exact rational arithmetic)."""
        for info, taken in path:
            if not (isinstance(info, tuple) and len(info) == 3 and isinstance(info[1], Rat) and isinstance(info[2], Rat)):
                return None
            l, r = info[1].subs("y", Fraction(y0)), info[2].subs("y", Fraction(y0))
            if not (l.is_const() and r.is_const()):
                return None
            lv, rv = l.n.const_value() / l.d.const_value(), r.n.const_value() / r.d.const_value()
            pred = info[0]
            val = {"olt": lv < rv, "ult": lv < rv, "ole": lv <= rv, "ule": lv <= rv, "ogt": lv > rv, "ugt": lv > rv, "oge": lv >= rv,
                   "uge": lv >= rv, "oeq": lv == rv, "ueq": lv == rv, "one": lv != rv, "une": lv != rv}.get(pred)
            if val is None:
                return None
            if val != bool(taken):
                return False
        return True

    def select(pths, y0, what):
        ok = [p_ for p_ in pths if cond_holds(p_[0], y0)]
        und = [p_ for p_ in pths if cond_holds(p_[0], y0) is None]
        if len(ok) != 1 or und:
            raise AnalysisBroken("%s: %d feasible paths at y = %s (%d undecided)" % (what, len(ok), y0, len(und)))
        return ok[0]
    SAMPLES = (Fraction(3, 10), Fraction(9, 10), Fraction(99, 100))
    for name in ("cohen", "jedynak", "morch", "kuhngrun"):
        fd = paths("verif_fd_" + name, 2)
        f = paths("verif_f_" + name, 1)
        fmap0 = {tuple((str(i), d_) for i, d_ in p_[0]): p_ for p_ in f}
        for path, outs, trace, assum, ret, dom in fd:
            v, d = outs[0]
            key = tuple((str(i), d_) for i, d_ in path)
            tag = "" if len(fd) == 1 else " on the path %s" % ("y < 0" if any(t for _i, t in path) else "y >= 0")
            rep.count("rational paths")
            if d.approx_equals(v.diff("y"), RTOL):
                exact = d.equals(v.diff("y"))
                rep.ok("%s%s: second component of computeFunctionAndDerivative is d/dy of the first (%s)"
                       % (name.upper(), tag, "exactly" if exact else "coefficients within %g, constants folded by the compiler" % RTOL))
            else:
                rep.fail("DERIVATIVE@InverseLangevinFunction<%s>" % name.upper(),
                         "%s%s: the derivative returned is  %r  but d/dy of the value  %r  is  %r" % (name.upper(), tag, d, v, v.diff("y")))
            pv = fmap0.get(key)
            if pv is None and len(f) == 1 and len(fd) == 1:
                pv = f[0]
            if pv is not None and pv[1][0][0].approx_equals(v, RTOL):
                rep.ok("%s%s: computeFunction equals the first component of computeFunctionAndDerivative" % (name.upper(), tag))
            else:
                rep.fail("VALUE-MISMATCH@InverseLangevinFunction<%s>" % name.upper(),
                         "%s%s: computeFunction differs from the value of computeFunctionAndDerivative  %r (or does not branch alike)" % (name.upper(), tag, v))
        # the canonical (y >= 0) forms, used by the dispatch clause
        p0 = select(fd, SAMPLES[0], name)
        res[name] = p0[1][0]
        # oddness: on each region the value at -y is minus the value at y, and the derivative is even
        fdm = run_shim(mod, "verif_fd_" + name, [[-y]], [2])
        odd = True
        for y0 in SAMPLES:
            pp, pm = select(fd, y0, name), select(fdm, y0, name + "(-y)")
            (vp, dp), (vm, dm) = pp[1][0], pm[1][0]
            rep.count("parity regions")
            if not ((vp + vm).approx_equals(0, RTOL) and (dp - dm).approx_equals(0, RTOL)):
                odd = False
                rep.fail("PARITY@InverseLangevinFunction<%s>" % name.upper(),
                         "%s is not odd: around y = %s, f(-y) = %r whereas -f(y) = %r (the property requires every approximation to be odd: "
                         "the Langevin function of f(y) is far from y for negative y)" % (name.upper(), float(y0), vm, -vp))
                break
        if odd:
            rep.ok("%s is odd and its derivative even (identical normal forms on the regions around y = 0.3, 0.9, 0.99)" % name.upper())
    if res["kuhngrun"][0].equals(res["morch"][0]) and res["kuhngrun"][1].equals(res["morch"][1]):
        rep.ok("KUHN_GRUN_1942 dispatches to the MORCH_2022 series (identical normal forms)")
    else:
        rep.fail("DISPATCH@KUHN_GRUN_1942", "KUHN_GRUN_1942 does not evaluate the Morch series")
    # Bergstrom-Boyce
    fd = paths("verif_fd_bb", 2)
    f = paths("verif_f_bb", 1)
    fmap = {tuple((str(i), d) for i, d in p[0]): p for p in f}
    thresholds = set()
    for path, outs, trace, assum, ret, dom in fd:
        key = tuple((str(i), d) for i, d in path)
        for info, d in path:
            if isinstance(info, tuple) and info[0] in ("olt", "ogt", "ole", "oge") and isinstance(info[2], Rat) and info[2].is_const() \
                    and not info[2].is_zero():
                thresholds.add(repr(info[2]))
        v, d = outs[0]
        rep.count("Bergstrom-Boyce paths")
        pv = fmap.get(key)
        if pv is None:
            rep.fail("BB-PATHS@BergstromBoyce1998", "value and value+derivative variants do not branch alike: %s" % (key,))
            continue
        if not pv[1][0][0].approx_equals(v, RTOL):
            rep.fail("VALUE-MISMATCH@BergstromBoyce1998#%s" % (key,), "variants disagree on path %s" % (key,))
            continue
        apps = dom.apps
        tans = [a for k, a in apps.items() if k[0] == "tan"]
        coss = [a for k, a in apps.items() if k[0] == "cos"]
        if v.n.variables() & {P.var_id(a[1]) for a in tans}:
            # trigonometric branch: v = c1*T + c3*y, d = c1*c2/C^2 + c3 with T = tan(c2 y), C = cos(c2 y)
            T = [a for a in tans if P.var_id(a[1]) in v.n.variables()][0]
            c1 = v.diff(T[1])
            rem = v - c1 * T[0]
            c3 = rem.diff("y")
            arg = T[2][0]
            c2 = arg.diff("y")
            Cs = [a for a in coss if P.var_id(a[1]) in (d.n.variables() | d.d.variables())]
            okshape = c1.is_const() and c3.is_const() and c2.is_const() and (rem - c3 * y).is_zero() and len(Cs) == 1 \
                and Cs[0][2][0].equals(arg)
            if okshape and ((d - c3) * Cs[0][0] * Cs[0][0]).approx_equals(c1 * c2, RTOL):
                rep.ok("Bergstrom-Boyce |y|<c0: value c1 tan(c2 y)+c3 y, derivative c1 c2/cos(c2 y)^2+c3 (same c1,c2,c3, same argument)")
            else:
                rep.fail("DERIVATIVE@BergstromBoyce1998#tan-branch", "value %r / derivative %r do not have the shape "
                         "c1 tan(u)+c3 y / c1 u'/cos(u)^2+c3" % (v, d))
        else:
            if d.approx_equals(v.diff("y"), RTOL):
                rep.ok("Bergstrom-Boyce outer branch %s: derivative is d/dy of %r" % (key[-1], v), sample=False)
            else:
                rep.fail("DERIVATIVE@BergstromBoyce1998#outer", "derivative %r is not d/dy of %r" % (d, v))
    if len(thresholds) == 1:
        rep.ok("both Bergstrom-Boyce variants switch branches at the same constant %s" % sorted(thresholds)[0])
    else:
        rep.fail("THRESHOLD@BergstromBoyce1998", "branch thresholds differ: %s" % sorted(thresholds))
    rep.floor("shims interpreted", 10)
    rep.floor("Bergstrom-Boyce paths", 4)
    rep.assumptions += ["exact arithmetic; constants folded by the compiler are compared within a relative tolerance of 1e-12 on "
                        "normal-form coefficients", "tan' = 1/cos^2 (calculus identity used for the trigonometric branch)",
                        "not decided: accuracy with respect to the true inverse Langevin function, monotonicity; parity of the "
                        "Bergstrom-Boyce approximation follows from the shape of its branches (tan is odd) and is not decided separately"]
    return rep
