"""Floating domains for absint: Order (weak orders of tokens)."""
from absint import Domain, Unsupported, FConst


class OrderDomain(Domain):
    """inputs are tokens under a weak order (rank per token); floats may only be
    compared and moved.  Any arithmetic on a token aborts the analysis."""
    name = "Order"

    def __init__(self, ranks):
        self.ranks = ranks
        self.assumed = set()

    def tok(self, name):
        return ("tok", name)

    def zero(self):
        return ("fc", "0")

    def const(self, fc):
        return ("fc", fc.repr)

    def from_int(self, i):
        return ("fc", str(i))

    def fcmp(self, pred, a, b, m):
        if pred == "ord":
            return 1
        if pred == "uno":
            return 0
        if a[0] != "tok" or b[0] != "tok":
            raise Unsupported("comparison of a token with a non-token (%r, %r)" % (a, b))
        ra, rb = self.ranks[a[1]], self.ranks[b[1]]
        base = pred[1:] if pred[0] in "ou" else pred
        if pred[0] == "u":
            m.assumptions.add("unordered predicate %s treated as ordered (inputs finite, not NaN)" % pred)
        res = {"eq": ra == rb, "ne": ra != rb, "gt": ra > rb, "ge": ra >= rb, "lt": ra < rb, "le": ra <= rb}[base]
        return int(res)

    def call(self, name, args, m):
        if name == "verif_pred" and all(a[0] == "tok" for a in args[:2]):
            # an opaque strict weak order given as a weak order on the tokens: pred(a,b) = a before b
            return int(self.ranks[args[0][1]] < self.ranks[args[1][1]])
        if name in ("maxnum", "minnum", "fmax", "fmin") and all(a[0] == "tok" for a in args[:2]):
            a, b = args[:2]
            ra, rb = self.ranks[a[1]], self.ranks[b[1]]
            if name in ("maxnum", "fmax"):
                return a if ra >= rb else b
            return a if ra <= rb else b
        raise Unsupported("call of %s on tokens" % name)


# ---------------------------------------------------------------- Poly
import math
from fractions import Fraction
import poly as P


def _ulp(x):
    return math.ulp(abs(x)) if x != 0 else 5e-324


def recognise_constant(x):
    """exact algebraic value of a double literal: small rationals, rational
    multiples of sqrt2/sqrt3/sqrt6 (within 2 ulp: products of literals are
    rounded by the compiler), else the exact dyadic value (always sound)."""
    if x == 0:
        return P.Rat(0), "0"
    r = Fraction(x).limit_denominator(100000)
    if float(r) == x:
        return P.Rat(P.Poly.const(r)), str(r)
    for sym, val, nm in ((P.SQRT2(), math.sqrt(2.0), "sqrt2"), (P.SQRT3(), math.sqrt(3.0), "sqrt3"),
                         (P.SQRT2() * P.SQRT3(), math.sqrt(6.0), "sqrt6")):
        q = Fraction(x / val).limit_denominator(5000)
        if q != 0 and abs(float(q) * val - x) <= 2 * _ulp(x):
            return P.Rat(sym.scale(q)), "%s*%s" % (q, nm)
    # a decimal literal: the shortest round-trip decimal, when it is short
    rs = repr(x)
    digits = rs.replace("-", "").replace(".", "").split("e")[0].lstrip("0")
    if len(digits) <= 12:
        return P.Rat(P.Poly.const(Fraction(rs))), "decimal(%s)" % rs
    return P.Rat(P.Poly.const(Fraction(x))), "dyadic(%r)" % x


class PolyDomain(Domain):
    """floats are exact rational functions of the input symbols over
    Q(sqrt2, sqrt3) with radical/application atoms; comparisons fork."""
    name = "Poly"

    def __init__(self, fresh_externals=False):
        self.constants = {}
        self.atoms = {}
        self.apps = {}
        self.fresh_externals = fresh_externals

    def sym(self, name):
        return P.Rat.var(name)

    def zero(self):
        return P.Rat(0)

    def const(self, fc):
        x = fc.as_float()
        if math.isnan(x) or math.isinf(x):
            return ("special", fc.repr)
        v, how = recognise_constant(x)
        self.constants[fc.repr] = how
        return v

    def from_int(self, i):
        return P.Rat(i)

    def _r(self, a):
        if isinstance(a, P.Rat):
            return a
        raise Unsupported("non-algebraic float value %r" % (a,))

    def arith(self, op, a, b):
        a, b = self._r(a), self._r(b)
        if op == "fadd":
            return a + b
        if op == "fsub":
            return a - b
        if op == "fmul":
            return a * b
        if op == "fdiv":
            if b.is_zero():
                raise Unsupported("division by an identically zero expression")
            return a / b
        raise Unsupported(op)

    def neg(self, a):
        return -self._r(a)

    def fcmp(self, pred, a, b, m):
        if pred == "ord":
            return 1
        if pred == "uno":
            return 0
        if isinstance(a, tuple) or isinstance(b, tuple):
            raise Unsupported("comparison with a special value")
        d = a - b
        if d.is_const():
            c = d.n.const_value() / d.d.const_value() if not d.n.is_zero() else Fraction(0)
            base = pred[1:] if pred[0] in "ou" else pred
            return int({"eq": c == 0, "ne": c != 0, "gt": c > 0, "ge": c >= 0, "lt": c < 0, "le": c <= 0}[base])
        return ("cond", (pred, a, b))

    def atom(self, kind, k, arg):
        """radical atom kind(arg) with relation atom**k = arg (arg polynomial)."""
        key = (kind, arg.key())
        if key not in self.atoms:
            name = "%s#%d" % (kind, len(self.atoms))
            if arg.d.is_const():
                a = P.define_atom(name, k, arg.n)
                self.atoms[key] = (P.Rat(a), name, arg)
            else:
                # sqrt(n/d) = sqrt(n*d)/d ; cbrt(n/d) = cbrt(n*d*d)/d
                inner = P.Rat(arg.n * (arg.d ** (k - 1)))
                a = P.define_atom(name, k, inner.n)
                self.atoms[key] = (P.Rat(a) / P.Rat(arg.d), name, arg)
        return self.atoms[key][0]

    def call(self, name, args, m):
        if name in ("sqrt", "sqrtf"):
            a = self._r(args[0])
            if a.is_const():
                c = a.n.const_value() / a.d.const_value() if not a.n.is_zero() else Fraction(0)
                if c >= 0:
                    rn, rd = math.isqrt(c.numerator), math.isqrt(c.denominator)
                    if rn * rn == c.numerator and rd * rd == c.denominator:
                        return P.Rat(Fraction(rn, rd))
                    if c == 2:
                        return P.Rat(P.SQRT2())
                    if c == 3:
                        return P.Rat(P.SQRT3())
            return self.atom("sqrt", 2, a)
        if name in ("cbrt", "cbrtf"):
            return self.atom("cbrt", 3, self._r(args[0]))
        if name in ("fabs", "fabsf"):
            a = self._r(args[0])
            if a.is_const():
                c = a.n.const_value() / a.d.const_value() if not a.n.is_zero() else Fraction(0)
                return P.Rat(abs(c))
            # |a| is a or -a: fork on the sign
            d = m.decide(("sign", a))
            return a if d else -a
        if name in ("maxnum", "minnum", "fmax", "fmin"):
            a, b = self._r(args[0]), self._r(args[1])
            d = m.decide((name, a, b))
            return a if d else b
        if self.fresh_externals:
            # an opaque functor: every call returns a fresh symbol; the call sequence is the observable
            an = "%s#%d" % (name, len(m.trace))
            if getattr(m, "cur_ty", "").startswith("i"):
                v = ("cond", ("ext", an))       # opaque integer / boolean result
            else:
                v = P.Rat.var(an)
            m.trace.append((name, list(args), v))
            return v
        # application atom of an opaque (pure) external function
        if all(isinstance(a, P.Rat) for a in args):
            key = (name, tuple(a.key() for a in args))
            if key not in self.apps:
                an = "%s@%d" % (name, len(self.apps))
                self.apps[key] = (P.Rat.var(an), an, list(args))
            m.trace.append((name, list(args)))
            return self.apps[key][0]
        raise Unsupported("call of %s" % name)


# -------------------------------------------------------------- Degree
class DegreeDomain:
    """Scaling-degree (homogeneity) domain.  A float is
        ("hom", d)    homogeneous of degree d (tuple of Fractions) in the scaling parameters,
        ("const", c)  a literal constant (degree free if c == 0, else degree 0),
        ("mixed",)    not homogeneous.
    Every comparison is recorded in m.trace as ("cmp", ok, text): comparing quantities of different degrees - or a
    quantity of non-zero degree with a constant that is not 'zero-like' (|c| < tiny) - makes the decision depend on the
    scale of the inputs.  Comparisons are never decided (both branches are explored)."""
    TINY = 1e-200

    def __init__(self, ninputs):
        self.n = ninputs
        self.cmps = []
        self.notes = []
        self.k = 0

    def hom(self, *d):
        return ("hom", tuple(Fraction(x) for x in d))

    def sym(self, name):
        raise Unsupported("untyped symbol in the degree domain")

    def zero(self):
        return ("const", 0.0)

    def const(self, fc):
        return ("const", fc.as_float())

    def from_int(self, i):
        return ("const", float(i))

    def _deg(self, a):
        if a[0] == "hom":
            return a[1]
        if a[0] == "const":
            return tuple(Fraction(0) for _ in range(self.n))
        return None

    def arith(self, op, a, b):
        if a[0] == "mixed" or b[0] == "mixed":
            return ("mixed",)
        if a[0] == "const" and b[0] == "const":
            x, y = a[1], b[1]
            try:
                return ("const", {"fadd": x + y, "fsub": x - y, "fmul": x * y, "fdiv": x / y if y != 0 else float("inf")}[op])
            except OverflowError:
                return ("const", float("inf"))
        da, db = self._deg(a), self._deg(b)
        if op in ("fmul", "fdiv"):
            if (a[0] == "const" and a[1] == 0) and op == "fmul":
                return ("const", 0.0)
            if b[0] == "const" and b[1] == 0 and op == "fmul":
                return ("const", 0.0)
            s = 1 if op == "fmul" else -1
            return ("hom", tuple(x + s * y for x, y in zip(da, db)))
        # addition / subtraction
        if a[0] == "const" and a[1] == 0:
            return b
        if b[0] == "const" and b[1] == 0:
            return a
        if da == db:
            return ("hom", da)
        self.notes.append("sum of quantities of degrees %s and %s" % (self.show(a), self.show(b)))
        return ("mixed",)

    def neg(self, a):
        if a[0] == "const":
            return ("const", -a[1])
        return a

    def show(self, a):
        if a[0] == "hom":
            return "(" + ",".join(str(x) for x in a[1]) + ")"
        if a[0] == "const":
            return "const %g" % a[1]
        return "mixed"

    def fcmp(self, pred, a, b, m):
        if pred in ("ord", "uno"):
            return 1 if pred == "ord" else 0
        ok = True
        why = ""
        if a[0] == "mixed" or b[0] == "mixed":
            ok, why = False, "a non-homogeneous quantity is compared"
        elif a[0] == "const" and b[0] == "const":
            ok = True
        else:
            for x, y in ((a, b), (b, a)):
                if y[0] == "const" and x[0] == "hom":
                    if any(d != 0 for d in x[1]) and not (abs(y[1]) < self.TINY):
                        ok, why = False, "a quantity of degree %s is compared with the constant %g" % (self.show(x), y[1])
            if a[0] == "hom" and b[0] == "hom" and a[1] != b[1]:
                ok, why = False, "quantities of degrees %s and %s are compared" % (self.show(a), self.show(b))
        self.k += 1
        self.cmps.append((ok, "%s %s %s" % (self.show(a), pred, self.show(b)), why))
        return ("cond", ("cmp", self.k))

    def call(self, name, args, m):
        a = args[0] if args else None
        if name in ("fabs", "fabsf"):
            return ("const", abs(a[1])) if a[0] == "const" else a
        if name in ("sqrt", "sqrtf", "cbrt", "cbrtf"):
            k = 2 if name.startswith("sqrt") else 3
            if a[0] == "const":
                return ("const", abs(a[1]) ** (1.0 / k) * (1 if a[1] >= 0 else -1))
            if a[0] == "hom":
                return ("hom", tuple(x / k for x in a[1]))
            return ("mixed",)
        if name in ("maxnum", "minnum", "fmax", "fmin", "copysign"):
            b = args[1]
            if name == "copysign":
                return a
            if a[0] == "const" and b[0] == "const":
                return ("const", max(a[1], b[1]) if "max" in name else min(a[1], b[1]))
            if a[0] != "mixed" and b[0] != "mixed":
                da, db = self._deg(a), self._deg(b)
                if da == db:
                    return ("hom", da)
                if (a[0] == "const" and abs(a[1]) < self.TINY):
                    return b
                if (b[0] == "const" and abs(b[1]) < self.TINY):
                    return a
                self.notes.append("%s of quantities of degrees %s and %s" % (name, self.show(a), self.show(b)))
            return ("mixed",)
        if name == "atan2" and len(args) == 2 and args[0][0] != "mixed" and args[1][0] != "mixed" \
                and self._deg(args[0]) == self._deg(args[1]):
            return ("hom", tuple(Fraction(0) for _ in range(self.n)))       # the angle of a scaled vector
        if name in ("cos", "sin", "acos", "asin", "atan", "tan", "exp", "log", "atan2", "pow", "cosh", "sinh"):
            if all(x[0] == "const" or (x[0] == "hom" and all(d == 0 for d in x[1])) for x in args):
                return ("hom", tuple(Fraction(0) for _ in range(self.n)))
            self.notes.append("%s applied to a quantity of degree %s" % (name, self.show(a)))
            return ("mixed",)
        raise Unsupported("call of %s in the degree domain" % name)
