// replay: 'integration without stiffness' with and without the speed-of-sound flag, K[2] left at a value that is not a tangent operator code
#include <cstdio>
#include <cstring>
#include "TFEL/Math/tensor.hxx"
#include "TFEL/Math/stensor.hxx"
#include "MFront/GenericBehaviour/BehaviourData.h"
extern "C" int VerifHencky_Tridimensional(mfront_gb_BehaviourData* const);
int main() {
  int bad = 0;
  for (const double k0 : {0., 100.}) {
    char msg[512] = "";
    mfront_gb_BehaviourData d;
    std::memset(&d, 0, sizeof(d));
    const double mp[2] = {150e9, 0.3}, esv[1] = {293.15}, rho = 7800;
    double K[81] = {k0, 0, 7}, rdt = 1, sos = 0, isv0[1] = {0}, isv1[1] = {0}, se0 = 0, se1 = 0, de0 = 0, de1 = 0, s0[6] = {0}, s1[6] = {0};
    auto F0 = tfel::math::tensor<3u, double>::Id(), F1 = tfel::math::tensor<3u, double>::Id();
    F1(0) = 1.01;
    d.error_message = msg; d.dt = 1; d.K = K; d.rdt = &rdt; d.speed_of_sound = &sos;
    d.s0.gradients = F0.begin(); d.s1.gradients = F1.begin(); d.s0.thermodynamic_forces = s0; d.s1.thermodynamic_forces = s1;
    d.s0.mass_density = &rho; d.s1.mass_density = &rho; d.s0.material_properties = mp; d.s1.material_properties = mp;
    d.s0.internal_state_variables = isv0; d.s1.internal_state_variables = isv1;
    d.s0.stored_energy = &se0; d.s1.stored_energy = &se1; d.s0.dissipated_energy = &de0; d.s1.dissipated_energy = &de1;
    d.s0.external_state_variables = esv; d.s1.external_state_variables = esv;
    const int r = VerifHencky_Tridimensional(&d);
    std::printf("K[0] = %g, K[2] = 7: returns %d (%s), sxx = %g, speed of sound = %g\n", k0, r, msg, s1[0], sos);
    bad += r != 1;
  }
  return bad;
}
