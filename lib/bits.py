"""Bits domain of Engine B: an integer is a concatenation of segments (LSB
first), each a constant or a slice of a named input field whose *class* is
fixed for the run (zero / ones / mid = neither / nz = non-zero).  Shifts, masks,
truncations and extensions by constants act on segments exactly; comparisons
are decided from the exact integer interval of the segments or abort."""
from absint import Machine, Unsupported, UNDEF


class NeedSplit(Exception):
    """a comparison looks at a strict sub-slice of a field whose class does not
    determine it: the partition must be refined at these bit positions."""

    def __init__(self, field, cuts):
        self.field, self.cuts = field, cuts


class BV:
    __slots__ = ("w", "segs")

    def __init__(self, w, segs):
        self.w = w
        self.segs = segs        # list of ("c", width, value) | ("f", name, lo, width, fieldwidth)
        assert sum(s[1] if s[0] == "c" else s[3] for s in segs) == w, (w, segs)

    @staticmethod
    def const(w, v):
        return BV(w, [("c", w, v & ((1 << w) - 1))])

    def __repr__(self):
        out = []
        for s in reversed(self.segs):
            if s[0] == "c":
                out.append("%d'h%x" % (s[1], s[2]))
            else:
                out.append("%s[%d+:%d]" % (s[1], s[2], s[3]))
        return "{" + ",".join(out) + "}"


def _norm(segs):
    out = []
    for s in segs:
        wd = s[1] if s[0] == "c" else s[3]
        if wd == 0:
            continue
        if out and s[0] == "c" and out[-1][0] == "c":
            p = out.pop()
            out.append(("c", p[1] + s[1], p[2] | (s[2] << p[1])))
        elif out and s[0] == "f" and out[-1][0] == "f" and out[-1][1] == s[1] and out[-1][2] + out[-1][3] == s[2]:
            p = out.pop()
            out.append(("f", s[1], p[2], p[3] + s[3], s[4]))
        else:
            out.append(s)
    return out


def _slice(bv, lo, width):
    """bits [lo, lo+width) of bv as a segment list."""
    out = []
    pos = 0
    for s in bv.segs:
        wd = s[1] if s[0] == "c" else s[3]
        a, b = max(lo, pos), min(lo + width, pos + wd)
        if a < b:
            if s[0] == "c":
                out.append(("c", b - a, (s[2] >> (a - pos)) & ((1 << (b - a)) - 1)))
            else:
                out.append(("f", s[1], s[2] + (a - pos), b - a, s[4]))
        pos += wd
    return out


class BitsMachine(Machine):
    """Machine whose float arguments are bit patterns split into fields."""

    def __init__(self, mod, classes):
        self.classes = classes      # field name -> class
        self.isnan_of = None        # semantic NaN predicate on the classes (self-comparison x != x)
        Machine.__init__(self, mod, _NoFloat())

    # --- interval of a segment / value
    def seg_range(self, s):
        if s[0] == "c":
            return s[2], s[2]
        name, lo, wd, fw = s[1], s[2], s[3], s[4]
        cl = self.classes[name]
        full = (lo == 0 and wd == fw)
        top = (1 << wd) - 1
        if cl == "zero":
            return 0, 0
        if cl == "ones":
            return top, top
        if isinstance(cl, int):
            v = (cl >> lo) & top
            return v, v
        if full and cl == "mid":
            return 1, top - 1
        if full and cl == "nz":
            return 1, top
        return 0, top

    def rng(self, bv):
        lo = hi = 0
        pos = 0
        for s in bv.segs:
            a, b = self.seg_range(s)
            lo += a << pos
            hi += b << pos
            pos += s[1] if s[0] == "c" else s[3]
        return lo, hi

    def as_bv(self, v, w):
        if isinstance(v, BV):
            return v
        if isinstance(v, int):
            return BV.const(w, v)
        raise Unsupported("bit-vector operand %r" % (v,))

    def dom_intop(self, op, a, b, bits):
        if isinstance(a, tuple) or isinstance(b, tuple):
            return Machine.dom_intop(self, op, a, b, bits)
        if op in ("shl", "lshr"):
            if not isinstance(b, int):
                lo, hi = self.rng(self.as_bv(b, bits))
                if lo != hi:
                    raise Unsupported("shift by an abstract amount")
                b = lo
            a = self.as_bv(a, bits)
            if op == "lshr":
                return BV(bits, _norm(_slice(a, b, bits - b) + [("c", b, 0)]))
            return BV(bits, _norm([("c", b, 0)] + _slice(a, 0, bits - b)))
        if op in ("and", "or", "xor"):
            if isinstance(a, int):
                a, b = b, a
            a = self.as_bv(a, bits)
            if isinstance(b, BV):
                lo, hi = self.rng(b)
                if lo != hi:
                    if op == "or":
                        # or of two abstract values: only decidable through ranges later; keep as disjoint-or when masks do not overlap
                        return self._or_abstract(a, b, bits)
                    raise Unsupported("%s of two abstract bit-vectors" % op)
                b = lo
            out = []
            pos = 0
            for s in a.segs:
                wd = s[1] if s[0] == "c" else s[3]
                mk = (b >> pos) & ((1 << wd) - 1)
                # split the segment along runs of the mask
                i = 0
                while i < wd:
                    bit = (mk >> i) & 1
                    j = i
                    while j < wd and ((mk >> j) & 1) == bit:
                        j += 1
                    piece = _slice(BV(wd, [s]), i, j - i)[0]
                    if op == "and":
                        out.append(piece if bit else ("c", j - i, 0))
                    elif op == "or":
                        out.append(("c", j - i, (1 << (j - i)) - 1) if bit else piece)
                    else:
                        if bit:
                            if piece[0] == "c":
                                out.append(("c", j - i, piece[2] ^ ((1 << (j - i)) - 1)))
                            else:
                                raise Unsupported("xor flipping field bits")
                        else:
                            out.append(piece)
                    i = j
                pos += wd
            return BV(bits, _norm(out))
        if op in ("add", "sub"):
            a2 = self.as_bv(a, bits)
            b2 = self.as_bv(b, bits)
            la, ha = self.rng(a2)
            lb, hb = self.rng(b2)
            if la == ha and lb == hb:
                r = (la + lb) if op == "add" else (la - lb)
                return r & ((1 << bits) - 1)
            # an offset of a ranged value: keep it as a range-only value
            if lb == hb:
                return ("ranged", bits, (la + (lb if op == "add" else -lb)), (ha + (lb if op == "add" else -lb)))
        raise Unsupported("integer op %s on bit-vectors" % op)

    def _or_abstract(self, a, b, bits):
        out = []
        for i in range(bits):
            sa, sb = _slice(a, i, 1)[0], _slice(b, i, 1)[0]
            if sa[0] == "c" and sa[2] == 0:
                out.append(sb)
            elif sb[0] == "c" and sb[2] == 0:
                out.append(sa)
            elif (sa[0] == "c" and sa[2] == 1) or (sb[0] == "c" and sb[2] == 1):
                out.append(("c", 1, 1))
            else:
                raise Unsupported("or of overlapping abstract bits")
        return BV(bits, _norm(out))

    def dom_intcast(self, op, v, ins):
        if isinstance(v, BV):
            sb, db = ins["srcBits"], ins["dstBits"]
            if op == "trunc":
                return BV(db, _norm(_slice(v, 0, db)))
            if op == "zext":
                return BV(db, _norm(v.segs + [("c", db - sb, 0)]))
        raise Unsupported("%s of %r" % (op, v))

    def need_split(self, *vals):
        for x in vals:
            if isinstance(x, BV):
                for sg in x.segs:
                    if sg[0] == "f" and not (sg[2] == 0 and sg[3] == sg[4]) and not isinstance(self.classes[sg[1]], int) \
                            and self.classes[sg[1]] in ("mid", "nz"):
                        raise NeedSplit(sg[1], [c for c in (sg[2], sg[2] + sg[3]) if 0 < c < sg[4]])

    def dom_icmp(self, pred, a, b, ins):
        bits = None
        for x in (a, b):
            if isinstance(x, BV):
                bits = x.w
        if isinstance(a, tuple) and a and a[0] == "ranged":
            la, ha = a[2], a[3]
            bits = a[1]
        else:
            la, ha = self.rng(self.as_bv(a, bits))
        if isinstance(b, tuple) and b and b[0] == "ranged":
            lb, hb = b[2], b[3]
        else:
            lb, hb = self.rng(self.as_bv(b, bits))
        if pred in ("slt", "sle", "sgt", "sge"):
            top = 1 << (bits - 1)
            if isinstance(a, BV) and lb == hb and ((pred == "slt" and lb == 0) or (pred == "sgt" and lb == (1 << bits) - 1)):
                # sign-bit test
                ml, mh = self.rng(BV(1, _slice(a, bits - 1, 1)))
                if ml != mh:
                    raise Unsupported("sign bit of %r is not decided" % (a,))
                return ml if pred == "slt" else 1 - ml
            if ha >= top or hb >= top:
                raise Unsupported("signed comparison of possibly negative bit-vectors")
            pred = "u" + pred[1:]
        if pred == "eq":
            if la == ha == lb == hb:
                return 1
            if ha < lb or hb < la:
                return 0
        elif pred == "ne":
            if la == ha == lb == hb:
                return 0
            if ha < lb or hb < la:
                return 1
        elif pred in ("ult", "ule", "ugt", "uge"):
            if pred in ("ugt", "uge"):
                la, ha, lb, hb = lb, hb, la, ha
                pred = "ult" if pred == "ugt" else "ule"
            if pred == "ult":
                if ha < lb:
                    return 1
                if la >= hb:
                    return 0
            else:
                if ha <= lb:
                    return 1
                if la > hb:
                    return 0
        self.need_split(a, b)
        raise Unsupported("comparison %s of %r and %r is not decided by the field classes %s"
                          % (pred, a, b, self.classes))

    def step(self, env, ins, fname):
        op = ins["op"]
        if op == "fcmp":
            o0, o1 = ins["ops"]
            isfc = lambda o: "c" in o and o["c"].get("k") == "f"
            if ins["pred"] in ("uno", "ord") and (isfc(o0) != isfc(o1)) and self.isnan_of:
                # canonical isnan: fcmp uno x, <non-NaN constant>
                nan = self.isnan_of(self.classes)
                env[ins["id"]] = int(nan if ins["pred"] == "uno" else not nan)
                return None
            if isfc(o0) or isfc(o1):
                raise Unsupported("floating comparison %s with a constant in a bit-level classifier" % ins["pred"])
            a, b = self.val(env, o0), self.val(env, o1)
            if a is b and isinstance(a, BV) and ins["pred"] in ("uno", "une", "ord", "oeq") and self.isnan_of:
                nan = self.isnan_of(self.classes)
                env[ins["id"]] = int(nan if ins["pred"] in ("uno", "une") else not nan)
                return None
            raise Unsupported("floating comparison %s in a bit-level classifier" % ins["pred"])
        if op in ("fadd", "fsub", "fmul", "fdiv", "fneg", "frem"):
            raise Unsupported("floating instruction %s in a bit-level classifier" % op)
        if op == "switch":
            c = self.val(env, ins["ops"][0])
            if isinstance(c, BV):
                lo, hi = self.rng(c)
                for cs in ins["cases"]:
                    cv = self.constant(cs["val"])
                    if lo == hi == cv:
                        return ("br", cs["to"])
                    if lo <= cv <= hi:
                        self.need_split(c)
                        raise Unsupported("switch on %r undecided for case %d" % (c, cv))
                return ("br", ins["default"])
        if op == "select":
            c = self.val(env, ins["ops"][0])
            if isinstance(c, BV):
                lo, hi = self.rng(c)
                if lo != hi:
                    self.need_split(c)
                    raise Unsupported("select on abstract bit")
                env[ins["id"]] = self.val(env, ins["ops"][1]) if lo & 1 else self.val(env, ins["ops"][2])
                return None
        if op == "br" and "f" in ins:
            c = self.val(env, ins["ops"][0])
            if isinstance(c, BV):
                lo, hi = self.rng(c)
                if lo != hi:
                    self.need_split(c)
                    raise Unsupported("branch on abstract bit")
                return ("br", ins["t"] if lo & 1 else ins["f"])
        return Machine.step(self, env, ins, fname)


class _NoFloat:
    name = "Bits"

    def const(self, fc):
        raise Unsupported("floating constant in a bit-level classifier")

    def zero(self):
        raise Unsupported("floating zero")

    def __getattr__(self, k):
        def f(*a, **kw):
            raise Unsupported("floating operation %s in a bit-level classifier" % k)
        return f
