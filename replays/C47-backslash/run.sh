#!/bin/bash
cd /tmp/replay/c47e; rm -rf src include
M=/repo/_build/mfront/src/mfront
$M -D 'P=C:\' --interface=c A.mfront; echo "run 1 (law A, -D 'P=C:\\'): exit $?"
$M --interface=c B.mfront; echo "run 2 (law B): exit $?"
echo "--- src/targets.lst mentions:"; grep -c "A.cxx" src/targets.lst | sed 's/^/A.cxx: /'; grep -c "B.cxx" src/targets.lst | sed 's/^/B.cxx: /'
grep -q "A.cxx" src/targets.lst && grep -q "B.cxx" src/targets.lst
