"""C07 — dense linear solvers: closed-form tiny solvers return true solutions
or report failure (exact identities + failure guard on the IR)."""
from common import *
from absint import lower_driver, Unsupported
from tensoralg import *
import poly as P

RULE = ("Poly-domain abstract interpretation with path forking of TinyMatrixSolve<1|2|3>::exe (vector and matrix right-hand "
        "sides): on every path returning true, M.x = b as a rational identity; the quantity whose absolute value is "
        "compared with eps IS det M, and the path on which |det M| < eps returns false leaving b untouched")


def detn(M):
    n = len(M)
    if n == 1:
        return M[0][0]
    if n == 2:
        return M[0][0] * M[1][1] - M[0][1] * M[1][0]
    return det3(M)


def run(tier):
    rep = Report("C07", tier, "other", RULE)
    rep.trusted += ["clang 14 code generation and -O2", "bin/ir2json, lib/absint.py, lib/poly.py"]
    for opt in ["-O2"] + (["-O1"] if tier == "thorough" else []):
        P.reset_registry()
        mod = lower_driver(os.path.join(VERIF, "drivers", "c07_solve.cxx"), os.path.join(OUT, "C07"), "c07" + opt, opt=opt)
        eps = Rat.var("eps")
        for N in (1, 2, 3):
            for kind, ncol in (("solve", 1), ("solvem", 2)):
                fname = "verif_%s_%d" % (kind, N)
                name = "TinyMatrixSolve<%d>::exe(%s rhs)" % (N, "vector" if ncol == 1 else "matrix")
                m = syms("m", N * N)
                b = syms("b", N * ncol)
                M = [m[i * N:(i + 1) * N] for i in range(N)]
                B = [b[i * ncol:(i + 1) * ncol] for i in range(N)]
                try:
                    res = run_shim(mod, fname, [m, b, [eps]], [N * ncol], max_paths=32)
                except Unsupported as e:
                    raise AnalysisBroken("%s: %s" % (fname, e))
                rep.count("solver instantiations interpreted (%s)" % opt)
                dM = detn(M)
                seen = set()
                for path, outs, trace, assum, ret, dom in res:
                    rep.count("paths explored")
                    x = outs[0]
                    # the comparison against eps on this path
                    cmps = [(i, d) for i, d in path if isinstance(i, tuple) and len(i) == 3 and isinstance(i[2], Rat) and i[2].equals(eps)]
                    if len(cmps) != 1:
                        rep.fail("GUARD@%s" % name, "%s: %d comparisons against eps on a path (expected 1)" % (name, len(cmps)))
                        continue
                    (pred, lhs, _), taken = cmps[0]
                    isdet = lhs.equals(dM) or lhs.equals(-dM)
                    if not isdet:
                        rep.fail("GUARD-QUANTITY@%s" % name,
                                 "%s: the quantity compared with eps is  %r  which is not +/- det M = %r: an exactly singular "
                                 "matrix may pass the guard" % (name, lhs, dM))
                        continue
                    small = taken if pred in ("olt", "ole", "ult", "ule") else (not taken)
                    seen.add((ret, small))
                    if small:
                        if ret == 0 and eq_list(x, b):
                            rep.ok("%s: |det M| < eps -> returns false, right-hand side untouched (%s)" % (name, opt), sample=(N == 3))
                        else:
                            rep.fail("SINGULAR-ACCEPTED@%s" % name, "%s: on the path |det M| < eps the solver returns %s and b = %s"
                                     % (name, ret, x))
                    else:
                        X = [x[i * ncol:(i + 1) * ncol] for i in range(N)]
                        lhsM = matmul(M, X)
                        want = B
                        d = first_diff([v for r in lhsM for v in r], [v for r in want for v in r])
                        if ret == 1 and d is None:
                            rep.ok("%s: returns true with M.x = b (%d equations, %s)" % (name, N * ncol, opt), sample=(N == 3))
                        else:
                            rep.fail("SOLUTION@%s" % name, "%s: returns %s but (M.x - b) component %s is %s instead of %s"
                                     % (name, ret, d and d[0], d and repr(d[1])[:200], d and repr(d[2])[:80]))
                if (1, False) not in seen or (0, True) not in seen:
                    rep.fail("OUTCOMES@%s" % name, "%s: outcomes seen %s; both 'true with a solution' and 'false on a small "
                             "determinant' must exist" % (name, sorted(seen)))
    rep.floor("solver instantiations interpreted (-O2)", 6)
    rep.floor("paths explored", 18)
    rep.assumptions += ["exact real arithmetic: residual size versus conditioning and the quality of the threshold are not decided",
                        "the generic LU path (N >= 4, LUSolve, QR) is not covered by this check"]
    return rep
