/* reference expansions of the wait-status macros (same headers, same flags) */
#include <sys/wait.h>
int verif_ref_WIFEXITED(int status) { return WIFEXITED(status); }
int verif_ref_WIFSIGNALED(int status) { return WIFSIGNALED(status); }
int verif_ref_WIFSTOPPED(int status) { return WIFSTOPPED(status); }
int verif_ref_WEXITSTATUS(int status) { return WEXITSTATUS(status); }
int verif_ref_WTERMSIG(int status) { return WTERMSIG(status); }
