"""Rules decided by abstract interpretation of LLVM IR over IEEE classes (lib/fcdomain.py), shared by C08 and C09.

 NORM-PROPAGATES (C08): the solvers accept an iterate only if the residual norm is finite and below the tolerance; that says something
   of the residual only if the norm is non-finite as soon as one component is.  For each instantiated solver, each component i and each
   non-finite class c in {nan, +inf, -inf}: with f(i) in c and the other components arbitrary, computeResidualNorm() returns a
   non-finite value on every path.
 SAME-SIGN-EXACT (C09): BissectionAlgorithmBase::haveSameSign(a, b) is exact on the classes that matter for bracketing: for finite
   non-zero or infinite a and b it returns true when the signs agree and false when they differ - on every path, with IEEE rounding
   (a product that underflows to -0 compares equal to 0)."""
import os, itertools
from common import *
from absint import *
import fcdomain as FC

DRIVER = os.path.join(VERIF, "drivers", "c08_norm.cxx")
NORMS = {"verif_resnorm_NR3": ("TinyNewtonRaphsonSolver<3>", 3), "verif_resnorm_NR2": ("TinyNewtonRaphsonSolver<2>", 2),
         "verif_resnorm_BR3": ("TinyBroydenSolver<3>", 3), "verif_resnorm_LM3": ("TinyLevenbergMarquardtSolver<3>", 3)}


def lower(pid, opt="-O2"):
    # -fno-inline keeps the calls of tfel::math::ieee754::{fpclassify,isfinite,isnan} visible: they are interpreted by their
    # specification on classes (that their bit-level bodies meet it is what C16 decides), everything else by its body
    mod = lower_driver(DRIVER, os.path.join(OUT, pid, "ieee"), "norm" + opt, opt=opt, extra=("-fno-inline",))
    return mod


FP_CODES = {FC.NAN: (0,), FC.PINF: (1,), FC.NINF: (1,), FC.ZERO: (2,), FC.POS: (4, 3), FC.NEG: (4, 3)}     # glibc FP_NAN .. FP_NORMAL, FP_SUBNORMAL


def _pick(m, what, v, options):
    options = sorted(set(options))
    for o in options[:-1]:
        if m.decide((what, v.key(), o)):
            return o
    return options[-1]


def _fpclassify(m, args):
    v = m.dom.nar([a for a in args if isinstance(a, FC.FV)][0])
    return _pick(m, "fpclassify", v, [c for k in v.cls for c in FP_CODES[k]])


def _isfinite(m, args):
    v = m.dom.nar([a for a in args if isinstance(a, FC.FV)][0])
    return int(_pick(m, "isfinite", v, [k not in FC.NONFINITE for k in v.cls]))


def _isnan(m, args):
    v = m.dom.nar([a for a in args if isinstance(a, FC.FV)][0])
    return int(_pick(m, "isnan", v, [k == FC.NAN for k in v.cls]))


SUMMARIES = {"ieee75410fpclassifyE": _fpclassify, "ieee7548isfiniteE": _isfinite, "ieee7545isnanE": _isnan}


def machine(mod):
    m = Machine(mod, FC.FClassDomain())
    m.summaries = SUMMARIES
    m.dom.m = m

    def hook(fname, ins, r):
        # every computed value is one run-time number: a tag per dynamic instance lets later comparisons narrow it (the count of
        # decided atoms and of earlier tags on the path makes the tag deterministic when the path is replayed)
        if isinstance(r, FC.FV) and r.tag is None:
            n = m.sign_facts.get("ntags", 0)
            m.sign_facts["ntags"] = n + 1
            return FC.FV(r.cls, ("v", n))
        return r
    m.value_hook = hook
    inner = m.call

    def call(fname, args):
        # when a function returns, what the path learnt of tagged values is applied to the values held in memory, so that the
        # snapshot explore() takes shows them narrowed (the facts themselves are per path and are gone afterwards)
        r = inner(fname, args)
        for cells in m.mem.values():
            for off, cell in list(cells.items()):
                if isinstance(cell, tuple) and len(cell) == 2 and isinstance(cell[0], FC.FV):
                    cells[off] = (m.dom.nar(cell[0]), cell[1])
        return m.dom.nar(r) if isinstance(r, FC.FV) else r
    m.call = call
    return m


def norm_rule(rep, opt="-O2"):
    mod = lower(rep.pid, opt)
    for shim, (what, n) in sorted(NORMS.items()):
        if shim not in mod["functions"]:
            raise AnalysisBroken("shim %s missing from the lowered driver" % shim)
        for i in range(n):
            for c in (FC.NAN, FC.PINF, FC.NINF):
                rep.count("norm obligations (component x non-finite class)")
                m = machine(mod)

                def make_args(mm):
                    v = mm.alloc("f")
                    for j in range(n):
                        mm.store(ptr(v, 8 * j), FC.FV({c}) if j == i else FC.FV(FC.ALL, "f%d" % j), 8)
                    return [ptr(v, 0)]
                try:
                    res = explore(m, shim, make_args, max_paths=256)
                except Unsupported as e:
                    raise AnalysisBroken("%s::computeResidualNorm (%s): outside the interpreted fragment: %s" % (what, opt, e))
                bad = [r for r in res if not isinstance(r[1], FC.FV) or not (r[1].cls <= FC.NONFINITE)]
                if bad:
                    path, ret = bad[0][0], bad[0][1]
                    rep.fail("NORM-PROPAGATES@%s#f(%d)=%s" % (what, i, c), "%s::computeResidualNorm() can return %s although component %d of the residual "
                             "is %s (path: %s): the finiteness test of the solver is made on the norm, so the iterate can be accepted with a "
                             "non-finite residual" % (what, ret, i, c, "; ".join("%s=%s" % (repr(a)[:80], d) for a, d in path) or "straight line"))
                else:
                    rep.ok("%s: norm non-finite when f(%d) is %s (%d paths)" % (what, i, c, len(res)), sample=(i == 0 and c == FC.NAN))
    rep.floor("norm obligations (component x non-finite class)", 30)
    # controls
    got = {}
    for shim in ("verif_ctl_badnorm", "verif_ctl_goodnorm"):
        bad = 0
        for i in range(3):
            for c in (FC.NAN, FC.PINF, FC.NINF):
                m = machine(mod)

                def make_args(mm):
                    v = mm.alloc("f")
                    for j in range(3):
                        mm.store(ptr(v, 8 * j), FC.FV({c}) if j == i else FC.FV(FC.ALL, "f%d" % j), 8)
                    return [ptr(v, 0)]
                try:
                    res = explore(m, shim, make_args, max_paths=512)
                except Unsupported as e:
                    raise AnalysisBroken("control %s: %s" % (shim, e))
                bad += any(not isinstance(r[1], FC.FV) or not (r[1].cls <= FC.NONFINITE) for r in res)
        got[shim] = bad
    if got["verif_ctl_badnorm"] != 2 or got["verif_ctl_goodnorm"] != 0:
        raise AnalysisBroken("NORM-PROPAGATES controls: %s (expected 2 reports for the NaN-ignoring maximum - NaN in components 1 and 2 - and none for the NaN-keeping one)" % got)


def same_sign_rule(rep, opt="-O2"):
    mod = lower(rep.pid, opt)
    shim = "verif_same_sign"
    if shim not in mod["functions"]:
        raise AnalysisBroken("shim %s missing from the lowered driver" % shim)
    cls = (FC.NINF, FC.NEG, FC.POS, FC.PINF)
    for a, b in itertools.product(cls, repeat=2):
        rep.count("sign-class pairs")
        m = machine(mod)
        try:
            res = explore(m, shim, lambda mm: [FC.FV({a}, "a"), FC.FV({b}, "b")], max_paths=64)
        except Unsupported as e:
            raise AnalysisBroken("haveSameSign: outside the interpreted fragment: %s" % e)
        want = (a in (FC.NINF, FC.NEG)) == (b in (FC.NINF, FC.NEG))
        outs = set()
        for path, ret, mem, trace, assum in res:
            if not isinstance(ret, int):
                raise AnalysisBroken("haveSameSign: return value %r not decided" % (ret,))
            outs.add(bool(ret & 1))
        if outs != {want}:
            rep.fail("SAME-SIGN-EXACT@haveSameSign(%s,%s)" % (a, b), "BissectionAlgorithmBase::haveSameSign can return %s for a %s and b %s (expected %s "
                     "only): with IEEE rounding the decision goes through an operation that can underflow or overflow, so a valid sign-changing "
                     "bracket is not recognised (or a same-sign pair is taken for a bracket)" % (sorted(outs), a, b, want))
        else:
            rep.ok("haveSameSign(%s, %s) = %s on every path" % (a, b, want), sample=(a == FC.NEG and b == FC.POS))
    rep.floor("sign-class pairs", 16)


def estimate_rule(rep, opt="-O2"):
    """ESTIMATE-NOT-NAN (C09): with a valid bracket (finite bounds, function values of opposite signs) getNextRootEstimate never returns
    true with a NaN in x, whatever the magnitudes (differences of finite values may overflow, their quotient may then be inf/inf)."""
    mod = lower(rep.pid, opt)
    shim = "verif_next_estimate"
    if shim not in mod["functions"]:
        raise AnalysisBroken("shim %s missing from the lowered driver" % shim)
    fin = (FC.NEG, FC.ZERO, FC.POS)
    for (fa, fb) in ((FC.NEG, FC.POS), (FC.POS, FC.NEG)):
        for xa, xb in ((a, b) for a in fin for b in fin if FC.ORDER[a] <= FC.ORDER[b]):
            rep.count("bracket class combinations")
            m = machine(mod)
            box = {}

            def make_args(mm):
                xp = mm.alloc("x")
                mm.store(ptr(xp, 0), FC.FV(FC.ALL, "x"), 8)
                box["x"] = xp
                return [ptr(xp, 0), FC.FV({xa}, "xmin"), FC.FV({xb}, "xmax"), FC.FV({fa}, "fmin"), FC.FV({fb}, "fmax")]
            try:
                res = explore(m, shim, make_args, max_paths=1024)
            except Unsupported as e:
                raise AnalysisBroken("getNextRootEstimate: outside the interpreted fragment: %s" % e)
            bad = None
            for path, ret, mem, trace, assum in res:
                if isinstance(ret, int) and ret & 1:
                    xv = mem[box["x"]].get(0)
                    if isinstance(xv, tuple) and len(xv) == 2 and isinstance(xv[1], int):
                        xv = xv[0]          # (value, size)
                    if not isinstance(xv, FC.FV) or FC.NAN in xv.cls:
                        bad = (path, xv)
                        break
            if bad:
                rep.fail("ESTIMATE-NOT-NAN@getNextRootEstimate#xmin=%s,xmax=%s,fmin=%s,fmax=%s" % (xa, xb, fa, fb),
                         "BissectionAlgorithmBase::getNextRootEstimate can return true with x = %s for a valid bracket (xmin %s, xmax %s, fmin %s, fmax %s): "
                         "the test that sends an estimate outside the bracket to the midpoint is false for a NaN, so the next evaluation is "
                         "made at a NaN although a sign-changing bracket is known (path: %s)"
                         % (bad[1], xa, xb, fa, fb, "; ".join("%s=%s" % (repr(a)[:60], d) for a, d in bad[0][-4:])))
            else:
                rep.ok("getNextRootEstimate: no NaN estimate for xmin %s, xmax %s, fmin %s, fmax %s (%d paths)" % (xa, xb, fa, fb, len(res)), sample=False)
    rep.floor("bracket class combinations", 12)
