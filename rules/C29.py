"""C29 — ThreadPool protocol rules (lock set, atomic hand-over, notification
discipline, guarded exit, wait() completeness structure, drain-then-stop,
exception capture)."""
import re
from common import *
from cfg import *
from lockset import *

RULE = ("LOCKSET(tasks,stop,statuses -> m incl. wait predicates); hand-over front/pop/WORKING in one critical "
        "section and only when the queue is known non-empty; task() outside the lock, IDLE after it under the lock; "
        "MUST-FOLLOW(write to a waited variable; notify on c; until wait/exit); worker return only under "
        "stop && tasks.empty(); every cv wait has a predicate; wait(): queue seen empty and each status seen IDLE "
        "before the index advances, no early exit; destructor: stop under m, notify_all, join all; addTask refuses "
        "after stop; Wrapper captures every exception into the result")

PROTECTED = ("tasks", "stop", "statuses")
TP = "tfel::system::ThreadPool"


def rel(loc):
    return loc.replace(REPO + "/", "")


def tp_atom(f, s):
    """atoms of the protocol predicates: stop, tasks.empty(), statuses[i]==IDLE."""
    n = f.stmts[s]
    if n["k"] == "MemberExpr" and n.get("member") == "stop" and n.get("fieldClass") == TP:
        return ("stop", False)
    if n["k"] == "CXXMemberCallExpr" and (n.get("callee") or "").endswith("::empty") and n.get("obj"):
        p = f.path(n["obj"]) or ""
        if p.endswith("tasks"):
            return ("empty", False)
    if n["k"] == "BinaryOperator" and n.get("op") in ("==", "!="):
        l, r = [f.strip(x) for x in f.kids(s)[:2]]
        for a, b in ((l, r), (r, l)):
            pa = f.path(a) or ""
            bn = f.stmts[b]
            if pa.endswith("statuses[]") and bn["k"] == "DeclRefExpr" and bn.get("name") == "IDLE":
                return ("idle", n["op"] == "!=")
    return None


def is_field(f, sid, names=PROTECTED):
    n = f.stmts[sid]
    return n["k"] == "MemberExpr" and n.get("fieldClass") == TP and n.get("member") in names


def cv_call(f, sid):
    n = f.stmts[sid]
    if n["k"] == "CXXMemberCallExpr" and (n.get("calleeClass") or "").startswith("std::condition_variable"):
        return (n.get("callee") or "").rsplit("::", 1)[-1]
    return None


def wait_unguarded(f, sid):
    """a cv wait without predicate that is not re-tested by an enclosing loop."""
    if len(f.stmts[sid]["args"]) >= 2:
        return False
    pm = f.parent_map()
    p = sid
    while p in pm:
        p = pm[p]
        if f.stmts[p]["k"] in ("WhileStmt", "DoStmt", "ForStmt"):
            return False
    return True


def queue_call(f, sid):
    n = f.stmts[sid]
    if n["k"] == "CXXMemberCallExpr" and n.get("obj"):
        p = f.path(n["obj"]) or ""
        if p.endswith("tasks"):
            return (n.get("callee") or "").rsplit("::", 1)[-1]
    return None


def status_write(f, sid, bind=None):
    n = f.stmts[sid]
    if n["k"] == "BinaryOperator" and n.get("op") == "=":
        l, r = f.kids(sid)[:2]
        if (f.path(l) or "").endswith("statuses[]"):
            rn = f.stmts[f.strip(r)]
            if rn["k"] == "DeclRefExpr":
                if bind and rn.get("declId") in bind:
                    return bind[rn["declId"]]
                return rn.get("name")
            return "?"
    return None


def stop_write(f, sid):
    n = f.stmts[sid]
    if n["k"] == "BinaryOperator" and n.get("op") == "=":
        l, r = f.kids(sid)[:2]
        ln = f.stmts[f.strip(l)]
        if ln["k"] == "MemberExpr" and ln.get("member") == "stop" and ln.get("fieldClass") == TP:
            return True
    return False


def task_call(f, sid):
    n = f.stmts[sid]
    if n["k"] == "CXXOperatorCallExpr" and n.get("op") == "()" and n.get("args"):
        a = f.stmts[f.strip(n["args"][0])]
        return a["k"] == "DeclRefExpr" and "std::function<void" in (a.get("declType") or "")
    return False


def run(tier):
    rep = Report("C29", tier, "other", RULE)
    drv = os.path.join(VERIF, "drivers", "threadpool_driver.cxx")
    units = [os.path.join(REPO, "src/System/ThreadPool.cxx"),
             os.path.join(REPO, "tfel-check/src/tfel-check.cxx"), drv]
    dumps = cfgdump(units, os.path.join(OUT, "C29", "dump"), funcs=r"^tfel::system::ThreadPool", root=REPO,
                    flags_for=lambda u: (header_flags(), VERIF) if u == drv else clang_flags(u))
    funcs = load_functions(dumps)
    kids = children_of(funcs)
    rep.count("functions analysed", len(funcs))

    def one(q, pred=lambda f: True):
        r = [f for f in funcs if f.qname == q and f.parent is None and pred(f)]
        if not r:
            raise AnalysisBroken("anchor function %s not found" % q)
        return r[0]
    ctor = one(TP + "::ThreadPool")
    waitf = one(TP + "::wait")
    dtor = one(TP + "::~ThreadPool")
    addtasks = [f for f in funcs if f.qname == TP + "::addTask" and f.parent is None]
    if not addtasks:
        raise AnalysisBroken("no instantiation of ThreadPool::addTask in tfel-check.cxx")
    workers = [g for g in kids[(ctor.unit, ctor.id)] if len(g.blocks) > 6]
    if len(workers) != 1:
        raise AnalysisBroken("worker lambda not identified")
    worker = workers[0]

    # role of every lambda: predicate of a cv wait (inherits the lock) or thread/task body
    def lambda_roles(parent):
        roles = {}
        g = guard_decls(parent)
        for sid, n in parent.stmts.items():
            if cv_call(parent, sid) == "wait":
                for a in n["args"]:
                    for x in parent.walk(a):
                        if parent.stmts[x]["k"] == "LambdaExpr":
                            ga = parent.stmts[parent.strip(n["args"][0])]
                            roles[parent.stmts[x]["lambdaOp"]] = frozenset(
                                {(g.get(ga.get("declId"), "?"), "inherited")})
        return roles

    # ---------------- R1 lock set
    def lockset_check(f, entry_held, exempt_before=None):
        g = guard_decls(f)
        step = lock_transfer(f, g)
        roles = lambda_roles(f)
        started = [False]

        def elem_fn(st, b, i, e):
            held, thr = st
            held2 = step(held, e)
            if "s" in e:
                sid = e["s"]
                n = f.stmts[sid]
                if exempt_before and n["k"] == "CXXMemberCallExpr" and exempt_before(f, sid):
                    thr = True
                if is_field(f, sid):
                    rep.count("accesses to tasks/stop/statuses")
                    if "m" not in held_mutexes(held) and not (exempt_before and not thr):
                        rep.fail("LOCKSET@%s#%s" % (f.qname if f.parent is None else "worker/predicate of " + top(f).qname, n["member"]),
                                 "%s: %s is accessed without holding m in %s" % (rel(f.short_loc(sid)), n["member"], f.qname))
                    else:
                        rep.ok("%s: access to %s under m" % (rel(f.short_loc(sid)), n["member"]), sample=False)
            return ((held2, thr),)
        forward(f, [(entry_held, False)], elem_fn)
        for g2 in kids[(f.unit, f.id)]:
            lockset_check(g2, roles.get(g2.id, frozenset()))

    def top(f):
        while f.parent is not None:
            f = [x for x in funcs if x.unit == f.unit and x.id == f.parent][0]
        return f

    def thread_started(f, sid):
        n = f.stmts[sid]
        return (n.get("callee") or "").endswith("emplace_back") and (f.path(n.get("obj")) or "").endswith("workers")
    lockset_check(ctor, frozenset(), exempt_before=thread_started)
    lockset_check(waitf, frozenset())
    lockset_check(dtor, frozenset())
    for a in addtasks:
        lockset_check(a, frozenset())

    # ---------------- R2..R6 worker protocol
    def flow(f, init_states, bind):
      g = guard_decls(f)
      step = lock_transfer(f, g)
      helpers = {h.id: h for h in kids[(f.unit, f.id)]}

      def w_elem(st, b, i, e):
          held, facts, stage, pending = st
          facts = dict(facts)
          held2 = step(held, e)
          if "m" in held_mutexes(held) and "m" not in held_mutexes(held2):
              facts = {}
              if stage in (1, 2):
                  rep.fail("HANDOVER-NOT-ATOMIC@worker", "%s: m is released between tasks.front()/pop() and "
                           "statuses[i] = WORKING: wait() may see an empty queue and all-idle statuses while a task "
                           "is in flight" % rel(f.loc))
          if "s" in e:
              sid = e["s"]
              n = f.stmts[sid]
              q = queue_call(f, sid)
              cv = cv_call(f, sid)
              sw = status_write(f, sid, bind)
              if n["k"] == "CXXOperatorCallExpr" and n.get("op") == "()" and n.get("calleeId") in helpers:
                  # a local helper closure: its effects are those of its own body (inlined)
                  h = helpers[n["calleeId"]]
                  b2 = dict(bind)
                  for prm, a in zip(h.params, n["args"][1:]):
                      an = f.stmts[f.strip(a)]
                      if an["k"] == "DeclRefExpr":
                          b2[prm["declId"]] = bind.get(an.get("declId"), an.get("name"))
                  outs = flow(h, [(held, tuple(sorted(facts.items())), stage, pending)], b2)
                  return tuple(outs)
              if n["k"] == "DeclStmt" and any("std::function<void" in (d.get("type") or "") for d in n["decls"]):
                  if stage not in (0, 5):
                      rep.fail("IDLE-NOT-RESTORED@worker", "%s: a new iteration starts while the worker status was not "
                               "set back to IDLE after task()" % rel(f.short_loc(sid)))
                  stage = 0
              if q in ("front", "pop"):
                  rep.count("queue hand-over operations")
                  if facts.get("empty") is not False or "m" not in held_mutexes(held):
                      rep.fail("QUEUE-%s-UNGUARDED@worker" % q.upper(),
                               "%s: tasks.%s() is reached on a path where the queue is not known to be non-empty "
                               "under m" % (rel(f.short_loc(sid)), q))
                  else:
                      rep.ok("%s: tasks.%s() only when !tasks.empty() holds under m" % (rel(f.short_loc(sid)), q))
                  if q == "front":
                      stage = 1
                  else:
                      if stage != 1:
                          rep.fail("POP-WITHOUT-FRONT@worker", "%s: tasks.pop() without taking tasks.front() first: "
                                   "a task is dropped" % rel(f.short_loc(sid)))
                      stage = 2
                      facts.pop("empty", None)
                      pending = pending | {"pop"}
              if q in ("emplace", "push"):
                  facts.pop("empty", None)
                  pending = pending | {"emplace"}
              if sw == "WORKING":
                  if stage != 2:
                      rep.fail("WORKING-ORDER@worker", "%s: statuses[i] = WORKING not directly after front()/pop() in the "
                               "same critical section" % rel(f.short_loc(sid)))
                  stage = 3
                  pending = pending | {"status"}
              if sw == "IDLE":
                  if stage != 4:
                      rep.fail("IDLE-ORDER@worker", "%s: statuses[i] = IDLE is not preceded by the task call" % rel(f.short_loc(sid)))
                  if "m" not in held_mutexes(held):
                      pass  # reported by LOCKSET
                  stage = 5
                  pending = pending | {"status"}
              if cv in ("notify_all",):
                  pending = frozenset()
              if cv == "notify_one":
                  if pending - {"emplace"}:
                      rep.fail("NOTIFY-ONE@worker", "%s: notify_one after %s: waiters with different predicates share c"
                               % (rel(f.short_loc(sid)), sorted(pending)))
                  pending = frozenset()
              if cv == "wait":
                  rep.count("condition-variable waits")
                  if wait_unguarded(f, sid):
                      rep.fail("WAIT-WITHOUT-PREDICATE@%s" % f.qname, "%s: c.wait without predicate and outside any loop" % rel(f.short_loc(sid)))
                  if pending:
                      rep.fail("MISSING-NOTIFY@worker", "%s: blocks on c after writing %s without notifying"
                               % (rel(f.short_loc(sid)), sorted(pending)))
                  facts = {}
              if task_call(f, sid):
                  rep.count("task invocations")
                  if held_mutexes(held):
                      rep.fail("TASK-UNDER-LOCK@worker", "%s: the task is run while m is held: no other worker can "
                               "dequeue and wait() cannot observe progress" % rel(f.short_loc(sid)))
                  elif stage != 3:
                      rep.fail("TASK-ORDER@worker", "%s: task() is reached without the front/pop/WORKING hand-over"
                               % rel(f.short_loc(sid)))
                  else:
                      rep.ok("%s: task() runs outside m after the atomic hand-over" % rel(f.short_loc(sid)))
                  if pending:
                      rep.fail("MISSING-NOTIFY@worker", "%s: task starts after writing %s without notifying"
                               % (rel(f.short_loc(sid)), sorted(pending)))
                  stage = 4
              if n["k"] == "ReturnStmt":
                  rep.count("worker exits")
                  if facts.get("stop") is True and facts.get("empty") is True and "m" in held_mutexes(held):
                      rep.ok("%s: the worker returns only when stop && tasks.empty() holds under m (drain-then-stop)"
                             % rel(f.short_loc(sid)))
                  else:
                      rep.fail("WORKER-EXIT-UNGUARDED@worker", "%s: the worker can return with facts %s: queued tasks may "
                               "never run" % (rel(f.short_loc(sid)), facts))
                  if stage in (1, 2, 3, 4):
                      rep.fail("WORKER-EXIT-MIDTASK@worker", "%s: return in the middle of a hand-over" % rel(f.short_loc(sid)))
          return ((held2, tuple(sorted(facts.items())), stage, pending),)

      def w_edge(st, b, succ, pol):
          held, facts, stage, pending = st
          fx = branch(f, b, pol, dict(facts), tp_atom)
          if fx is None:
              return ()
          return ((held, tuple(sorted(fx.items())), stage, pending),)
      IN_, OUT_ = forward(f, init_states, w_elem, w_edge)
      return IN_.get(f.exit, set())
    flow(worker, [(frozenset(), (), 0, frozenset())], {})

    # ---------------- R5 notification in addTask / destructor ; R8
    byid_ = {(f_.unit, f_.id): f_ for f_ in funcs}
    waiters = set()
    for f_ in funcs:
        if any(cv_call(f_, s_) == "wait" for s_ in f_.stmts):
            t_ = f_
            while t_.parent is not None and (t_.unit, t_.parent) in byid_:
                t_ = byid_[(t_.unit, t_.parent)]
            waiters.add(t_.qname.replace("tfel::system::", ""))
    heterogeneous = len(waiters) >= 2
    rep.count("functions waiting on the condition variable", len(waiters))

    def notify_rule(f, label):
        g = guard_decls(f)
        step = lock_transfer(f, g)

        def el(st, b, i, e):
            held, pending, stopped_checked = st
            held2 = step(held, e)
            if "s" in e:
                sid = e["s"]
                q = queue_call(f, sid)
                cv = cv_call(f, sid)
                if q in ("emplace", "push"):
                    rep.count("enqueue operations")
                    pending = pending | {"emplace"}
                    if not stopped_checked:
                        rep.fail("ENQUEUE-AFTER-STOP@%s" % label, "%s: a task can be enqueued without testing stop under m: "
                                 "it may never run" % rel(f.short_loc(sid)))
                if stop_write(f, sid):
                    pending = pending | {"stop"}
                if cv == "notify_all":
                    pending = frozenset()
                if cv == "notify_one":
                    # one wake-up is enough for one new task only if every waiter on c is a worker; here wait() sleeps on the same
                    # condition variable with other predicates, so the single wake-up can be consumed by a waiter that goes back to
                    # sleep while every worker stays asleep: the task never runs
                    if pending - {"emplace"} or (pending and heterogeneous):
                        rep.fail("NOTIFY-ONE@%s" % label, "%s: notify_one after %s although %d functions wait on the same condition variable with "
                                 "different predicates (%s): the wake-up can be consumed by a waiter that is not concerned, and the task never runs"
                                 % (rel(f.short_loc(sid)), sorted(pending), len(waiters), ", ".join(sorted(waiters))))
                    pending = frozenset()
                n = f.stmts[sid]
                if n["k"] == "ReturnStmt" and pending:
                    rep.fail("MISSING-NOTIFY@%s" % label, "%s: returns after writing %s without notifying c"
                             % (rel(f.short_loc(sid)), sorted(pending)))
                if n["k"] == "CXXMemberCallExpr" and (n.get("callee") or "").endswith("::join") and pending:
                    rep.fail("MISSING-NOTIFY@%s" % label, "%s: joins workers after writing %s without notify_all"
                             % (rel(f.short_loc(sid)), sorted(pending)))
            return ((held2, pending, stopped_checked),)

        def ed(st, b, succ, pol):
            held, pending, sc = st
            if pol is not None and b.cond is not None:
                a = tp_atom(f, f.strip(b.cond))
                if a and a[0] == "stop":
                    val = (pol != a[1])
                    if val is False and "m" in held_mutexes(held):
                        sc = True
            return ((held, pending, sc),)
        IN, _O = forward(f, [(frozenset(), frozenset(), False)], el, ed)
        for st in IN.get(f.exit, ()):
            if st[1]:
                rep.fail("MISSING-NOTIFY@%s" % label, "%s: exits after writing %s without notifying c" % (rel(f.loc), sorted(st[1])))
    for a in addtasks:
        notify_rule(a, "ThreadPool::addTask")
        # the stop test must lead to a throw
        thr = [s for s, n in a.stmts.items() if n["k"] == "CXXThrowExpr"]
        if thr:
            rep.ok("addTask throws when the pool is stopped (%s)" % rel(a.short_loc(thr[0])))
        else:
            rep.fail("ENQUEUE-AFTER-STOP@ThreadPool::addTask#nothrow", "addTask has no failure arm for a stopped pool")
    notify_rule(dtor, "ThreadPool::~ThreadPool")
    # destructor: stop = true under m; joins every worker
    g = guard_decls(dtor)
    step = lock_transfer(dtor, g)
    okstop = []

    def del_(st, b, i, e):
        if "s" in e and stop_write(dtor, e["s"]):
            okstop.append("m" in held_mutexes(st))
        return (step(st, e),)
    forward(dtor, [frozenset()], del_)
    if okstop and all(okstop):
        rep.ok("~ThreadPool sets stop under m")
    else:
        rep.fail("STOP-WRITE@ThreadPool::~ThreadPool", "~ThreadPool does not set stop = true under m")
    joins = [s for s, n in dtor.stmts.items() if n["k"] == "CXXMemberCallExpr" and (n.get("callee") or "").endswith("thread::join")]
    loops = [n for n in dtor.stmts.values() if n["k"] == "CXXForRangeStmt" and "workers" in (dtor.path(n.get("rangeInit")) or "")]
    if joins and loops and not any(n["k"] in ("BreakStmt", "ReturnStmt", "ContinueStmt") for n in dtor.stmts.values()):
        rep.ok("~ThreadPool joins every element of workers (range-for without early exit)")
    else:
        rep.fail("JOIN-ALL@ThreadPool::~ThreadPool", "~ThreadPool does not join every worker")

    # ---------------- R7 wait()
    f = waitf
    g = guard_decls(f)
    step = lock_transfer(f, g)
    if any(n["k"] in ("BreakStmt", "ReturnStmt", "GotoStmt", "ContinueStmt") for n in f.stmts.values()):
        rep.fail("WAIT-EARLY-EXIT@ThreadPool::wait", "wait() contains an early exit (break/return/continue)")
    idx = {}
    for n in f.stmts.values():
        if n["k"] == "ForStmt":
            rep.count("status loops in wait()")

    def wt_el(st, b, i, e):
        held, facts, seen_empty, idle_seen = st
        facts = dict(facts)
        held2 = step(held, e)
        if "s" in e:
            sid = e["s"]
            n = f.stmts[sid]
            cv = cv_call(f, sid)
            if cv == "wait":
                rep.count("condition-variable waits")
                if wait_unguarded(f, sid):
                    rep.fail("WAIT-WITHOUT-PREDICATE@ThreadPool::wait", "%s: c.wait without predicate and outside any loop" % rel(f.short_loc(sid)))
                facts = {}
            if n["k"] == "UnaryOperator" and n.get("op") in ("++", "--"):
                if not idle_seen:
                    rep.fail("STATUS-SKIPPED@ThreadPool::wait", "%s: the index advances although statuses[i] was not "
                             "seen IDLE: wait() can return while a worker is running" % rel(f.short_loc(sid)))
                idle_seen = False
                facts.pop("idle", None)
        return ((held2, tuple(sorted(facts.items())), seen_empty, idle_seen),)

    def wt_ed(st, b, succ, pol):
        held, facts, seen_empty, idle_seen = st
        fx = branch(f, b, pol, dict(facts), tp_atom)
        if fx is None:
            return ()
        if "m" in held_mutexes(held):
            if fx.get("empty") is True:
                seen_empty = True
            if fx.get("idle") is True:
                idle_seen = True
        return ((held, tuple(sorted(fx.items())), seen_empty, idle_seen),)
    IN, _O = forward(f, [(frozenset(), (), False, False)], wt_el, wt_ed)
    ex = IN.get(f.exit, set())
    if not ex:
        raise AnalysisBroken("wait() has no reachable exit")
    if all(st[2] for st in ex):
        rep.ok("wait(): every path to the exit passes tasks.empty() == true under m")
    else:
        rep.fail("QUEUE-NOT-DRAINED@ThreadPool::wait", "wait() can return on a path where the queue was never seen empty")
    # the status loop covers 0 .. statuses.size()
    fors = [(s, n) for s, n in f.stmts.items() if n["k"] == "ForStmt"]
    okfor = False
    for s, n in fors:
        ks = f.kids(s)
        txt = " ".join(f.text(k) for k in ks[:3] if k)
        if re.search(r"\(i (!=|<) this->statuses\.size\(\)\)", txt):
            init = [d for k in ks if f.stmts[k]["k"] == "DeclStmt" for d in f.stmts[k]["decls"]]
            if init and f.stmts[f.strip(init[0]["init"])].get("value") == 0:
                okfor = True
    if okfor:
        rep.ok("wait(): the status loop runs i = 0 .. statuses.size() and advances only after statuses[i] == IDLE")
    else:
        rep.fail("STATUS-RANGE@ThreadPool::wait", "wait() does not visit every index of statuses from 0 to size()")

    # ---------------- R9 exception capture in the wrappers
    exes = [f for f in funcs if re.search(r"::(Get<.*>|GetVoid)::exe$", f.display) or f.qname.endswith("::exe")]
    for f in exes:
        rep.count("wrapper exe instantiations")
        trys = [(s, n) for s, n in f.stmts.items() if n["k"] == "CXXTryStmt"]
        good = False
        for s, n in trys:
            calls_task = any(f.stmts[x]["k"] == "CXXOperatorCallExpr" and f.stmts[x].get("op") == "()" for x in f.walk(n["try"]))
            catchall = [h for h in n["handlers"] if f.stmts[h].get("catchType") == "..."]
            stores = any((f.stmts[x].get("callee") or "").endswith("setException") for h in catchall for x in f.walk(h))
            if calls_task and catchall and stores:
                good = True
        outside = [x for x, n in f.stmts.items() if n["k"] == "CXXOperatorCallExpr" and n.get("op") == "()"
                   and not any(x in set(f.walk(n2["try"])) for _, n2 in trys)]
        if good and not outside:
            rep.ok("%s: the task runs inside try{} with catch(...) -> setException(current_exception)" % f.display[:80])
        else:
            rep.fail("EXCEPTION-NOT-CAPTURED@ThreadPool::Wrapper::exe",
                     "%s: a task exception can escape the wrapper: the future never becomes ready" % rel(f.loc))
    rep.floor("accesses to tasks/stop/statuses", 18)
    rep.floor("queue hand-over operations", 2)
    rep.floor("task invocations", 1)
    rep.floor("worker exits", 1)
    rep.floor("condition-variable waits", 3)
    rep.floor("enqueue operations", 1)
    rep.floor("wrapper exe instantiations", 3)
    rep.assumptions += [
        "the step from these protocol rules to 'every task runs exactly once, wait() is complete' is the standard "
        "monitor argument (DESIGN.md C29); it is not machine-checked here",
        "std::mutex / condition_variable / packaged_task behave as specified; c.wait(lock, pred) releases m while blocked",
        "instantiations of addTask/Wrapper: tfel-check.cxx plus drivers/threadpool_driver.cxx (value and void tasks)"]
    return rep
