/*
 * Demonstration for property C30: ProcessManager::execute() succeeds exactly
 * when the child exited with status 0, and reports a signal death as such,
 * whatever the relative order of child exit, SIGCHLD handler and wait().
 *
 * Scenario: two ProcessManager objects are alive in the same process (what
 * tfel-check does when several worker threads run @Command's at once). One of
 * them runs a command through execute() in a worker thread. The schedule
 * "the waiting thread is descheduled just before it enters the blocking
 * waitpid, the SIGCHLD handlers run first" is forced by interposing waitpid():
 * a *blocking* waitpid (options == 0, the one of ProcessManager::wait) is
 * delayed by 300 ms. WNOHANG calls (the ones of the SIGCHLD handler) are not
 * touched.
 *
 * usage: demo            -> forced schedule, two managers, deterministic
 *        demo single     -> same forced schedule with a single manager
 *        demo stress N   -> no interposition delay, N threads x 200 commands
 */
#include <atomic>
#include <cerrno>
#include <memory>
#include <cstdio>
#include <cstdlib>
#include <cstring>
#include <iostream>
#include <string>
#include <thread>
#include <vector>
#include <ctime>
#include <unistd.h>
#include <sys/syscall.h>
#include <sys/types.h>
#include <sys/resource.h>
#include <sys/wait.h>
#include "TFEL/System/ProcessManager.hxx"

static std::atomic<bool> delay_blocking_wait{false};

// interposed: the definition of the executable is found first by the dynamic
// linker when libTFELSystem.so calls waitpid.
extern "C" pid_t waitpid(pid_t pid, int* status, int options) {
  if ((options == 0) && (delay_blocking_wait.load())) {
    // the waiting thread is "descheduled" for 300ms
    struct timespec ts = {0, 300000000L};
    struct timespec rem;
    while ((nanosleep(&ts, &rem) == -1) && (errno == EINTR)) {
      ts = rem;
    }
  }
  return static_cast<pid_t>(syscall(SYS_wait4, pid, status, options, nullptr));
}

enum Outcome { SUCCESS, EXIT_VALUE, SIGNAL, OTHER };

static const char* name(const Outcome o) {
  switch (o) {
    case SUCCESS:
      return "success";
    case EXIT_VALUE:
      return "non-zero exit value";
    case SIGNAL:
      return "death by signal";
    default:
      return "other error";
  }
}

static Outcome run(tfel::system::ProcessManager& m,
                   const std::string& cmd,
                   std::string& what) {
  try {
    m.execute(cmd);
  } catch (std::exception& e) {
    what = e.what();
    if (what.find("exited abnormally with value") != std::string::npos) {
      return EXIT_VALUE;
    }
    if (what.find("exited du to a signal") != std::string::npos) {
      return SIGNAL;
    }
    return OTHER;
  }
  what.clear();
  return SUCCESS;
}

static int forced(const std::string& helper, const bool two_managers) {
  using tfel::system::ProcessManager;
  struct Case {
    std::string cmd;
    Outcome expected;
  };
  const std::vector<Case> cases = {{"/bin/true", SUCCESS},
                                   {"/bin/false", EXIT_VALUE},
                                   {helper + " exit 3", EXIT_VALUE},
                                   {helper + " kill 9", SIGNAL},
                                   {helper + " kill 11", SIGNAL},
                                   {"/bin/true", SUCCESS}};
  int failures = 0;
  // `first` is registered before `second`: its SIGCHLD handler runs first.
  // It never runs any command of its own.
  std::unique_ptr<ProcessManager> first;
  if (two_managers) {
    first = std::make_unique<ProcessManager>();
  }
  ProcessManager second;
  delay_blocking_wait = true;
  for (const auto& c : cases) {
    Outcome o = OTHER;
    std::string what;
    std::thread t([&] { o = run(second, c.cmd, what); });
    t.join();
    const bool ok = (o == c.expected);
    std::cout << (ok ? "  ok   " : "  BAD  ") << "'" << c.cmd
              << "': expected " << name(c.expected) << ", execute() reported "
              << name(o);
    if (!what.empty()) {
      std::cout << " [" << what << "]";
    }
    std::cout << std::endl;
    if (!ok) {
      ++failures;
    }
  }
  delay_blocking_wait = false;
  return failures;
}

static int stress(const int nthreads) {
  using tfel::system::ProcessManager;
  std::atomic<int> failures{0};
  std::vector<std::unique_ptr<ProcessManager>> managers;
  for (int i = 0; i != nthreads; ++i) {
    managers.push_back(std::make_unique<ProcessManager>());
  }
  std::vector<std::thread> threads;
  for (int i = 0; i != nthreads; ++i) {
    threads.emplace_back([&, i] {
      for (int j = 0; j != 200; ++j) {
        std::string what;
        if (run(*(managers[i]), "/bin/true", what) != SUCCESS) {
          ++failures;
        }
      }
    });
  }
  for (auto& t : threads) {
    t.join();
  }
  std::cout << "  stress: " << nthreads << " threads x 200 '/bin/true': "
            << failures.load() << " wrong reports" << std::endl;
  return failures.load();
}

int main(const int argc, const char* const* const argv) {
  const std::string self = argv[0];
  if ((argc == 3) && (std::strcmp(argv[1], "exit") == 0)) {
    _exit(std::atoi(argv[2]));
  }
  if ((argc == 3) && (std::strcmp(argv[1], "kill") == 0)) {
    struct rlimit nocore = {0, 0};
    setrlimit(RLIMIT_CORE, &nocore);
    signal(std::atoi(argv[2]), SIG_DFL);
    kill(getpid(), std::atoi(argv[2]));
    pause();
    _exit(0);
  }
  int failures = 0;
  if ((argc == 3) && (std::strcmp(argv[1], "stress") == 0)) {
    failures = stress(std::atoi(argv[2]));
  } else if ((argc == 2) && (std::strcmp(argv[1], "single") == 0)) {
    failures = forced(self, false);
  } else {
    failures = forced(self, true);
  }
  if (failures != 0) {
    std::cout << "FAIL" << std::endl;
    return EXIT_FAILURE;
  }
  std::cout << "PASS" << std::endl;
  return EXIT_SUCCESS;
}
