/*
 * Reproducer: LogarithmicStrainHandler<3u>::convertToMaterialTangentModuli
 * versus the derivative of the converted stress when exactly two eigenvalues
 * of C coincide and the dual stress T is not coaxial with C.
 *
 * Law in the logarithmic space: T = K : E_log, K major-symmetric, without
 * any material symmetry.
 * S(C) = convertToSecondPiolaKirchhoffStress(T(E_log(C))) (Lagrangian
 * setting, handler built on U = sqrt(C)).
 * dS/dE_GL is computed by central finite differences over the 6 symmetric
 * perturbations of C (dC = 2 dE_GL), for several steps, and compared with
 * convertToMaterialTangentModuli(K, T) evaluated at the unperturbed state.
 */
#include <cmath>
#include <cstdio>
#include <cstdlib>
#include <string>
#include <vector>
#include "TFEL/Math/tensor.hxx"
#include "TFEL/Math/stensor.hxx"
#include "TFEL/Math/st2tost2.hxx"
#include "TFEL/Material/LogarithmicStrainHandler.hxx"

using Real = double;
using Stensor = tfel::math::stensor<3u, Real>;
using Tensor = tfel::math::tensor<3u, Real>;
using ST2toST2 = tfel::math::st2tost2<3u, Real>;
using LSHandler = tfel::material::LogarithmicStrainHandler<3u, Real>;

static ST2toST2 stiffness() {
  ST2toST2 K;
  for (unsigned short i = 0; i != 6; ++i) {
    for (unsigned short j = 0; j != 6; ++j) {
      if (i == j) {
        K(i, j) = 200 + 17 * i;
      } else {
        const auto a = (i < j) ? i : j;
        const auto b = (i < j) ? j : i;
        K(i, j) = 11 + 7 * a - 5 * b + 3 * ((a * b) % 4);
      }
    }
  }
  return K;
}

static Tensor toTensor(const Stensor& U) {
  constexpr auto icste = tfel::math::Cste<Real>::isqrt2;
  Tensor F(Real(0));
  F[0] = U[0];
  F[1] = U[1];
  F[2] = U[2];
  F[3] = F[4] = U[3] * icste;
  F[5] = F[6] = U[4] * icste;
  F[7] = F[8] = U[5] * icste;
  return F;
}

// U = sqrt(C)
static Tensor stretch(const Stensor& C) {
  auto [vp, m] =
      C.template computeEigenVectors<Stensor::FSESJACOBIEIGENSOLVER>();
  const Stensor U = Stensor::computeIsotropicFunction(
      [](const Real x) { return std::sqrt(x); }, vp, m);
  return toTensor(U);
}

static Stensor pk2(const ST2toST2& K, const Stensor& C) {
  const LSHandler h(LSHandler::LAGRANGIAN, stretch(C));
  const Stensor T = K * h.getHenckyLogarithmicStrain();
  return h.convertToSecondPiolaKirchhoffStress(T);
}

// R diag(l) R^T with R = Rz(a) Ry(b) Rx(c)
static Stensor rotatedC(const Real l0,
                        const Real l1,
                        const Real l2,
                        const Real a,
                        const Real b,
                        const Real c) {
  const Real ca = std::cos(a), sa = std::sin(a);
  const Real cb = std::cos(b), sb = std::sin(b);
  const Real cc = std::cos(c), sc = std::sin(c);
  tfel::math::tmatrix<3u, 3u, Real> m;
  m(0, 0) = ca * cb;
  m(0, 1) = ca * sb * sc - sa * cc;
  m(0, 2) = ca * sb * cc + sa * sc;
  m(1, 0) = sa * cb;
  m(1, 1) = sa * sb * sc + ca * cc;
  m(1, 2) = sa * sb * cc - ca * sc;
  m(2, 0) = -sb;
  m(2, 1) = cb * sc;
  m(2, 2) = cb * cc;
  const tfel::math::tvector<3u, Real> vp = {l0, l1, l2};
  return Stensor::computeIsotropicFunction(vp, m);
}

struct State {
  std::string name;
  Stensor C;
  bool degenerate;
};

static bool check(const State& s, const ST2toST2& K) {
  const LSHandler h(LSHandler::LAGRANGIAN, stretch(s.C));
  const Stensor T = K * h.getHenckyLogarithmicStrain();
  const ST2toST2 D = h.convertToMaterialTangentModuli(K, T);
  {
    auto [vp, m] =
        s.C.template computeEigenVectors<Stensor::FSESJACOBIEIGENSOLVER>();
    static_cast<void>(m);
    std::printf("%s\n  eigenvalues of C: %.17g %.17g %.17g\n", s.name.c_str(),
                vp[0], vp[1], vp[2]);
    std::printf("  T = [%g %g %g %g %g %g]\n", T[0], T[1], T[2], T[3], T[4],
                T[5]);
  }
  bool ok = true;
  for (const Real eps : {1e-4, 1e-5, 1e-6}) {
    Real aerr = 0;
    Real ref = 0;
    unsigned short wi = 0, wk = 0;
    Real wa = 0, wn = 0;
    for (unsigned short k = 0; k != 6; ++k) {
      Stensor dE(Real(0));
      dE[k] = 1;
      const Stensor Cp = s.C + 2 * eps * dE;
      const Stensor Cm = s.C - 2 * eps * dE;
      const Stensor dS = (pk2(K, Cp) - pk2(K, Cm)) / (2 * eps);
      for (unsigned short i = 0; i != 6; ++i) {
        const auto e = std::abs(D(i, k) - dS[i]);
        if (e > aerr) {
          aerr = e;
          wi = i;
          wk = k;
          wa = D(i, k);
          wn = dS[i];
        }
        ref = std::max(ref, std::abs(dS[i]));
      }
    }
    const auto rerr = aerr / ref;
    const bool lok = std::isfinite(rerr) && (rerr < 1e-5);
    std::printf(
        "  step %g: worst abs. error %.6e, rel. to largest modulus %.6e, at "
        "D(%d,%d): handler %.8f, finite differences %.8f  %s\n",
        eps, aerr, rerr, int(wi), int(wk), wa, wn, lok ? "ok" : "KO");
    ok = ok && lok;
  }
  return ok;
}

int main() {
  const auto K = stiffness();
  auto diag = [](const Real a, const Real b, const Real c) {
    Stensor C(Real(0));
    C[0] = a * a;
    C[1] = b * b;
    C[2] = c * c;
    return C;
  };
  const std::vector<State> states = {
      // controls: three distinct eigenvalues
      {"control: F = diag(1.7, 0.625, 0.8)", diag(1.7, 0.625, 0.8), false},
      {"control: generic C, 3 distinct eigenvalues",
       rotatedC(2.89, 0.390625, 0.64, 0.3, -0.5, 0.8), false},
      // control: three equal eigenvalues
      {"control: F = diag(1.2, 1.2, 1.2)", diag(1.2, 1.2, 1.2), false},
      // exactly two equal eigenvalues, in all positions
      {"F = diag(1.7, 0.625, 0.625)", diag(1.7, 0.625, 0.625), true},
      {"F = diag(0.625, 1.7, 0.625)", diag(0.625, 1.7, 0.625), true},
      {"F = diag(0.625, 0.625, 1.7)", diag(0.625, 0.625, 1.7), true},
      {"F = diag(1.25, 1.25, 0.64)", diag(1.25, 1.25, 0.64), true},
      // same kind of state, eigenvectors not aligned with the axes (the
      // eigenvalues returned by the Jacobi solver then differ by a few ulps,
      // which is below the 1e-14 threshold of the handler)
      {"C = R diag(2.89, 0.5, 0.5) R^T, generic rotation",
       rotatedC(2.89, 0.5, 0.5, 0.3, -0.5, 0.8), true}};
  bool controls = true;
  bool degenerate = true;
  for (const auto& s : states) {
    const auto ok = check(s, K);
    if (s.degenerate) {
      degenerate = degenerate && ok;
    } else {
      controls = controls && ok;
    }
  }
  std::printf("controls (3 distinct or 3 equal eigenvalues): %s\n",
              controls ? "agree" : "DISAGREE");
  std::printf("states with exactly two equal eigenvalues   : %s\n",
              degenerate ? "agree" : "DISAGREE");
  if (controls && degenerate) {
    std::printf("PASS\n");
    return EXIT_SUCCESS;
  }
  std::printf("FAIL\n");
  return EXIT_FAILURE;
}
