#include "gb.hxx"
#include "MFront/GenericBehaviour/MPB-generic.hxx"
int main(){
  for(int pol : {0,1,2}){
    for(double T : {293.15, 500.}){
      GB b(6,6,0,7,1,36);
      b.esv0[0]=b.esv1[0]=T; b.g1[0]=1e-3; b.K[0]=0;
      MPB_setOutOfBoundsPolicy(pol);
      const int r = MPB_Tridimensional(b.data());
      std::printf("policy=%d T=%g (bounds [200:400]) -> r=%d msg='%s'\n",pol,T,r,b.msg);
    }
  }
}
