// shims for the fixed-size algorithms (C18); opaque externals stand for
// arbitrary functors (their calls are recorded as a trace by the analysis)
#include "TFEL/FSAlgorithm/FSAlgorithm.hxx"
extern "C" double verif_op1(double);
extern "C" double verif_op2(double, double);
extern "C" double verif_op3(double, double);
extern "C" void verif_sink(double);
extern "C" double verif_gen();
extern "C" int verif_pred(double, double);
using namespace tfel::fsalgo;
struct Sink { void operator()(double x) { verif_sink(x); } };
#define SH(N)                                                                                       \
  extern "C" void verif_copy_##N(const double* a, double* o) { copy<N>::exe(a, o); }                \
  extern "C" void verif_fill_##N(const double* v, double* o) { fill<N>::exe(o, v[0]); }             \
  extern "C" void verif_swap_##N(double* a, double* b) { swap_ranges<N>::exe(a, b); }               \
  extern "C" void verif_transform1_##N(const double* a, double* o) {                                \
    transform<N>::exe(a, o, [](const double x) { return verif_op1(x); });                            \
  }                                                                                                  \
  extern "C" void verif_transform2_##N(const double* a, const double* b, double* o) {               \
    transform<N>::exe(a, b, o, [](const double x, const double y) { return verif_op2(x, y); });      \
  }                                                                                                  \
  extern "C" void verif_foreach_##N(const double* a) { Sink s; for_each<N>::exe(a, s); }             \
  extern "C" void verif_generate_##N(double* o) { generate<N>::exe(o, [] { return verif_gen(); }); } \
  extern "C" void verif_iota_##N(const double* v, double* o) { iota<N>::exe(o, v[0]); }              \
  extern "C" void verif_accumulate_##N(const double* a, const double* i, double* o) {               \
    o[0] = accumulate<N>::exe(a, i[0]);                                                              \
  }                                                                                                  \
  extern "C" void verif_accumulate_op_##N(const double* a, const double* i, double* o) {            \
    o[0] = accumulate<N>::exe(a, i[0], [](const double x, const double y) { return verif_op2(x, y); }); \
  }                                                                                                  \
  extern "C" void verif_inner_##N(const double* a, const double* b, const double* i, double* o) {   \
    o[0] = inner_product<N>::exe(a, b, i[0]);                                                        \
  }                                                                                                  \
  extern "C" void verif_inner_op_##N(const double* a, const double* b, const double* i, double* o) {\
    o[0] = inner_product<N>::exe(a, b, i[0], [](const double x, const double y) { return verif_op2(x, y); }, \
                                 [](const double x, const double y) { return verif_op3(x, y); });    \
  }                                                                                                  \
  extern "C" int verif_equal_##N(const double* a, const double* b) { return equal<N>::exe(a, b) ? 1 : 0; } \
  extern "C" int verif_equal_pred_##N(const double* a, const double* b) {                           \
    return equal<N>::exe(a, b, [](const double x, const double y) { return verif_pred(x, y) != 0; }) ? 1 : 0; \
  }
#define SHM(N)                                                                                      \
  extern "C" long verif_min_##N(const double* a) { return min_element<N>::exe(a) - a; }             \
  extern "C" long verif_max_##N(const double* a) { return max_element<N>::exe(a) - a; }             \
  extern "C" long verif_min_comp_##N(const double* a) {                                             \
    return min_element<N>::exe(a, [](const double x, const double y) { return verif_pred(x, y) != 0; }) - a; \
  }                                                                                                  \
  extern "C" long verif_max_comp_##N(const double* a) {                                             \
    return max_element<N>::exe(a, [](const double x, const double y) { return verif_pred(x, y) != 0; }) - a; \
  }
SH(0) SH(1) SH(2) SH(3) SH(4) SH(5) SH(7) SH(10)
SHM(1) SHM(2) SHM(3) SHM(4)
