"""C52 — tfel-check verdict/log independence from parallelism: structure of
TFELCheck::execute plus who-may-call on process-global state."""
import re
from common import *
from cfg import *
from lockset import *

RULE = ("shared log_file/cout(sync mode) written only under lock_guard(log_synchronization), one insertion of the task's "
        "complete buffer; per-task logger writes to a task-local ostringstream; every addTask result is stored in "
        "future_results; pool.wait() precedes the reads; the verdict loop visits every future without early exit and "
        "records failure for an exception or a false result; execute returns that status and main returns it; "
        "chdir/setenv/putenv/umask only in the forked child (fork() == 0 edge)")
GLOBAL_STATE = ("chdir", "fchdir", "setenv", "putenv", "unsetenv", "umask", "clearenv",
                "tfel::system::systemCall::changeCurrentWorkingDirectory")
TOK = re.compile(r"\b(chdir|setenv|putenv|unsetenv|umask|clearenv|changeCurrentWorkingDirectory)\b")


def rel(loc):
    return loc.replace(REPO + "/", "")


def run(tier):
    rep = Report("C52", tier, "other", RULE)
    main_u = os.path.join(REPO, "tfel-check/src/tfel-check.cxx")
    dumps = cfgdump([main_u], os.path.join(OUT, "C52", "dump"), funcs=r"^(tfel::check::TFELCheck::execute|tfel::check::TFELCheck::registerArgumentCallBacks|main$)", root=REPO)
    funcs = load_functions(dumps)
    kids = children_of(funcs)
    ex = [f for f in funcs if f.qname == "tfel::check::TFELCheck::execute" and f.parent is None]
    mn = [f for f in funcs if f.qname == "main"]
    if not ex or not mn:
        raise AnalysisBroken("TFELCheck::execute / main not found")
    ex, mn = ex[0], mn[0]
    lambdas = kids[(ex.unit, ex.id)]
    exe = [g for g in lambdas if len(g.params) == 2 and len(g.blocks) > 5]
    if len(exe) != 1:
        raise AnalysisBroken("task lambda 'exe' not identified (%d candidates)" % len(exe))
    exe = exe[0]
    rep.count("functions analysed", 2 + len(lambdas))

    # ---- R1 log discipline in the task lambda
    g = guard_decls(exe)
    step = lock_transfer(exe, g)
    shared_writes = []

    def is_shared_stream(f, sid):
        n = f.stmts[f.strip(sid)]
        if n["k"] == "DeclRefExpr" and n.get("name") == "log_file":
            return "log_file"
        if n["k"] == "DeclRefExpr" and n.get("qname") in ("std::cout", "std::cerr", "std::clog"):
            return n["qname"]
        return None

    def el(held, b, i, e):
        if "s" in e:
            sid = e["s"]
            n = exe.stmts[sid]
            if n["k"] == "CXXOperatorCallExpr" and n.get("op") == "<<" and len(n["args"]) == 2:
                tgt = is_shared_stream(exe, n["args"][0])
                if tgt:
                    shared_writes.append((sid, tgt, "log_synchronization" in held_mutexes(held), exe.text(n["args"][1])))
        return (step(held, e),)
    forward(exe, [frozenset()], el)
    nlog = 0
    for sid, tgt, locked, what in shared_writes:
        rep.count("insertions into shared streams in the task")
        if tgt == "log_file":
            nlog += 1
        if not locked:
            rep.fail("LOG-UNSYNCHRONISED@TFELCheck::execute::exe#%s" % tgt,
                     "%s: %s is written by a task outside lock_guard(log_synchronization): blocks of concurrent checks "
                     "interleave" % (rel(exe.short_loc(sid)), tgt))
        elif not re.match(r"^output\.str\(\)$", what):
            rep.fail("LOG-PARTIAL@TFELCheck::execute::exe#%s" % tgt,
                     "%s: %s receives '%s', not the task's complete buffer output.str()" % (rel(exe.short_loc(sid)), tgt, what))
        else:
            rep.ok("%s: %s << output.str() under log_synchronization" % (rel(exe.short_loc(sid)), tgt))
    if nlog != 1:
        rep.fail("LOG-ONCE@TFELCheck::execute::exe", "the task writes its block to log_file %d times (expected exactly once)" % nlog)
    else:
        rep.ok("the task writes its block to log_file exactly once")
    # the logger of the task is built on the task-local buffer
    outvars = [d["declId"] for n in exe.stmts.values() if n["k"] == "DeclStmt" for d in n["decls"]
               if d.get("name") == "output" and "ostringstream" in d.get("type", "")]
    drivers = [s for s, n in exe.stmts.items() if n["k"] == "CallExpr" and (n.get("callee") or "") == "std::make_shared"
               and "PCTextDriver" in (n.get("calleeDisplay") or "")]
    local_driver = [s for s in drivers if any(exe.stmts[x]["k"] == "DeclRefExpr" and exe.stmts[x].get("declId") in outvars
                                               for x in exe.walk(s))]
    if outvars and local_driver:
        rep.ok("the task logs into a PCTextDriver over its own ostringstream 'output'")
    else:
        rep.fail("LOG-NOT-LOCAL@TFELCheck::execute::exe", "the task's logger is not built on a task-local buffer")
    # an unsynchronised terminal driver is only added under !synchronize_terminal_output
    for s in drivers:
        if s in local_driver:
            continue
        pm = exe.parent_map()
        p = s
        guarded = False
        while p in pm:
            p = pm[p]
            if exe.stmts[p]["k"] == "IfStmt" and "synchronize_terminal_output" in exe.text(exe.stmts[p]["cond"]):
                guarded = exe.text(exe.stmts[p]["cond"]).startswith("!")
        if guarded:
            rep.ok("terminal driver added only when terminal output is not synchronised (%s)" % rel(exe.short_loc(s)))
        else:
            rep.fail("TERMINAL-DRIVER@TFELCheck::execute::exe", "%s: a second log driver is added unconditionally" % rel(exe.short_loc(s)))

    # ---- R2 futures, wait, verdict loop
    f = ex
    adds = [s for s, n in f.stmts.items() if n["k"] == "CXXMemberCallExpr" and (n.get("callee") or "").endswith("ThreadPool::addTask")]
    pm = f.parent_map()
    for s in adds:
        rep.count("addTask call sites")
        p = s
        stored = False
        while p in pm:
            p = pm[p]
            n = f.stmts[p]
            if n["k"] == "CXXMemberCallExpr" and (n.get("callee") or "").endswith("::push_back") and \
                    (f.path(n.get("obj")) or "") == "future_results":
                stored = True
                break
            if n["k"] in ("CompoundStmt",):
                break
        if stored:
            rep.ok("%s: the future of addTask is stored in future_results" % rel(f.short_loc(s)))
        else:
            rep.fail("FUTURE-DROPPED@TFELCheck::execute", "%s: the result of addTask is not stored: its verdict is lost"
                     % rel(f.short_loc(s)))
    loops = [(s, n) for s, n in f.stmts.items() if n["k"] == "CXXForRangeStmt" and
             (f.path(n.get("rangeInit")) or "") == "future_results"]
    if len(loops) != 1:
        # the verdict computed by a short-circuiting algorithm of <algorithm>: the futures after the first failure are never waited for
        sc = [s_ for s_, n in f.stmts.items() if n["k"] == "CallExpr" and re.match(r"^std::(all_of|any_of|none_of|find_if|find_if_not)$", (n.get("callee") or "").split("<")[0])
              and "future_results" in f.text(s_)]
        if sc:
            rep.fail("VERDICT-SHORT-CIRCUIT@TFELCheck::execute", "%s: the verdict is computed by %s over future_results: it stops at the first failed check, the "
                     "later futures are not waited for, so execute can return (and the shared log be closed) while their tasks still run"
                     % (rel(f.short_loc(sc[0])), (f.stmts[sc[0]].get("callee") or "").split("<")[0]))
            # the remaining structural clauses read the loop that is gone; the premises of C29/C30 are still evaluated below
            for pid in ("C30", "C29"):
                import importlib
                mod = importlib.import_module(pid)
                sub = mod.run(tier)
                for v in sub.violations:
                    rep.fail("PREMISE-%s:%s" % (pid, v["key"]), "premise of C52 (rule of %s) violated: %s" % (pid, v["msg"]))
            return rep
        raise AnalysisBroken("verdict loop over future_results not found")
    ls, ln = loops[0]
    body_nodes = set(f.walk(ls))
    early = [x for x in body_nodes if f.stmts[x]["k"] in ("BreakStmt", "ReturnStmt", "GotoStmt")]
    waits = [s for s, n in f.stmts.items() if n["k"] == "CXXMemberCallExpr" and (n.get("callee") or "").endswith("ThreadPool::wait")]
    status_ids = [d["declId"] for n in f.stmts.values() if n["k"] == "DeclStmt" for d in n["decls"]
                  if d.get("name") == "status" and d.get("type") == "int"]
    if not status_ids:
        raise AnalysisBroken("status variable not found")
    sid_status = status_ids[0]
    rdecl = ln.get("loopVarId")

    def atom(f_, s):
        n = f_.stmts[s]
        # operator bool / operator! of the ThreadedTaskResult held in the local 'r'
        if n["k"] == "CXXMemberCallExpr" and "operator bool" in (n.get("callee") or ""):
            return ("has", False)
        if n["k"] == "CXXOperatorCallExpr" and n.get("op") == "!" :
            return ("has", True)
        if n["k"] == "CXXOperatorCallExpr" and n.get("op") == "*" and len(n["args"]) == 1:
            return ("val", False)
        if n["k"] == "BinaryOperator" and n.get("op") in ("==", "!="):
            l, r = [f_.stmts[f_.strip(x)] for x in f_.kids(s)[:2]]
            for a, b in ((l, r), (r, l)):
                if a["k"] == "DeclRefExpr" and a.get("declId") == sid_status and b["k"] == "IntegerLiteral":
                    if b["value"] != 0:
                        return ("sf", n["op"] == "!=")
                    return ("sf", n["op"] == "==")
        return None
    bad = []
    waited_before_get = []

    def el2(st, b, i, e):
        facts, assigned, waited, inloop = st
        if "s" in e:
            s = e["s"]
            n = f.stmts[s]
            if s in waits:
                waited = True
            if n["k"] == "CXXMemberCallExpr" and (n.get("callee") or "").endswith("future<tfel::system::ThreadedTaskResult<bool>>::get") \
                    or (n["k"] == "CXXMemberCallExpr" and (n.get("callee") or "").endswith("::get") and "future" in (n.get("calleeClass") or "")):
                waited_before_get.append(waited)
                facts = tuple(kv for kv in facts if kv[0] == "sf")
                assigned, inloop = dict(facts).get("sf") is True, True
            if n["k"] == "BinaryOperator" and n["op"] == "=":
                l, r = f.kids(s)[:2]
                ln_ = f.stmts[f.strip(l)]
                if ln_["k"] == "DeclRefExpr" and ln_.get("declId") == sid_status:
                    rv = f.stmts[f.strip(r)]
                    if rv["k"] == "IntegerLiteral" and rv["value"] != 0:
                        assigned = True
                        facts = tuple(sorted(dict(list(facts) + [("sf", True)]).items()))
                    else:
                        bad.append("status is overwritten with %s at %s" % (f.text(r), rel(f.short_loc(s))))
        return ((facts, assigned, waited, inloop),)

    early_bad = []

    def ed2(st, b, succ, pol):
        facts, assigned, waited, inloop = st
        if b.term in early and inloop and not (assigned or dict(facts).get("sf") is True):
            early_bad.append(b.term)
        fx = branch(f, b, pol, dict(facts), atom)
        if fx is None:
            return ()
        return ((tuple(sorted(fx.items())), assigned, waited, inloop),)
    IN, _o = forward(f, [((), False, False, False)], el2, ed2)
    # states at the loop increment / exit: iteration outcome must be recorded
    it_end = set()
    for bid, b in f.blocks.items():
        # the block holding the range-for increment is the target of the back edge: look at states entering the loop header
        if b.term == ls:
            for st in IN.get(bid, ()):
                it_end.add(st)
    for facts, assigned, waited, inloop in it_end:
        if not inloop:
            continue
        fx = dict(facts)
        rep.count("verdict-loop iteration outcomes")
        failed = fx.get("has") is False or fx.get("val") is False
        if failed and not assigned:
            bad.append("an iteration with facts %s leaves status unchanged" % fx)
    for n_ in f.stmts.values():
        pass
    ret_in_loop = [x for x in early if f.stmts[x]["k"] == "ReturnStmt"]
    if early_bad or ret_in_loop:
        rep.fail("VERDICT-EARLY-EXIT@TFELCheck::execute", "the verdict loop can be left before a failure has been recorded: "
                 "later failures are ignored (%s)" % ", ".join(rel(f.short_loc(x)) for x in (early_bad + ret_in_loop)))
    else:
        rep.ok("the verdict loop is only left early once failure is recorded (%d early exits)" % len(early))
    if not waited_before_get or not all(waited_before_get):
        rep.fail("GET-BEFORE-WAIT@TFELCheck::execute", "a future is read before pool.wait()")
    else:
        rep.ok("pool.wait() precedes every future.get()")
    if bad:
        rep.fail("VERDICT-LOST@TFELCheck::execute", "; ".join(sorted(set(bad))))
    else:
        rep.ok("each iteration records failure when the task threw (no value) or returned false")
    rets = [s for s, n in f.stmts.items() if n["k"] == "ReturnStmt"]
    okret = all(f.stmts[f.strip(f.kids(s)[0])].get("declId") == sid_status for s in rets if f.kids(s))
    init_ok = any(d.get("declId") == sid_status and f.stmts[f.strip(d["init"])].get("value") == 0
                  for n in f.stmts.values() if n["k"] == "DeclStmt" for d in n["decls"] if "init" in d)
    if okret and init_ok and rets:
        rep.ok("execute returns the accumulated status (initialised to EXIT_SUCCESS)")
    else:
        rep.fail("VERDICT-NOT-RETURNED@TFELCheck::execute", "execute does not return the accumulated status")
    mr = [s for s, n in mn.stmts.items() if n["k"] == "ReturnStmt" and mn.kids(s)]
    def failure_constant(sid):
        n_ = mn.stmts[mn.strip(sid)]
        return n_["k"] == "IntegerLiteral" and int(n_["value"]) != 0      # EXIT_FAILURE
    exe_rets = [s for s in mr if (mn.stmts[mn.strip(mn.kids(s)[0])].get("callee") or "").endswith("TFELCheck::execute")]
    if exe_rets and all(s in exe_rets or failure_constant(mn.kids(s)[0]) for s in mr):
        rep.ok("main returns check.execute() (its other returns, in the exception handlers, are failures)")
    else:
        rep.fail("MAIN-VERDICT@main", "main does not return the value of TFELCheck::execute")

    # ---- R3 process-global state only in the forked child
    cand = units_under("tfel-check/src", "src/System", "src/Utilities")
    if tier != "thorough":
        cand = [u for u in cand if TOK.search(open(u, errors="replace").read())]
    d3 = cfgdump(cand, os.path.join(OUT, "C52", "dump3"), funcs=r".*", root=REPO)
    f3 = load_functions(d3)
    rep.count("units scanned for process-global state", len(cand))
    wrappers = set()
    for f in f3:
        for s, n in f.stmts.items():
            if n["k"] in ("CallExpr", "CXXMemberCallExpr") and n.get("callee") in GLOBAL_STATE:
                rep.count("call sites mutating process-global state")
                if f.qname in GLOBAL_STATE:
                    rep.ok("%s is the wrapper %s itself" % (rel(f.short_loc(s)), f.qname), sample=False)
                    continue
                dom = []

                def el3(st, b, i, e, s=s):
                    if e.get("s") == s:
                        dom.append(st)
                    return (st,)

                def ed3(st, b, succ, pol, f=f):
                    if pol and b.cond is not None and re.match(r"^\(pid == 0\)$", f.text(b.cond)):
                        return (True,)
                    return (st,)
                forward(f, [False], el3, ed3)
                if dom and all(dom) and any(n2.get("callee") == "fork" for n2 in f.stmts.values()):
                    rep.ok("%s: %s only in the forked child of %s" % (rel(f.short_loc(s)), n["callee"], f.qname))
                else:
                    rep.fail("GLOBAL-STATE@%s#%s" % (f.qname, n["callee"].rsplit("::", 1)[-1]),
                             "%s: %s changes process-global state in the parent process: concurrent checks influence "
                             "each other" % (rel(f.short_loc(s)), n["callee"]))
    rep.floor("insertions into shared streams in the task", 2)
    rep.floor("addTask call sites", 2)
    rep.floor("verdict-loop iteration outcomes", 2)
    rep.floor("call sites mutating process-global state", 3)
    rep.assumptions += ["rests on the ThreadPool (C29) and ProcessManager (C30) rules",
                        "functions reachable from the task are scanned per unit of tfel-check/src, src/System, src/Utilities "
                        "(quick: units spelling the primitives)"]
    # premises: the verdict of a @Command is ProcessManager::execute's and the tasks run on ThreadPool; a violated
    # discipline rule of C29 / C30 makes the verdict schedule-dependent, so their rules are re-run here as premises
    import importlib
    for pid in ("C30", "C29"):
        sub = importlib.import_module(pid).run(tier)
        rep.count("premise rules (%s) obligations" % pid, sub.obligations)
        known = load_known_findings()
        for v in sub.violations:
            if (pid, v["key"]) in known:
                continue
            rep.fail("PREMISE-%s:%s" % (pid, v["key"]), "premise of C52 (rule of %s) violated: %s" % (pid, v["msg"]))
        rep.discharged += sub.discharged
        rep.obligations += sub.discharged
    # ---- R7 SHALL-FAIL-TABLE: the verdict of one command is 'the command failed' xor 'it was not expected to fail'
    tl = os.path.join(REPO, "tfel-check/src/TestLauncher.cxx")
    dt = cfgdump([tl], os.path.join(OUT, "C52", "dumptl"), funcs=r"^tfel::check::TestLauncher::execute$", root=REPO)
    cmds = [f for f in load_functions(dt) if f.parent is None and len(f.params) == 4 and f.entry is not None]
    if len(cmds) != 1:
        raise AnalysisBroken("TestLauncher::execute(configuration, command, output file, step) not found (%d)" % len(cmds))
    g = cmds[0]
    runs = [s_ for s_, n in g.stmts.items() if n["k"] == "CXXMemberCallExpr" and (n.get("callee") or "").endswith("ProcessManager::execute")]
    if len(runs) != 1:
        raise AnalysisBroken("TestLauncher::execute: the call of ProcessManager::execute was not identified (%d)" % len(runs))

    def atom_sf(f_, s):
        n = f_.stmts.get(s)
        if n is not None and n["k"] == "MemberExpr" and n.get("member") == "shall_fail":
            return (("shall_fail",), False)
        return None
    bad_sf = []
    nret = [0]

    def el_sf(st, b, i, e):
        if "s" not in e:
            return (st,)
        facts, ran = st
        s_ = e["s"]
        n = g.stmts[s_]
        if s_ == runs[0]:
            return ((facts, True),)
        if n["k"] == "ReturnStmt" and ran:
            nret[0] += 1
            v = g.stmts[g.strip(g.kids(s_)[0])] if g.kids(s_) else None
            is_false = v is not None and v["k"] == "CXXBoolLiteralExpr" and not v["value"]
            if not is_false and dict(facts).get(("shall_fail",)) is not False:
                bad_sf.append(s_)
        return (st,)

    def ed_sf(st, b, succ, pol):
        facts, ran = st
        fx = branch(g, b, pol, dict(facts), atom_sf)
        return () if fx is None else ((tuple(sorted(fx.items())), ran),)
    forward(g, (((), False),), el_sf, ed_sf)
    rep.count("returns after the command ran to completion", nret[0])
    if bad_sf:
        rep.fail("SHALL-FAIL-TABLE@tfel::check::TestLauncher::execute", "%s: after the command ran to completion (ProcessManager::execute returned, "
                 "i.e. exit status 0) TestLauncher::execute can return a value other than false without having tested 'shall_fail': a command "
                 "declared {shall_fail: true} that succeeds is reported as a success, and tfel-check exits with 0 although a check failed"
                 % rel(g.short_loc(bad_sf[0])))
    else:
        rep.ok("TestLauncher::execute: a command that runs to completion is a success only when it was not expected to fail")
    # the handlers (the command failed) return the flag itself
    hret = []
    for s_, n in g.stmts.items():
        if n["k"] == "CXXCatchStmt":
            for x in g.walk(s_):
                if g.stmts[x]["k"] == "ReturnStmt":
                    hret.append(g.text(g.strip(g.kids(x)[0])))
    if hret and all(t.endswith("shall_fail") for t in hret):
        rep.ok("TestLauncher::execute: when the command fails the verdict is 'shall_fail' (%d handlers)" % len(hret))
    else:
        rep.fail("SHALL-FAIL-TABLE@tfel::check::TestLauncher::execute#handlers", "the handlers of TestLauncher::execute return %s instead of the shall_fail flag" % hret)
    rep.floor("returns after the command ran to completion", 2)
    # ---- R8 the command line cannot make tfel-check hang or abort: main catches, the number of jobs is validated
    mainf = mn
    pmn = mainf.parent_map()
    sites = [s_ for s_, n in mainf.stmts.items() if (n["k"] == "CXXMemberCallExpr" and (n.get("callee") or "").endswith("TFELCheck::execute")) or
             (n["k"] == "CXXConstructExpr" and (n.get("ctorClass") or "").endswith("tfel::check::TFELCheck"))]
    if not sites:
        raise AnalysisBroken("main of tfel-check: construction / execution of TFELCheck not found")
    out = []
    for s_ in sites:
        q, ok = s_, False
        while q in pmn:
            c = q
            q = pmn[q]
            if mainf.stmts[q]["k"] == "CXXTryStmt" and mainf.kids(q) and mainf.kids(q)[0] == c:
                ok = True
        if not ok:
            out.append(s_)
    rep.count("calls of tfel-check's main examined", len(sites))
    if out:
        rep.fail("MAIN-CATCHES@tfel-check main", "%s: main of tfel-check constructs or runs TFELCheck outside any try block: an exception (an invalid value of an "
                 "option, a system error) ends in std::terminate - SIGABRT instead of a failure status" % rel(mainf.short_loc(out[0])))
    else:
        rep.ok("main of tfel-check constructs and runs TFELCheck in a try block")
    # the closure parsing --jobs: it rejects 0 (a pool without worker never runs a task: tfel-check waits for ever) and catches every
    # exception of the conversion (std::stoul throws out_of_range as well as invalid_argument)
    jl = None
    for g in load_functions(dumps):
        if g.parent is None:
            continue
        calls = [n for n in g.stmts.values() if n["k"] == "CallExpr" and (n.get("callee") or "").endswith("stoul")]
        if calls and any(n["k"] == "MemberExpr" and n.get("member") == "njobs" for n in g.stmts.values()):
            jl = g
    if jl is None:
        raise AnalysisBroken("the closure parsing --jobs was not found")
    zero = False
    for s_, n in jl.stmts.items():
        bo = jl.binop(s_)
        if bo and bo[0] in ("==", "<", "<=", "!=", ">"):
            ts = [jl.stmts.get(jl.strip(x)) for x in bo[1:]]
            if any(t is not None and t["k"] == "MemberExpr" and t.get("member") == "njobs" for t in ts) and \
                    any(t is not None and t["k"] == "IntegerLiteral" and int(t["value"]) in (0, 1) for t in ts):
                zero = True
    handlers = [jl.text(s_) for s_, n in jl.stmts.items() if n["k"] == "CXXCatchStmt"]
    catches_all = any(n["k"] == "CXXCatchStmt" and ("std::exception" in str(n) or not [k for k in jl.kids(s_) if jl.stmts[k]["k"] == "DeclStmt"]) for s_, n in jl.stmts.items())
    rep.count("validations of --jobs", int(zero) + int(catches_all))
    if zero and catches_all:
        rep.ok("--jobs: 0 is rejected and every exception of the conversion is caught")
    else:
        rep.fail("JOBS-VALIDATED@tfel-check --jobs", "%s: the value of --jobs is %s: '-j 0' builds a pool without worker and tfel-check waits for ever, "
                 "'-j 99999999999999999999' or '-j -1' end in an uncaught exception" % (rel(jl.loc), "not compared with 0" if not zero else "converted under a handler that does not catch std::out_of_range"))
    return rep
