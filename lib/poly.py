"""Exact multivariate polynomial / rational-function arithmetic for Engine B.

Polynomials have Fraction coefficients over a registry of variables.  A
variable may be an *atom* with a defining relation atom**k = poly (sqrt2**2 = 2,
sqrt(p)**2 = p, cbrt(p)**3 = p): products are reduced with it, so normal forms
are unique in Q(sqrt2, sqrt3)[x1..xn][atoms] (the radicals being independent).
Rational functions are numerator/denominator pairs compared by
cross-multiplication.  ~250 lines, no external dependency."""
from fractions import Fraction

_names = []          # id -> name
_ids = {}            # name -> id
_rel = {}            # id -> (k, Poly) : var**k == Poly


def var_id(name):
    if name not in _ids:
        _ids[name] = len(_names)
        _names.append(name)
    return _ids[name]


def reset_registry():
    del _names[:]
    _ids.clear()
    _rel.clear()
    _init_consts()


class Poly:
    __slots__ = ("t",)

    def __init__(self, terms=None):
        self.t = terms or {}

    @staticmethod
    def const(c):
        c = Fraction(c)
        return Poly({(): c} if c != 0 else {})

    @staticmethod
    def var(name):
        return Poly({((var_id(name), 1),): Fraction(1)})

    def is_zero(self):
        return not self.t

    def is_const(self):
        return all(m == () for m in self.t)

    def const_value(self):
        return self.t.get((), Fraction(0))

    def __eq__(self, o):
        return self.t == o.t

    def __hash__(self):
        return hash(frozenset(self.t.items()))

    def key(self):
        return tuple(sorted(self.t.items()))

    def __add__(self, o):
        r = dict(self.t)
        for m, c in o.t.items():
            v = r.get(m, 0) + c
            if v == 0:
                r.pop(m, None)
            else:
                r[m] = v
        return Poly(r)

    def __neg__(self):
        return Poly({m: -c for m, c in self.t.items()})

    def __sub__(self, o):
        return self + (-o)

    def scale(self, c):
        c = Fraction(c)
        if c == 0:
            return Poly()
        return Poly({m: v * c for m, v in self.t.items()})

    def __mul__(self, o):
        if len(self.t) > len(o.t):
            self, o = o, self
        r = {}
        need_reduce = False
        for m1, c1 in self.t.items():
            for m2, c2 in o.t.items():
                m, red = _mulmono(m1, m2)
                need_reduce = need_reduce or red
                v = r.get(m, 0) + c1 * c2
                if v == 0:
                    r.pop(m, None)
                else:
                    r[m] = v
        p = Poly(r)
        return _reduce(p) if need_reduce else p

    def __pow__(self, n):
        r = Poly.const(1)
        for _ in range(n):
            r = r * self
        return r

    def variables(self):
        s = set()
        for m in self.t:
            for v, e in m:
                s.add(v)
        return s

    def diff(self, name):
        """partial derivative w.r.t. a plain variable (atoms depending on it are
        differentiated through their defining relation)."""
        vid = var_id(name)
        r = Poly()
        for m, c in self.t.items():
            for i, (v, e) in enumerate(m):
                if v == vid:
                    nm = m[:i] + (((v, e - 1),) if e > 1 else ()) + m[i + 1:]
                    r = r + Poly({nm: c * e})
        return r

    def subs(self, name, value):
        """replace the variable by a polynomial."""
        vid = var_id(name)
        r = Poly()
        for m, c in self.t.items():
            e = 0
            rest = []
            for v, k in m:
                if v == vid:
                    e = k
                else:
                    rest.append((v, k))
            term = Poly({tuple(rest): c})
            if e:
                term = term * (value ** e)
            r = r + term
        return r

    def subs_zero(self, names):
        ids = {var_id(n) for n in names}
        return Poly({m: c for m, c in self.t.items() if not any(v in ids for v, e in m)})

    def __repr__(self):
        if not self.t:
            return "0"
        out = []
        for m, c in sorted(self.t.items(), key=lambda kv: (len(kv[0]), kv[0])):
            mono = "*".join(_names[v] + ("^%d" % e if e > 1 else "") for v, e in m)
            if mono:
                out.append(("%s*%s" % (c, mono)) if c != 1 else mono)
            else:
                out.append(str(c))
        s = " + ".join(out[:12])
        if len(out) > 12:
            s += " + ...(%d terms)" % len(out)
        return s


def _mulmono(m1, m2):
    if not m1:
        return m2, False
    if not m2:
        return m1, False
    d = dict(m1)
    red = False
    for v, e in m2:
        ne = d.get(v, 0) + e
        d[v] = ne
        if v in _rel and ne >= _rel[v][0]:
            red = True
    return tuple(sorted(d.items())), red


def _reduce(p):
    """apply atom relations until no exponent reaches its bound."""
    changed = True
    while changed:
        changed = False
        r = Poly()
        for m, c in p.t.items():
            hit = None
            for i, (v, e) in enumerate(m):
                if v in _rel and e >= _rel[v][0]:
                    hit = (i, v, e)
                    break
            if hit is None:
                r = r + Poly({m: c})
                continue
            i, v, e = hit
            k, rp = _rel[v]
            q, rem = divmod(e, k)
            rest = m[:i] + (((v, rem),) if rem else ()) + m[i + 1:]
            term = Poly({rest: c})
            for _ in range(q):
                term = term * rp
            r = r + term
            changed = True
        p = r
    return p


def define_atom(name, k, poly):
    vid = var_id(name)
    _rel[vid] = (k, poly)
    return Poly({((vid, 1),): Fraction(1)})


def _init_consts():
    define_atom("sqrt2", 2, Poly.const(2))
    define_atom("sqrt3", 2, Poly.const(3))


_init_consts()


def SQRT2():
    return Poly.var("sqrt2")


def SQRT3():
    return Poly.var("sqrt3")


class Rat:
    """rational function num/den."""
    __slots__ = ("n", "d")

    def __init__(self, n, d=None):
        if not isinstance(n, Poly):
            n = Poly.const(n)
        if d is None:
            d = Poly.const(1)
        elif not isinstance(d, Poly):
            d = Poly.const(d)
        if d.is_const():
            c = d.const_value()
            if c == 0:
                raise ZeroDivisionError("rational function with zero denominator")
            if c != 1:
                n = n.scale(1 / c)
                d = Poly.const(1)
        self.n, self.d = n, d

    @staticmethod
    def var(name):
        return Rat(Poly.var(name))

    def __add__(self, o):
        o = _rat(o)
        if self.d == o.d:
            return Rat(self.n + o.n, self.d)
        return Rat(self.n * o.d + o.n * self.d, self.d * o.d)

    __radd__ = __add__

    def __neg__(self):
        return Rat(-self.n, self.d)

    def __sub__(self, o):
        return self + (-_rat(o))

    def __rsub__(self, o):
        return _rat(o) - self

    def __mul__(self, o):
        o = _rat(o)
        return Rat(self.n * o.n, self.d * o.d)

    __rmul__ = __mul__

    def __truediv__(self, o):
        o = _rat(o)
        if o.n.is_zero():
            raise ZeroDivisionError("division by the zero rational function")
        return Rat(self.n * o.d, self.d * o.n)

    def __rtruediv__(self, o):
        return _rat(o) / self

    def subs(self, name, value):
        """replace a variable by a polynomial (or constant)."""
        if not isinstance(value, Poly):
            value = Poly.const(value)
        return Rat(self.n.subs(name, value), self.d.subs(name, value))

    def is_zero(self):
        return self.n.is_zero()

    def equals(self, o):
        o = _rat(o)
        return (self.n * o.d - o.n * self.d).is_zero()

    def is_const(self):
        return self.n.is_const() and self.d.is_const()

    def approx_equals(self, o, rtol=1e-12):
        """coefficient-wise comparison of the cross-multiplied forms within a
        relative tolerance (for constants that the compiler folded inexactly)."""
        o = _rat(o)
        a, b = self.n * o.d, o.n * self.d
        scale = max([abs(c) for c in a.t.values()] + [abs(c) for c in b.t.values()] + [Fraction(0)])
        if scale == 0:
            return True
        for m in set(a.t) | set(b.t):
            if abs(a.t.get(m, 0) - b.t.get(m, 0)) > Fraction(rtol) * scale:
                return False
        return True

    def key(self):
        return (self.n.key(), self.d.key())

    def diff(self, name):
        dn, dd = self.n.diff(name), self.d.diff(name)
        if dd.is_zero():
            return Rat(dn, self.d)
        return Rat(dn * self.d - self.n * dd, self.d * self.d)

    def __repr__(self):
        if self.d.is_const() and self.d.const_value() == 1:
            return repr(self.n)
        return "(%r)/(%r)" % (self.n, self.d)


def _rat(x):
    if isinstance(x, Rat):
        return x
    if isinstance(x, Poly):
        return Rat(x)
    return Rat(Poly.const(x))


# ------------------------------------------------------------ self test
def selftest():
    x, y = Rat.var("x_t"), Rat.var("y_t")
    s2 = Rat(SQRT2())
    assert (s2 * s2).equals(2)
    assert ((x + y) * (x - y)).equals(x * x - y * y)
    assert (1 / (1 / x)).equals(x)
    assert ((x / y) + (y / x)).equals((x * x + y * y) / (x * y))
    assert not (x / s2).equals(x * s2)
    assert (x / s2).equals(x * s2 / 2)
    assert (x * x * y).diff("x_t").equals(2 * x * y)
    a = define_atom("sqrt(x_t+1)", 2, (x + 1).n)
    assert (Rat(a) * Rat(a)).equals(x + 1)
    return True
