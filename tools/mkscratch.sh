#!/bin/bash
# creates an independent scratch copy of /repo (with its build tree) at $1, plus helpers:
#   $1/inrepo <cmd...>      runs cmd in a private mount namespace where the copy is mounted at /repo
#   $1/run_baseline.sh      incremental build + the 636 pinned tests inside that namespace
set -e
D=$1
[ -n "$D" ] || { echo "usage: mkscratch.sh <dir>"; exit 2; }
rm -rf "$D"; mkdir -p "$(dirname "$D")"
cp -a /repo "$D"
python3 - "$D" <<'PY'
import json,sys
d=sys.argv[1]
names=sorted(set(b.split('::')[0] for b in json.load(open('/root/.vp/BASELINE.json'))['stable_pass']))
open(d+'/.baseline_names','w').write('\n'.join(names)+'\n')
PY
cat > "$D/inrepo" <<EOS
#!/bin/bash
# run a command with this scratch copy mounted at /repo (private mount namespace)
exec unshare -m bash -c 'mount --bind $D /repo && cd /repo && exec "\$@"' inrepo "\$@"
EOS
chmod +x "$D/inrepo"
cat > "$D/run_baseline.sh" <<EOS
#!/bin/bash
# incremental build of the whole tree, then the 636 pinned tests; prints a summary
$D/inrepo bash -c 'ninja -C /repo/_build -j8 2>&1 | tail -3; ctest --test-dir /repo/_build -j8 --timeout 900 >/dev/null 2>&1; python3 - <<PY
import re
names=[l.strip() for l in open("/repo/.baseline_names") if l.strip()]
log=open("/repo/_build/Testing/Temporary/LastTest.log",errors="replace").read()
res={m.group(1):m.group(2) for m in re.finditer(r"^\d+/\d+ Test: (\S+)\n.*?^Test (Passed|Failed)",log,re.M|re.S)}
bad=[n for n in names if res.get(n)!="Passed"]
print("baseline tests: %d passed: %d"%(len(names),len(names)-len(bad)))
print("FAILED:",bad[:20]) if bad else None
PY'
EOS
chmod +x "$D/run_baseline.sh"
mkdir -p "$D/deliver"
echo "scratch ready: $D"
