"""C24 — logarithmic strain handler: structural clause on the divisions by
eigenvalue differences (nothing numerical is decided).

Over the instantiations (N = 1, 2, 3, double; Lagrangian and Eulerian settings)
of LogarithmicStrainHandler<N, double>, closures included:
 R1 check-before-divide: every division by vp[i] - vp[j] with literal indices
    is reached only where the coincidence test |vp[i] - vp[j]| < eps of that pair
    was decided negatively (rules/C05.py);
 R2 the 3D handler routes its case analysis through two helpers; their contracts
    are decided on their bodies: areEigenValuesEqual returns a conjunction of
    coincidence tests that connects the three indices; findSingleEigenValue
    returns 3 only where the three pairs were decided distinct and k in {0,1,2}
    only where the pair not containing k was decided coincident; every closure
    that divides by vp[i] - vp[j] with loop indices calls findSingleEigenValue
    and tests areEigenValuesEqual first.
Not decided: that the guards '(i == k) || (j == k)' at the use sites select the
distinct pairs (index reasoning), the Hencky strain, the stress-power identity,
the tangent conversion, the limits at coincident eigenvalues (seed C55-a).
"""
import os, re
from common import *
from cfg import *
import C05

RULE = ("check-before-divide on eigenvalue differences over LogarithmicStrainHandler<1|2|3> (closures included) and the contracts of the "
        "two helper predicates of the 3D case analysis, decided on their CFG")


def rel(loc):
    return loc.replace(REPO + "/", "")


def helper_contract(rep, f):
    """findSingleEigenValue: facts at each 'return <literal>'."""
    atom = None
    decl_init = {}

    def atom(f_, s):
        bo = f_.binop(s)
        if bo is None:
            return None
        op, l, r = bo
        if op not in ("<", ">", "<=", ">="):
            return None
        ln = f_.stmts.get(f_.strip(l))
        if ln is None or ln["k"] != "CallExpr" or not (ln.get("callee") or "").endswith("abs") or not ln.get("args"):
            return None
        m = C05.PAIR.match(C05.unparen(f_.text(f_.strip(ln["args"][0]))))
        if not m:
            return None
        return (("close", frozenset((m.group(1), m.group(2)))), op in (">", ">="))
    rets = []

    def el(st, b, i, e):
        if "s" in e and f.stmts[e["s"]]["k"] == "ReturnStmt":
            lit = [f.stmts[x].get("value") for x in f.walk(e["s"]) if f.stmts[x]["k"] == "IntegerLiteral"]
            if len(lit) == 1:
                rets.append((int(lit[0]), dict(st), e["s"]))
        return (st,)

    def ed(st, b, succ, pol):
        fx = branch(f, b, pol, dict(st), atom)
        if fx is None:
            return ()
        return (tuple(sorted(fx.items(), key=repr)),)
    forward(f, ((),), el, ed)
    P = {k: frozenset(p) for k, p in ((0, ("1", "2")), (1, ("0", "2")), (2, ("0", "1")))}
    allp = [frozenset(("0", "1")), frozenset(("0", "2")), frozenset(("1", "2"))]
    seen = set()
    for v, facts, s in rets:
        rep.count("return paths of findSingleEigenValue")
        seen.add(v)
        if v == 3:
            bad = [p for p in allp if facts.get(("close", p)) is not False]
            if bad:
                rep.fail("HELPER-CONTRACT@findSingleEigenValue#3", "%s: findSingleEigenValue returns 3 (all eigenvalues distinct) on a path where the pair %s "
                         "was not decided distinct; its callers then divide by that difference" % (rel(f.short_loc(s)), sorted(bad[0])))
            else:
                rep.ok("findSingleEigenValue returns 3 only where the three pairs were decided distinct", sample=False)
        elif v in P:
            if facts.get(("close", P[v])) is not True:
                rep.fail("HELPER-CONTRACT@findSingleEigenValue#%d" % v, "%s: findSingleEigenValue returns %d on a path where vp(%s) and vp(%s) were not decided "
                         "coincident: %d is then not the single eigenvalue" % ((rel(f.short_loc(s)), v) + tuple(sorted(P[v])) + (v,)))
            else:
                rep.ok("findSingleEigenValue returns %d only where vp(%s) and vp(%s) were decided coincident" % ((v,) + tuple(sorted(P[v]))), sample=False)
    if seen != {0, 1, 2, 3}:
        rep.fail("HELPER-CONTRACT@findSingleEigenValue#returns", "findSingleEigenValue returns %s; expected the four outcomes 0, 1, 2, 3" % sorted(seen))


def equal_contract(rep, f):
    pairs = set()
    for s, n in f.stmts.items():
        bo = f.binop(s)
        if bo and bo[0] in ("<", "<="):
            ln = f.stmts.get(f.strip(bo[1]))
            if ln is not None and ln["k"] == "CallExpr" and (ln.get("callee") or "").endswith("abs") and ln.get("args"):
                m = C05.PAIR.match(C05.unparen(f.text(f.strip(ln["args"][0]))))
                if m:
                    pairs.add(frozenset((m.group(1), m.group(2))))
    ors = [n for n in f.stmts.values() if n["k"] == "BinaryOperator" and n.get("op") == "||"]
    idx = set(i for p in pairs for i in p)
    if len(pairs) >= 2 and idx == {"0", "1", "2"} and not ors:
        rep.ok("areEigenValuesEqual is a conjunction of %d coincidence tests connecting the three eigenvalues" % len(pairs))
    else:
        rep.fail("HELPER-CONTRACT@areEigenValuesEqual", "%s: areEigenValuesEqual tests the pairs %s%s: it does not decide that the three eigenvalues coincide"
                 % (rel(f.loc), sorted(sorted(p) for p in pairs), " with a disjunction" if ors else ""))


def run(tier):
    rep = Report("C24", tier, "other", RULE)
    drv = os.path.join(VERIF, "drivers", "c24_log.cxx")
    d = cfgdump([drv], os.path.join(OUT, "C24", "dump"), funcs=r"^tfel::material::LogarithmicStrainHandler", flags_for=lambda u: (header_flags(), VERIF))
    funcs = [f for f in load_functions(d) if f.entry is not None]
    rep.count("functions and closures analysed", len(funcs))
    helper = [f for f in funcs if f.qname.endswith("::findSingleEigenValue") and f.parent is None]
    equal = [f for f in funcs if f.qname.endswith("::areEigenValuesEqual") and f.parent is None]
    if not helper or not equal:
        raise AnalysisBroken("helpers of the 3D handler not found")
    helper_contract(rep, helper[0])
    equal_contract(rep, equal[0])
    for f in sorted(funcs, key=lambda g: (g.display, g.id)):
        calls = [n.get("callee") or "" for n in f.stmts.values() if n["k"] in ("CallExpr", "CXXMemberCallExpr")]
        uses_helper = any(c.endswith("::findSingleEigenValue") for c in calls)
        C05.orientation_rule(rep, f)
        C05.index_rule(rep, f)
        sub = Report("C24", tier, "other", RULE)
        C05.guard_rule(sub, f)
        n = sub.analysed.get("divisions by an eigenvalue difference", 0)
        rep.count("divisions by an eigenvalue difference", n)
        for v in sub.violations:
            symbolic = not re.search(r"vp\(\d\)-vp\(\d\)", v["key"])
            if symbolic and uses_helper:
                if any(c.endswith("::areEigenValuesEqual") for c in calls):
                    rep.count("divisions with loop indices routed through the helper contract")
                    continue
                rep.fail("HELPER-CONTRACT@%s" % f.qname.rsplit("::", 1)[-1], "%s: divides by an eigenvalue difference with loop indices without testing "
                         "areEigenValuesEqual first" % rel(f.loc))
                continue
            rep.fail(v["key"], v["msg"])
        if n and not sub.violations:
            rep.ok("%s: every division by an eigenvalue difference is guarded (%d)" % (C05.name_of(f)[:90], n), sample=False)
    rep.floor("functions and closures analysed", 40)
    rep.floor("divisions by an eigenvalue difference", 7)
    rep.floor("return paths of findSingleEigenValue", 4)
    rep.assumptions += ["the guards '(i == k) || (j == k)' of the 3D closures are not interpreted (index reasoning); only the helper contracts are",
                        "structural clause only: Hencky strain, stress power and tangent conversions are not decided"]
    return rep
