"""Lock-set dataflow over cfgdump CFGs: RAII guards and explicit lock()/unlock()."""
from cfg import *

GUARDS = ("std::unique_lock", "std::lock_guard", "std::scoped_lock")


# project guard classes: class qname -> mutex path; filled by custom_guards() from the bodies of their constructor and destructor
CUSTOM_GUARDS = {}


def custom_guards(funcs):
    """registers every class whose constructor locks a namespace-scope mutex that its destructor unlocks."""
    def locked(g, what):
        for n in g.stmts.values():
            if n["k"] == "CXXMemberCallExpr" and (n.get("callee") or "").endswith("mutex::" + what) and n.get("obj") is not None:
                o = g.stmts[g.strip(n["obj"])]
                if o["k"] == "DeclRefExpr" and o.get("globalStorage"):
                    return o.get("name")
        return None
    ctors, dtors = {}, {}
    for g in funcs:
        if g.parent is not None or not g.cls:
            continue
        if g.d.get("ctor") and locked(g, "lock"):
            ctors[g.cls] = locked(g, "lock")
        if g.d.get("dtor") and locked(g, "unlock"):
            dtors[g.cls] = locked(g, "unlock")
    for c, m in ctors.items():
        if dtors.get(c) == m:
            CUSTOM_GUARDS[c] = m
    return dict(CUSTOM_GUARDS)


def guard_decls(f):
    """declId -> mutex path for RAII guard locals of f."""
    res = {}
    for n in f.stmts.values():
        if n["k"] != "DeclStmt":
            continue
        for d in n["decls"]:
            if d.get("cls") in CUSTOM_GUARDS:
                res[d["declId"]] = CUSTOM_GUARDS[d["cls"]]
                continue
            if d.get("cls") in GUARDS and "init" in d:
                i = f.strip(d["init"])
                c = f.stmts[i]
                if c["k"] in ("CXXConstructExpr", "CXXTemporaryObjectExpr") and c.get("args"):
                    p = f.path(c["args"][0])
                    if p:
                        res[d["declId"]] = norm_mutex(p)
    return res


def norm_mutex(p):
    return p.replace("this->", "")


def lock_transfer(f, guards):
    """returns elem transfer for the held-set component: held is a frozenset of
    (mutex, holder) where holder is the guard declId or 'explicit'."""
    def step(held, e):
        if "s" in e:
            n = f.stmts[e["s"]]
            if n["k"] == "DeclStmt":
                for d in n["decls"]:
                    if d.get("declId") in guards:
                        held = held | {(guards[d["declId"]], d["declId"])}
                return held
            if n["k"] == "CXXMemberCallExpr":
                cal = n.get("callee") or ""
                nm = cal.rsplit("::", 1)[-1]
                obj = n.get("obj")
                on = f.stmts[f.strip(obj)] if obj else None
                if nm in ("unlock", "lock") and on is not None:
                    if on["k"] == "DeclRefExpr" and on.get("declId") in guards:
                        g = on["declId"]
                        if nm == "unlock":
                            return frozenset(h for h in held if h[1] != g)
                        return held | {(guards[g], g)}
                    cls = n.get("calleeClass") or ""
                    if cls in ("std::mutex", "std::recursive_mutex"):
                        p = f.path(obj)
                        if p:
                            p = norm_mutex(p)
                            if nm == "unlock":
                                return frozenset(h for h in held if not (h[0] == p and h[1] == "explicit"))
                            return held | {(p, "explicit")}
            return held
        if e.get("dtor") == "auto" and e.get("varId") in guards:
            g = e["varId"]
            return frozenset(h for h in held if h[1] != g)
        return held
    return step


def held_mutexes(held):
    return {h[0] for h in held}
