#!/bin/bash
# usage: <inrepo> bash run_side.sh            (headers of the tree mounted at /repo)
#        <inrepo> bash run_side.sh --fixed    (private copy of the handler headers in
#                                              ./include, with the corrected eta term,
#                                              takes precedence over /repo/include)
here=$(cd "$(dirname "$0")" && pwd)
out=$(mktemp -d)
trap 'rm -rf "$out"' EXIT
extra=""
if [ "$1" = "--fixed" ]; then
  extra="-I$here/include"
  echo "using the corrected private copy of LogarithmicStrainHandler.[hi]xx"
fi
export LD_LIBRARY_PATH=$(ls -d /repo/_build/src/*/ | tr '\n' ':')
if ! g++ -std=gnu++20 -O1 -w $extra -I/repo/include -I/repo/_build/include \
    "$here/side.cxx" -o "$out/side" \
    -L/repo/_build/src/Material -L/repo/_build/src/Math \
    -L/repo/_build/src/Utilities -L/repo/_build/src/Exception \
    -L/repo/_build/src/NUMODIS \
    -lTFELMaterial -lTFELMath -lTFELUtilities -lTFELException -lTFELNUMODIS; then
  echo "FAIL (compilation error)"
  exit 1
fi
if "$out/side"; then
  exit 0
fi
exit 1
