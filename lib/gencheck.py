"""Engine E plumbing: bring /repo/_build's mfront up to date with the working
tree and generate sources for a corpus; the generated C++ is then analysed
statically (it is never compiled to an executable nor run)."""
import os, subprocess, shutil, fcntl, glob
from common import *


def _ldpath():
    dirs = glob.glob(os.path.join(BUILD, "src", "*")) + [os.path.join(BUILD, "mfront", "src")]
    return ":".join(d for d in dirs if os.path.isdir(d))


def rebuild_mfront():
    lock = open(os.path.join(OUT, ".ninja.lock"), "w")
    fcntl.flock(lock, fcntl.LOCK_EX)
    try:
        p = subprocess.run(["ninja", "-C", BUILD, "-j", str(NPROC), "mfront/src/mfront"],
                           capture_output=True, text=True)
        if p.returncode != 0:
            p2 = subprocess.run(["ninja", "-C", BUILD, "-j", str(NPROC), "mfront"],
                                capture_output=True, text=True)
            if p2.returncode != 0:
                raise AnalysisBroken("mfront does not build from the current tree: "
                                     + (p2.stdout + p2.stderr)[-1500:])
    finally:
        fcntl.flock(lock, fcntl.LOCK_UN)
        lock.close()
    exe = os.path.join(BUILD, "mfront", "src", "mfront")
    if not os.path.exists(exe):
        raise AnalysisBroken("no mfront executable")
    return exe


def generate(files, outdir, interface="generic", extra_args=()):
    """runs the rebuilt mfront on files; returns (srcdir, incdir)."""
    exe = rebuild_mfront()
    if os.path.isdir(outdir):
        shutil.rmtree(outdir)
    os.makedirs(outdir)
    env = dict(os.environ)
    env["LD_LIBRARY_PATH"] = _ldpath() + ":" + env.get("LD_LIBRARY_PATH", "")
    for f in files:
        cmd = [exe, "--interface=" + interface] + list(extra_args) + [f]
        p = subprocess.run(cmd, cwd=outdir, env=env, capture_output=True, text=True)
        if p.returncode != 0:
            raise AnalysisBroken("mfront failed on %s: %s" % (f, (p.stdout + p.stderr)[-1500:]))
    return os.path.join(outdir, "src"), os.path.join(outdir, "include")


def gen_flags(incdir):
    return lambda u: (header_flags(["-I", incdir]), os.path.dirname(incdir))
