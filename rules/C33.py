"""C33 — Unicode mangling: table exhaustive, substitution loops structural.

Decides, from the AST of the current tree (no function of the repository is run):
 T1 every entry {uc, m, ...} of getSupportedUnicodeCharactersDescriptions:
    uc is one well-formed UTF-8 sequence made only of non-ASCII bytes; m is
    PREFIX + the hexadecimal code point(s) of uc (>= 4 digits each);
 T2 characters pairwise distinct, mangled names pairwise distinct;
 T3 mangled names are ASCII identifiers ([A-Za-z0-9_]) and start with PREFIX;
 T4 no mangled name is a substring of another mangled name, no character's
    byte sequence is a substring of another's: sequential substitution in
    table order is then order independent and invertible on inputs free of
    the prefix (mangled text is ASCII, characters are non-ASCII, so a
    replacement can neither create nor destroy a later match);
 T5 every symbol listed in the tables of docs/web/unicode.md is in the table.
 S1 getMangledString and tfel-unicode-filt's process(): a range-for over the
    *whole* accessor result whose body calls the substitution routine
    unconditionally with (loopvar.<character field>, loopvar.<mangled field>)
    resp. (mangled, character), and returns/prints the substituted string;
 S2 the two substitution routines (the local closure of getMangledString and
    tfel::utilities::replace_all(string&, sv, sv, sv, size_t)): the only exit
    of the search loop is find(...) == npos, every find in the loop searches
    the *pattern* from a position whose reaching definitions are all
    'match position + length of the pattern', i.e. all occurrences are visited
    and none is skipped or rescanned.
"""
import os, re
from common import *
from cfg import *

RULE = ("table: mangled = prefix + hex(code point), injective both ways, "
        "ASCII identifiers, substring-free; docs subset of table; loops: whole "
        "table, unconditional substitution, search loop exits only on npos and "
        "restarts at match + |pattern|")
PREFIX = "tfel_unicode_mangling_"
ACCESSOR = "tfel::unicode::getSupportedUnicodeCharactersDescriptions"


def decode_utf8(b):
    """list of code points or None if not well-formed."""
    try:
        s = b.decode("utf-8")
    except UnicodeDecodeError:
        return None
    return [ord(c) for c in s]


def table(rep, f, fields):
    inits = []
    for sid, n in sorted(f.stmts.items()):
        if n["k"] == "InitListExpr" and n.get("t", "").endswith("UnicodeCharacterDescription"):
            ks = [f.strip(c) for c in f.kids(sid)]
            vals = []
            for c in ks:
                cn = f.stmts[c]
                vals.append(cn.get("value") if cn["k"] == "StringLiteral" else cn.get("name"))
            inits.append((sid, vals))
    iu, im = fields.index("uc"), fields.index("m")
    ents = []
    for sid, vals in inits:
        if len(vals) < 2 or not isinstance(vals[iu], str) or not isinstance(vals[im], str):
            raise AnalysisBroken("table entry at %s is not made of string literals" % f.short_loc(sid))
        ents.append((vals[iu], vals[im], f.short_loc(sid)))
    return ents


def check_table(rep, ents, control=False):
    nv = 0

    def fail(key, msg):
        nonlocal nv
        nv += 1
        if not control:
            rep.fail(key, msg)

    seen_u, seen_m = {}, {}
    for uc, m, loc in ents:
        b = uc.encode("utf-8", "surrogateescape")
        cps = decode_utf8(b)
        label = "U+" + "+".join("%04X" % c for c in cps) if cps else repr(b)
        if cps is None or not cps or any(x < 0x80 for x in b):
            fail("TABLE-CHAR@%s" % m, "%s: character of entry %s is not a non-ASCII well-formed UTF-8 sequence: %r" % (loc, m, b))
            continue
        if not control:
            rep.count("table entries")
        # T1
        ok = False
        if m.startswith(PREFIX):
            tail = m[len(PREFIX):]
            cands = [tail.split("_")]
            if len(cps) > 1 and "_" not in tail and len(tail) % len(cps) == 0:
                k = len(tail) // len(cps)
                cands.append([tail[i * k:(i + 1) * k] for i in range(len(cps))])
            for parts in cands:
                if len(parts) == len(cps) and all(re.fullmatch(r"[0-9A-Fa-f]{4,6}", p) for p in parts) \
                        and [int(p, 16) for p in parts] == cps:
                    ok = True
        if ok:
            if not control:
                rep.ok("%s -> %s encodes its code point" % (label, m), sample=len(rep.samples) < 4)
        else:
            fail("TABLE-CODEPOINT@%s" % label,
                 "%s: mangled name %s does not encode the code point %s of its character" % (loc, m, label))
        # T3
        if re.fullmatch(r"[A-Za-z_][A-Za-z0-9_]*", m):
            if not control:
                rep.ok("%s is an ASCII identifier" % m, sample=False)
        else:
            fail("TABLE-ASCII@%s" % label, "%s: mangled name %r is not an ASCII identifier" % (loc, m))
        # T2
        if b in seen_u:
            fail("TABLE-DUP-CHAR@%s" % label, "%s: character %s listed twice (also %s)" % (loc, label, seen_u[b]))
        elif not control:
            rep.ok("%s listed once" % label, sample=False)
        seen_u.setdefault(b, loc)
        if m in seen_m:
            fail("TABLE-DUP-MANGLED@%s" % m, "%s: mangled name %s used twice (also %s)" % (loc, m, seen_m[m]))
        elif not control:
            rep.ok("%s used once" % m, sample=False)
        seen_m.setdefault(m, loc)
    # T4
    ms = sorted(seen_m)
    us = sorted(seen_u)
    for i, a in enumerate(ms):
        bad = [b for b in ms if b != a and a in b]
        if bad:
            fail("TABLE-SUBSTRING@%s" % a, "mangled name %s is a substring of %s: sequential demangling is order dependent" % (a, bad[0]))
        elif not control:
            rep.ok("%s is a substring of no other mangled name" % a, sample=False)
    for a in us:
        bad = [b for b in us if b != a and a in b]
        if bad:
            fail("TABLE-SUBSTRING-CHAR@%r" % a, "character bytes %r are a substring of %r" % (a, bad[0]))
        elif not control:
            rep.ok("character %r is a substring of no other" % a, sample=False)
    return nv


def doc_symbols():
    p = os.path.join(REPO, "docs/web/unicode.md")
    if not os.path.exists(p):
        raise AnalysisBroken("docs/web/unicode.md vanished")
    txt = open(p, encoding="utf-8").read()
    i = txt.find("# List of all supported symbols")
    if i < 0:
        raise AnalysisBroken("section 'List of all supported symbols' not found in docs/web/unicode.md")
    syms = []
    for line in txt[i:].splitlines():
        if line.startswith("|"):
            for cell in line.strip().strip("|").split("|"):
                c = cell.strip()
                if c:
                    syms.append(c)
    return syms


# ---------------------------------------------------------------- loops
def loop_rule(rep, f, want, who, fields_order):
    """S1: range-for over the accessor; body = unconditional call with
    (loopvar.A, loopvar.B) in the wanted field order."""
    fors = [s for s, n in f.stmts.items() if n["k"] == "CXXForRangeStmt"]
    ok_any = False
    for s in fors:
        n = f.stmts[s]
        ri = n.get("rangeInit")
        src = None
        if ri:
            r = f.strip(ri)
            rn = f.stmts[r]
            if rn["k"] == "CallExpr" and rn.get("callee") == ACCESSOR:
                src = "call"
            elif rn["k"] == "DeclRefExpr":
                # local bound to the accessor's result
                for ds, dn in f.stmts.items():
                    if dn["k"] == "DeclStmt":
                        for d in dn["decls"]:
                            if d.get("declId") == rn.get("declId") and d.get("init"):
                                i = f.strip(d["init"])
                                if f.stmts[i]["k"] == "CallExpr" and f.stmts[i].get("callee") == ACCESSOR:
                                    src = "local"
        if src is None:
            continue
        rep.count("table loops")
        lv = n.get("loopVarId")
        body = f.kids(s)[-1]
        # control flow inside the body
        ctl = [x for x in f.walk(body) if f.stmts[x]["k"] in
               ("IfStmt", "BreakStmt", "ContinueStmt", "ReturnStmt", "GotoStmt",
                "SwitchStmt", "ConditionalOperator", "CXXThrowExpr")]
        calls = []
        for x in f.walk(body):
            xn = f.stmts[x]
            if xn["k"] in ("CallExpr", "CXXOperatorCallExpr", "CXXMemberCallExpr"):
                memb = []
                for a in xn.get("args", []):
                    for y in f.walk(a):
                        yn = f.stmts[y]
                        if yn["k"] == "MemberExpr" and yn.get("declKind") == "Field":
                            b = f.strip(f.kids(y)[0]) if f.kids(y) else None
                            if b and f.stmts[b]["k"] == "DeclRefExpr" and f.stmts[b].get("declId") == lv:
                                memb.append(yn["member"])
                if memb:
                    calls.append((x, memb))
        # keep innermost calls only (an enclosing 'r = f(...)' also sees the fields)
        calls = [c for c in calls
                 if not any(o[0] != c[0] and o[0] in set(f.walk(c[0])) for o in calls)]
        key = "TABLE-LOOP@%s" % who
        if ctl:
            rep.fail(key + "#conditional",
                     "%s: the loop over the character table contains control flow (%s at %s): some entries may be skipped"
                     % (who, f.stmts[ctl[0]]["k"], f.short_loc(ctl[0])))
            ok_any = True
            continue
        good = [c for c in calls if c[1] == want]
        if len(good) == 1 and len(calls) == 1:
            rep.ok("%s: range-for over the whole table, unconditional substitution (%s -> %s)" % (who, want[0], want[1]))
            ok_any = True
            return good[0][0]
        rep.fail(key + "#arguments",
                 "%s: substitution call in the table loop uses fields %s, expected exactly one call with %s"
                 % (who, [c[1] for c in calls], want))
        ok_any = True
    if not ok_any and not fors:
        raise AnalysisBroken("%s: no range-for statement (unrecognised iteration idiom)" % who)
    if not ok_any:
        rep.fail("TABLE-LOOP@%s#source" % who,
                 "%s: no loop ranges over the whole result of %s" % (who, ACCESSOR))
    return None


def search_loop_rule(rep, f, who, control=False):
    """S2 on a substitution routine f. Returns number of violations."""
    nv = 0

    def fail(key, msg):
        nonlocal nv
        nv += 1
        if not control:
            rep.fail(key, msg)

    # find calls: <str>.find(pattern, pos)
    finds = []
    for s, n in f.stmts.items():
        if n["k"] == "CXXMemberCallExpr" and (n.get("callee") or "").endswith("::find") and len(n.get("args", [])) >= 2:
            finds.append(s)
    if len(finds) < 2:
        raise AnalysisBroken("%s: fewer than two find calls (unrecognised search idiom)" % who)
    pat = set()
    posv = set()
    for s in finds:
        a = f.stmts[s]["args"]
        p0, p1 = f.strip(a[0]), f.strip(a[1])
        # pattern may be wrapped in a conversion (const char* -> string_view)
        names = [f.stmts[y].get("declId") for y in f.walk(a[0]) if f.stmts[y]["k"] == "DeclRefExpr" and f.stmts[y].get("declKind") in ("ParmVar", "Var")]
        pat |= set(names[:1])
        if f.stmts[p1]["k"] != "DeclRefExpr":
            raise AnalysisBroken("%s: start position of find at %s is not a variable" % (who, f.short_loc(s)))
        posv.add(f.stmts[p1]["declId"])
    if len(pat) != 1 or len(posv) != 1:
        raise AnalysisBroken("%s: find calls disagree on pattern/position variables" % who)
    pat = pat.pop()
    pos = posv.pop()
    # the match variable: p = find(...)
    matchv = set()
    for s, n in f.stmts.items():
        if n["k"] == "BinaryOperator" and n["op"] == "=":
            l, r = f.kids(s)
            if f.strip(r) in finds and f.stmts[f.strip(l)]["k"] == "DeclRefExpr":
                matchv.add(f.stmts[f.strip(l)]["declId"])
    if len(matchv) != 1:
        raise AnalysisBroken("%s: result of find is not assigned to one variable" % who)
    mv = matchv.pop()

    def is_patlen(x):
        """expression denoting |pattern|: pattern.size()/length(), strlen(pattern),
        or a variable initialised once from such an expression."""
        x = f.strip(x)
        n = f.stmts[x]
        if n["k"] == "CXXMemberCallExpr" and re.search(r"::(size|length)$", n.get("callee") or ""):
            o = f.strip(n.get("obj"))
            return f.stmts[o]["k"] == "DeclRefExpr" and f.stmts[o]["declId"] == pat
        if n["k"] == "CallExpr" and (n.get("callee") or "") in ("strlen", "std::strlen"):
            o = f.strip(n["args"][0])
            return f.stmts[o]["k"] == "DeclRefExpr" and f.stmts[o]["declId"] == pat
        if n["k"] == "DeclRefExpr":
            did = n["declId"]
            inits = []
            for ds, dn in f.stmts.items():
                if dn["k"] == "DeclStmt":
                    for d in dn["decls"]:
                        if d.get("declId") == did and d.get("init"):
                            inits.append(d["init"])
            writes = [s for s, m in f.stmts.items()
                      if m["k"] in ("BinaryOperator", "CompoundAssignOperator") and m["op"].endswith("=") and m["op"] not in ("==", "!=", "<=", ">=")
                      and f.stmts[f.strip(f.kids(s)[0])].get("declId") == did]
            return len(inits) == 1 and not writes and is_patlen(inits[0])
        return False

    # the loop: a while whose condition is mv != npos
    loops = [s for s, n in f.stmts.items() if n["k"] in ("WhileStmt", "ForStmt", "DoStmt")]
    sl = None
    for s in loops:
        inner = [x for x in f.walk(s) if x in finds]
        if inner:
            sl = s
    if sl is None:
        raise AnalysisBroken("%s: no loop contains a find call" % who)
    if not control:
        rep.count("search loops")
    ln = f.stmts[sl]
    body = f.kids(sl)[-1]
    cond = [c for c in f.kids(sl) if c != body]
    condtxt = f.text(cond[0]) if cond else "?"
    cn = f.stmts[f.strip(cond[0])] if cond else None
    okc = False
    if cn is not None and cn["k"] == "BinaryOperator" and cn["op"] == "!=":
        l, r = [f.strip(x) for x in f.kids(f.strip(cond[0]))]
        for a, b in ((l, r), (r, l)):
            an = f.stmts[a]
            if an["k"] == "DeclRefExpr" and an.get("declId") == mv and f.stmts[b].get("name") == "npos":
                okc = True
            # (p = s.find(c, p)) != npos idiom
            if an["k"] == "BinaryOperator" and an["op"] == "=" and f.stmts[b].get("name") == "npos":
                okc = True
    if okc:
        if not control:
            rep.ok("%s: search loop runs while the match position differs from npos (%s)" % (who, condtxt))
    else:
        fail("SEARCH-LOOP@%s#exit" % who, "%s: the search loop condition is %s, not 'match != npos'" % (who, condtxt))
    esc = [x for x in f.walk(body) if f.stmts[x]["k"] in ("BreakStmt", "ReturnStmt", "GotoStmt", "CXXThrowExpr")]
    if esc:
        fail("SEARCH-LOOP@%s#early-exit" % who, "%s: %s leaves the search loop before the pattern is exhausted (%s)"
             % (who, f.stmts[esc[0]]["k"], f.short_loc(esc[0])))
    elif not control:
        rep.ok("%s: no break/return inside the search loop" % who)
    # writes to pos inside the loop: all must be mv + |pattern|
    wr = []
    for x in f.walk(body):
        n = f.stmts[x]
        if n["k"] in ("BinaryOperator", "CompoundAssignOperator") and n["op"] in ("=", "+=", "-=") \
                and f.stmts[f.strip(f.kids(x)[0])].get("declId") == pos:
            wr.append(x)
        if n["k"] == "UnaryOperator" and n["op"] in ("++", "--") and f.stmts[f.strip(f.kids(x)[0])].get("declId") == pos:
            wr.append(x)
    if not wr:
        fail("SEARCH-LOOP@%s#no-advance" % who, "%s: the start position is never advanced in the search loop" % who)
    for x in wr:
        n = f.stmts[x]
        good = False
        if n["k"] == "BinaryOperator" and n["op"] == "=":
            r = f.strip(f.kids(x)[1])
            rn = f.stmts[r]
            if rn["k"] == "BinaryOperator" and rn["op"] == "+":
                a, b = [f.strip(y) for y in f.kids(r)]
                for u, v in ((a, b), (b, a)):
                    if f.stmts[u]["k"] == "DeclRefExpr" and f.stmts[u]["declId"] == mv and is_patlen(v):
                        good = True
        if good:
            if not control:
                rep.ok("%s: next search starts at match + |pattern| (%s)" % (who, f.text(x)))
        else:
            fail("SEARCH-LOOP@%s#advance" % who,
                 "%s: %s at %s: the next search does not start at 'match + length of the pattern' (occurrences skipped or rescanned)"
                 % (who, f.text(x), f.short_loc(x)))
    # the in-loop find must come after the advance: the advance dominates it in the body (straight-line body required)
    order = [x for x in f.walk(body) if x in wr or x in finds]
    if order and order[-1] in wr:
        fail("SEARCH-LOOP@%s#order" % who, "%s: the position is advanced after the next search was issued" % who)
    return nv


def run(tier):
    rep = Report("C33", tier, "proof", RULE)
    u1 = os.path.join(REPO, "src/UnicodeSupport/UnicodeSupport.cxx")
    u2 = os.path.join(REPO, "tfel-unicode-filt/src/tfel-unicode-filt.cxx")
    u3 = os.path.join(REPO, "src/Utilities/StringAlgorithms.cxx")
    d = cfgdump([u1, u2, u3], os.path.join(OUT, "C33", "dump"),
                funcs=r"^(tfel::unicode::(getSupported|getMangled)|process$|tfel::utilities::replace_all)",
                records=r"^tfel::unicode::UnicodeCharacterDescription$")
    funcs = load_functions(d)
    recs = [r for r in d[u1]["records"] if r["qname"].endswith("UnicodeCharacterDescription")]
    if not recs:
        raise AnalysisBroken("record UnicodeCharacterDescription not found")
    fields = [x["name"] for x in recs[0]["fields"]]
    if fields[:2] != ["uc", "m"]:
        raise AnalysisBroken("fields of UnicodeCharacterDescription changed: %s (the character/mangled roles must be re-confirmed)" % fields)
    acc = [f for f in funcs if f.qname == ACCESSOR]
    if not acc:
        raise AnalysisBroken("anchor %s vanished" % ACCESSOR)
    ents = table(rep, acc[0], fields)
    check_table(rep, ents)
    rep.floor("table entries", 100)
    # T5
    have = set(e[0] for e in ents)
    docs = doc_symbols()
    rep.count("documented symbols", len(docs))
    rep.floor("documented symbols", 100)
    for s in docs:
        if s in have:
            rep.ok("documented symbol %s is in the table" % s, sample=False)
        else:
            rep.fail("DOC-SYMBOL@U+%s" % "+".join("%04X" % ord(c) for c in s),
                     "docs/web/unicode.md lists %s as supported but the table has no entry for it: it is left unmangled" % s)
    rep.extra["table_not_documented"] = sorted(have - set(docs))
    # S1
    gm = [f for f in funcs if f.qname == "tfel::unicode::getMangledString" and f.parent is None]
    pr = [f for f in funcs if f.qname == "process" and f.unit == u2]
    if not gm or not pr:
        raise AnalysisBroken("anchor getMangledString / process vanished")
    c1 = loop_rule(rep, gm[0], ["uc", "m"], "tfel::unicode::getMangledString", fields)
    c2 = loop_rule(rep, pr[0], ["m", "uc"], "tfel-unicode-filt process", fields)
    rep.floor("table loops", 2)
    # S2: which routines do the loops call?
    kids = children_of(funcs)
    lam = kids.get((gm[0].unit, gm[0].id), [])
    targets = []
    if c1 is not None:
        n = gm[0].stmts[c1]
        if n["k"] == "CXXOperatorCallExpr" and lam:
            targets.append((lam[0], "getMangledString::replace_all closure"))
        else:
            raise AnalysisBroken("getMangledString substitutes through %s: routine not analysed" % n.get("callee"))
    if c2 is not None:
        n = pr[0].stmts[c2]
        cal = n.get("callee")
        if cal != "tfel::utilities::replace_all":
            raise AnalysisBroken("process substitutes through %s: routine not analysed" % cal)
        # the value overload delegates to the (string&, sv, sv, sv, size_t) overload
        impl = [f for f in funcs if f.qname == "tfel::utilities::replace_all" and len(f.params) == 5]
        deleg = [f for f in funcs if f.qname == "tfel::utilities::replace_all" and len(f.params) == 4
                 and "string_view" in f.params[1]["type"]]
        if not impl or not deleg:
            raise AnalysisBroken("tfel::utilities::replace_all overloads not found")
        dl = deleg[0]
        fw = [s for s, m in dl.stmts.items() if m["k"] == "CallExpr" and m.get("callee") == "tfel::utilities::replace_all"]
        good = False
        if len(fw) == 1:
            a = [dl.stmts[dl.strip(x)] for x in dl.stmts[fw[0]]["args"]]
            names = [x.get("name") for x in a]
            pn = [p["name"] for p in dl.params]
            good = names[1:] == pn
        if good:
            rep.ok("replace_all(s,s1,s2,ps) forwards (s,s1,s2,ps) unchanged to the in-place overload and returns its result")
        else:
            rep.fail("SEARCH-LOOP@tfel::utilities::replace_all#forward",
                     "the value overload of replace_all does not forward its arguments unchanged")
        targets.append((impl[0], "tfel::utilities::replace_all"))
    for f, who in targets:
        search_loop_rule(rep, f, who)
    if not rep.violations:
        rep.floor("search loops", 2)
    # positive controls: rule must fire on broken tables
    bad = [("Α", PREFIX + "0392", "ctl"), ("Β", PREFIX + "0392", "ctl")]
    if check_table(rep, bad, control=True) < 2:
        raise AnalysisBroken("positive control of the table rules is silent")
    bad2 = [("Α", PREFIX + "0391", "ctl"), ("\U00003910", PREFIX + "03910", "ctl")]
    if check_table(rep, bad2, control=True) < 1:
        raise AnalysisBroken("positive control of the substring rule is silent")
    rep.assumptions += ["inputs of the demangler do not contain the mangling prefix (hypothesis of the property)",
                        "std::string::find / resize / copy behave as specified; the byte-copy arithmetic of the substitution routines is not decided (only exhaustiveness and progress of the search)"]
    return rep
