#!/bin/bash
cd /tmp/replay/c39b; rm -rf src include
export LD_LIBRARY_PATH=$(ls -d /repo/_build/src/*/ /repo/_build/mfront/src | tr '\n' ':')
/repo/_build/mfront/src/mfront --interface=generic MPB.mfront >/dev/null 2>&1
g++ -std=gnu++20 -O1 -I/repo/include -I/repo/_build/include -I/repo/mfront/include -Iinclude -I. main.cxx src/*.cxx -o main -L/repo/_build/src/Material -L/repo/_build/src/Math -L/repo/_build/src/Utilities -L/repo/_build/src/Exception -L/repo/_build/src/NUMODIS -lTFELMaterial -lTFELMath -lTFELUtilities -lTFELException -lTFELNUMODIS 2>&1 | grep -E " error" | head -5
./main 2>&1 | grep "policy=2"
