"""C50 — a rejected MTest step leaves no trace: pairing and effect-coverage rules.

 R1 pairing (CFG of GenericSolver::execute, the time-stepping driver): every
    attempt (iterate / iterate2) whose verdict is 'not converged' is followed
    by scs.revert() before the next attempt; on the converged branch
    scs.update(dt) precedes the advance of time 't += dt'; nothing else
    restarts an attempt.
 R2 update/revert symmetry, read from the AST: every end-of-step field that
    update() commits into its beginning-of-step sibling (X0 = X1) is restored
    by revert() (X1 = X0), for CurrentState and StudyCurrentState; the
    structure-level update/revert visit every integration-point state.
 R3 who-may-write the beginning-of-step fields (s0, s_1, iv0, iv_1, se0, de0,
    u0, u_1, dt_1 ...): among the functions reachable from iterate/iterate2 in
    the call graph of mtest/src (virtual calls resolved by name), none writes
    such a field directly (assignment, element assignment, std::copy/fill
    destination, resize/clear/swap); the fields recomputed from immutable
    data before each attempt (e0, e_th0, esv0) are listed exceptions.
Not decided: equality of the final state with a direct run; writes through
references that escape the direct idioms.
"""
import os, re
from common import *
from cfg import *

RULE = ("pairing automaton on the time-stepping driver (revert after a rejected attempt, update before advancing time); "
        "update/revert symmetry over the state records; who-may-write the beginning-of-step fields among the functions reachable "
        "from an attempt")
BEGIN_FIELDS = re.compile(r"^(.*0|.*_1)$")
RECOMPUTED = {"e0": "recomputed from u0 (not written during an attempt) by both drivers before each attempt",
              "e_th0": "thermal strain at the beginning of the step, recomputed from the evolutions at time t",
              "esv0": "external state variables at the beginning of the step, recomputed from the evolutions at time t",
              "u10": "previous iterate of the unknowns (acceleration algorithms): reset by revert()"}
STATE_CLASSES = ("mtest::CurrentState", "mtest::StudyCurrentState", "mtest::StructureCurrentState")


def rel(loc):
    return loc.replace(REPO + "/", "")


def copies(f, cls_hint=None):
    """[(dst field, src field)] for statements 'a.X = a.Y' / 'this->X = this->Y' in f."""
    res = []
    for s, n in f.stmts.items():
        bo = None
        if n["k"] == "BinaryOperator" and n["op"] == "=":
            bo = f.kids(s)[:2]
        elif n["k"] == "CXXOperatorCallExpr" and n.get("op") == "=" and len(n.get("args", [])) == 2:
            bo = n["args"]
        if not bo:
            continue
        l, r = f.stmts[f.strip(bo[0])], f.stmts[f.strip(bo[1])]
        if l["k"] == "MemberExpr" and r["k"] == "MemberExpr" and l.get("declKind") == "Field" and r.get("declKind") == "Field":
            res.append((l["member"], r["member"], l.get("fieldClass")))
    return res


def direct_writes(f):
    """[(field, class, sid)] written directly in f."""
    res = []

    def field_of(x):
        """field MemberExpr at the root of an lvalue expression x (through (), [], .begin())."""
        x = f.strip(x)
        if x is None or x <= 0:
            return None
        n = f.stmts[x]
        if n["k"] == "MemberExpr" and n.get("declKind") == "Field" and n.get("fieldClass") in STATE_CLASSES:
            return n
        if n["k"] == "CXXOperatorCallExpr" and n.get("op") in ("()", "[]") and n.get("args"):
            return field_of(n["args"][0])
        if n["k"] == "CXXMemberCallExpr" and (n.get("callee") or "").rsplit("::", 1)[-1] in ("begin", "data", "front", "back", "at"):
            return field_of(n.get("obj"))
        if n["k"] == "UnaryOperator" and n["op"] in ("&", "*"):
            return field_of(f.kids(x)[0])
        if n["k"] == "ArraySubscriptExpr":
            return field_of(f.kids(x)[0])
        return None
    for s, n in f.stmts.items():
        tgt = None
        if n["k"] in ("BinaryOperator", "CompoundAssignOperator") and n["op"] in ("=", "+=", "-=", "*=", "/="):
            tgt = field_of(f.kids(s)[0])
        elif n["k"] == "CXXOperatorCallExpr" and n.get("op") in ("=", "+=", "-=", "*=", "/=") and n.get("args"):
            tgt = field_of(n["args"][0])
        elif n["k"] == "UnaryOperator" and n["op"] in ("++", "--"):
            tgt = field_of(f.kids(s)[0])
        elif n["k"] == "CallExpr" and (n.get("callee") or "") in ("std::copy", "std::fill", "std::transform", "std::copy_n", "std::fill_n"):
            a = n.get("args", [])
            idx = {"std::copy": 2, "std::transform": -1, "std::copy_n": 2}.get(n["callee"], 0)
            if a:
                tgt = field_of(a[idx])
        elif n["k"] == "CXXMemberCallExpr" and (n.get("callee") or "").rsplit("::", 1)[-1] in ("resize", "clear", "swap", "push_back", "assign", "fill"):
            tgt = field_of(n.get("obj"))
        if tgt is not None:
            res.append((tgt["member"], tgt.get("fieldClass"), s))
    return res


def run(tier):
    rep = Report("C50", tier, "other", RULE)
    units = units_under("mtest/src")
    d = cfgdump(units, os.path.join(OUT, "C50", "dump"), funcs=r"^mtest::", calls=True, root=os.path.join(REPO, "mtest"))
    funcs = load_functions(d)
    rep.count("units analysed", len(units))
    rep.count("functions analysed", len(funcs))
    kids = children_of(funcs)
    byq = by_qname([f for f in funcs if f.parent is None])
    # ------------------------------------------------------------ R1
    ex = [f for f in byq.get("mtest::GenericSolver::execute", []) if len(f.params) == 6]
    if not ex:
        raise AnalysisBroken("GenericSolver::execute(scs, wk, s, o, ti, te) not found")
    f = ex[0]
    lam = kids.get((f.unit, f.id), [])
    attempt_ops = set()
    for g in lam:
        if any(n["k"] == "CallExpr" and (n.get("callee") or "").startswith("mtest::iterate") for n in g.stmts.values()):
            attempt_ops.add(g.id)

    def is_attempt(s):
        n = f.stmts[s]
        if n["k"] == "CallExpr" and (n.get("callee") or "").startswith("mtest::iterate"):
            return True
        if n["k"] == "CXXOperatorCallExpr" and n.get("op") == "()":
            # immediately invoked closure that calls iterate / iterate2
            for x in f.walk(s):
                if f.stmts[x]["k"] == "LambdaExpr" and f.stmts[x].get("lambdaOp") in attempt_ops:
                    return True
        return False
    conv = [d_["declId"] for n in f.stmts.values() if n["k"] == "DeclStmt" for d_ in n["decls"] if d_.get("name") == "converged"]
    if not conv:
        raise AnalysisBroken("local 'converged' of GenericSolver::execute not found")

    def atom(f_, s):
        n = f_.stmts[s]
        if n["k"] == "DeclRefExpr" and n.get("declId") in conv:
            return ("converged", False)
        return None
    bad = []
    nattempts = [0]

    def el(st, b, i, e):
        facts, phase = st
        if "s" not in e:
            return (st,)
        s = e["s"]
        n = f.stmts[s]
        if is_attempt(s):
            nattempts[0] += 1
            if phase == "pending":
                bad.append((s, "a new attempt starts although the previous, rejected attempt was not reverted"))
            return (((), "pending"),)
        if n["k"] == "CXXMemberCallExpr":
            cal = n.get("callee") or ""
            if cal == "mtest::StudyCurrentState::revert":
                return ((facts, "clean"),)
            if cal == "mtest::StudyCurrentState::update":
                if dict(facts).get("converged") is not True:
                    bad.append((s, "scs.update(dt) is reached although the attempt is not known to have converged"))
                return ((facts, "clean"),)
        if n["k"] == "CompoundAssignOperator" and n["op"] == "+=" and f.text(f.kids(s)[0]) == "t":
            if phase != "clean":
                bad.append((s, "time is advanced before the state was committed by scs.update(dt)"))
        return (st,)

    def ed(st, b, succ, pol):
        facts, phase = st
        fx = branch(f, b, pol, dict(facts), atom)
        if fx is None:
            return ()
        return ((tuple(sorted(fx.items())), phase),)
    IN, _OUT = forward(f, [((), "clean")], el, ed)
    rep.count("attempt sites in the time-stepping driver", 1 if nattempts[0] else 0)
    if not nattempts[0]:
        raise AnalysisBroken("no attempt (iterate/iterate2) found in GenericSolver::execute")
    seenb = set()
    for s, why in bad:
        if why in seenb:
            continue
        seenb.add(why)
        rep.fail("PAIRING@mtest::GenericSolver::execute#%s" % why.split(" ")[0], "%s: GenericSolver::execute: %s" % (rel(f.short_loc(s)), why))
    if not bad:
        rep.ok("GenericSolver::execute: a rejected attempt is always reverted before the next one; update(dt) (under 'converged') precedes t += dt")
    # a normal exit with a pending (rejected, unreverted) attempt is fine only through raise; exits with pending state:
    for facts, phase in IN.get(f.exit, ()):
        if phase == "pending" and dict(facts).get("converged") is not True:
            rep.fail("PAIRING@mtest::GenericSolver::execute#exit", "GenericSolver::execute can return normally after a rejected attempt that was not reverted")
    # ------------------------------------------------------------ R2
    up = {"mtest::CurrentState": [g for g in byq.get("mtest::update", []) if g.params and "CurrentState" in g.params[0]["type"] and "Structure" not in g.params[0]["type"]],
          "mtest::StudyCurrentState": byq.get("mtest::StudyCurrentState::update", [])}
    rv = {"mtest::CurrentState": [g for g in byq.get("mtest::revert", []) if g.params and "CurrentState" in g.params[0]["type"] and "Structure" not in g.params[0]["type"]],
          "mtest::StudyCurrentState": byq.get("mtest::StudyCurrentState::revert", [])}
    for cls in up:
        if not up[cls] or not rv[cls]:
            raise AnalysisBroken("update/revert of %s not found" % cls)
        cu = [(a, b) for a, b, c in copies(up[cls][0])]
        cr = [(a, b) for a, b, c in copies(rv[cls][0])]
        for dst, src in cu:
            if not src.endswith("1"):
                continue        # shifts of older history (X_1 = X0)
            rep.count("committed fields")
            if (src, dst) in cr:
                rep.ok("%s: update commits %s = %s and revert restores %s = %s" % (cls, dst, src, src, dst))
            else:
                rep.fail("SYMMETRY@%s#%s" % (cls, src), "%s: update() commits %s = %s but revert() does not restore %s = %s: a rejected "
                         "attempt leaves its value of %s behind" % (cls, dst, src, src, dst, src))
    for q in ("mtest::StructureCurrentState::update", "mtest::StructureCurrentState::revert"):
        g = byq.get(q, [None])[0]
        if g is None:
            raise AnalysisBroken("%s not found" % q)
        loops = [n for n in g.stmts.values() if n["k"] == "CXXForRangeStmt"]
        called = [n.get("callee") for n in g.stmts.values() if n["k"] == "CallExpr"]
        want = "mtest::" + q.rsplit("::", 1)[-1]
        skip = [n["k"] for n in g.stmts.values() if n["k"] in ("BreakStmt", "ContinueStmt", "IfStmt")]
        if loops and want in called and not skip:
            rep.ok("%s visits every integration-point state" % q)
        else:
            rep.fail("SYMMETRY@%s" % q, "%s does not apply %s to every integration-point state" % (q, want))
    # ------------------------------------------------------------ R3
    edges = {}       # qname -> set of (callee qname, virtual?, nargs)
    sig = {}         # unqualified name -> set of (qname, nparams)
    for g in funcs:
        top = g
        while top.parent is not None:
            par = [h for h in funcs if h.unit == top.unit and h.id == top.parent]
            if not par:
                break
            top = par[0]
        e_ = edges.setdefault(top.qname, set())
        for n in g.stmts.values():
            if n["k"] in ("CallExpr", "CXXMemberCallExpr", "CXXConstructExpr", "CXXOperatorCallExpr") and n.get("callee"):
                e_.add((n["callee"], bool(n.get("virtual")), len(n.get("args", []))))
        if g.parent is None:
            sig.setdefault(g.qname.rsplit("::", 1)[-1], set()).add((g.qname, len(g.params)))
    reach, st = set(), ["mtest::iterate", "mtest::iterate2"]
    while st:
        q = st.pop()
        if q in reach:
            continue
        reach.add(q)
        for c, virt, na in edges.get(q, ()):
            if c in edges and c not in reach:
                st.append(c)
            if virt:
                # dynamic dispatch: every mtest method of that name and arity may be the target
                for alt, np_ in sig.get(c.rsplit("::", 1)[-1], ()):
                    if alt not in reach and np_ == na:
                        st.append(alt)
    reach -= {"mtest::StudyCurrentState::update", "mtest::StudyCurrentState::revert", "mtest::update", "mtest::revert",
              "mtest::StructureCurrentState::update", "mtest::StructureCurrentState::revert"}
    rep.count("functions reachable from an attempt", len(reach))
    nw = 0
    for g in funcs:
        top = g
        if g.qname not in reach and not (g.parent is not None):
            continue
        if g.parent is not None:
            # closures belong to their enclosing function
            par = [h for h in funcs if h.unit == g.unit and h.id == g.parent]
            if not par or par[0].qname not in reach:
                continue
        for field, cls, s in direct_writes(g):
            nw += 1
            if BEGIN_FIELDS.match(field) and field not in RECOMPUTED:
                rep.fail("BEGIN-OF-STEP-WRITE@%s#%s" % (g.qname, field), "%s: %s, reachable from an attempt, writes the beginning-of-step "
                         "field %s of %s: a rejected attempt changes the state it restarts from" % (rel(g.short_loc(s)), g.qname, field, cls))
    rep.count("direct writes to state fields during an attempt", nw)
    if not any(v["key"].startswith("BEGIN-OF-STEP-WRITE") for v in rep.violations):
        rep.ok("no function reachable from an attempt writes a beginning-of-step field directly (%d direct writes inspected; exceptions: %s)"
               % (nw, ", ".join(sorted(RECOMPUTED))))
    rep.floor("committed fields", 5)
    rep.floor("functions reachable from an attempt", 50)
    rep.floor("direct writes to state fields during an attempt", 10)
    rep.assumptions += ["writes through references that escape the direct idioms (assignment, element assignment, std::copy/fill "
                        "destination, resize/clear/swap) are not tracked", "virtual calls are resolved by method name within mtest::",
                        "counters (iterations, subSteps) are not part of the state compared by the property"]
    return rep
