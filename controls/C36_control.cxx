// positive control of the C36 rules (not repository code): each statement below must be reported
#include <ctime>
#include <cstdlib>
#include <chrono>
#include <random>
#include <unordered_map>
#include <iostream>
#include <string>
#include <unistd.h>
#include <sys/stat.h>
#include <filesystem>
#include <fstream>
void verif_ctl(std::ostream& os) {
  os << "// generated on " << time(nullptr) << '\n';                        // clock
  const auto n = std::chrono::system_clock::now();                          // chrono
  (void)n;
  os << rand() << getpid() << '\n';                                          // random, pid
  std::unordered_map<std::string, int> m;
  for (const auto& kv : m) { os << kv.first; }                               // unordered iteration
  int x = 0;
  os << &x;                                                                  // pointer insertion
  struct stat b;
  if (stat("src/out.cxx", &b) == 0) { os << "kept"; }                         // status read
  if (std::filesystem::exists("include/out.hxx")) { os << "kept"; }          // status read
  std::ifstream previous("src/out.cxx");                                     // reads a previous output
  os << std::getenv("HOME");                                                 // undocumented environment variable
}
