"""OWNERSHIP rule: a smart pointer must not adopt a raw pointer that another
smart pointer already owns (second owner => double free), nor a pointer to an
object it did not allocate.

For every construction / reset / assignment of std::shared_ptr / std::unique_ptr
from a raw pointer argument, the origin of the argument is traced through
casts, parentheses and local raw-pointer variables:

  new-expression, nullptr, release()          -> fresh      (accepted)
  sp.get(), sp.operator->(), &*sp, &(*it) ... -> borrowed   (VIOLATION)
  this                                        -> self       (VIOLATION unless enable_shared_from_this idiom: not used here)
  parameter / call result / member            -> unknown    (counted, not reported)
"""
from cfg import *

SMART = ("std::shared_ptr", "std::unique_ptr", "std::__shared_ptr")
CASTS = ("CXXDynamicCastExpr", "CXXStaticCastExpr", "CXXReinterpretCastExpr", "CXXConstCastExpr",
         "CStyleCastExpr", "CXXFunctionalCastExpr", "ImplicitCastExpr", "ParenExpr")


def _is_smart(t):
    t = (t or "").replace("const ", "")
    return t.startswith(SMART)


def origin(f, sid, depth=0, seen=None):
    """returns (kind, site) with kind in fresh|borrowed|self|unknown."""
    if seen is None:
        seen = set()
    sid = f.strip(sid)
    if sid is None or sid <= 0 or depth > 20:
        return ("unknown", sid)
    n = f.stmts[sid]
    k = n["k"]
    if k in CASTS or k in TRANSPARENT:
        ks = f.kids(sid)
        return origin(f, ks[0], depth + 1, seen) if ks else ("unknown", sid)
    if k == "CXXNewExpr":
        return ("fresh", sid)
    if k in ("CXXNullPtrLiteralExpr", "GNUNullExpr") or (k == "IntegerLiteral" and n.get("value") == 0):
        return ("fresh", sid)
    if k == "CXXThisExpr":
        return ("self", sid)
    if k == "CXXMemberCallExpr":
        cal = n.get("callee") or ""
        cls = n.get("calleeClass") or ""
        nm = cal.rsplit("::", 1)[-1]
        if cls.startswith(SMART):
            if nm == "get" or nm == "operator->":
                return ("borrowed", sid)
            if nm == "release":
                return ("fresh", sid)
        return ("unknown", sid)
    if k == "CXXOperatorCallExpr" and n.get("op") == "->":
        a = n.get("args", [])
        if a and _is_smart(f.stmts[f.strip(a[0])].get("t")):
            return ("borrowed", sid)
        return ("unknown", sid)
    if k == "UnaryOperator" and n.get("op") == "&":
        inner = f.strip(f.kids(sid)[0])
        m = f.stmts[inner]
        # &*sp   /  &(*it) where *it is a smart pointer's pointee
        if m["k"] == "CXXOperatorCallExpr" and m.get("op") == "*":
            a = m.get("args", [])
            if a and _is_smart(f.stmts[f.strip(a[0])].get("t")):
                return ("borrowed", sid)
        if m["k"] == "UnaryOperator" and m.get("op") == "*":
            return origin(f, f.kids(inner)[0], depth + 1, seen)
        return ("unknown", sid)          # address of a non-heap object: not ours to decide
    if k == "DeclRefExpr" and n.get("local") and not n.get("parm"):
        did = n["declId"]
        if did in seen:
            return ("unknown", sid)
        seen.add(did)
        kinds = []
        for s2, m in f.stmts.items():
            if m["k"] == "DeclStmt":
                for d in m["decls"]:
                    if d.get("declId") == did and d.get("init"):
                        kinds.append(origin(f, d["init"], depth + 1, seen))
            if m["k"] == "BinaryOperator" and m.get("op") == "=":
                l, r = f.kids(s2)[:2]
                ln = f.stmts[f.strip(l)]
                if ln["k"] == "DeclRefExpr" and ln.get("declId") == did:
                    kinds.append(origin(f, r, depth + 1, seen))
        for kk in ("borrowed", "self"):
            for x in kinds:
                if x[0] == kk:
                    return x
        if kinds and all(x[0] == "fresh" for x in kinds):
            return ("fresh", sid)
        return ("unknown", sid)
    return ("unknown", sid)


def adoption_sites(f):
    """yields (sid, raw-pointer argument sid, what) for every smart pointer
    construction/reset from a raw pointer in f."""
    for sid, n in f.stmts.items():
        k = n["k"]
        if k in ("CXXConstructExpr", "CXXTemporaryObjectExpr") and (n.get("ctorClass") or "").startswith(SMART):
            pts = n.get("calleeParamTypesW") or n.get("calleeParamTypes") or []
            a = n.get("args", [])
            if a and pts and pts[0].rstrip().endswith("*"):
                yield sid, a[0], "construction of %s" % n.get("ctorClass")
        if k == "CXXMemberCallExpr" and (n.get("calleeClass") or "").startswith(SMART) \
                and (n.get("callee") or "").endswith("::reset") and n.get("args"):
            a0 = n["args"][0]
            if f.stmts[f.strip(a0)]["k"] != "CXXDefaultArgExpr":
                yield sid, a0, "reset of %s" % n.get("calleeClass")


def check_ownership(rep, funcs, rel, count_name="smart pointer adoptions of a raw pointer", control=False):
    nv = 0
    for f in funcs:
        for sid, arg, what in adoption_sites(f):
            kind, site = origin(f, arg)
            if not control:
                rep.count(count_name)
                rep.count("  origin %s" % kind)
            if kind in ("borrowed", "self"):
                nv += 1
                if not control:
                    rep.fail("OWNERSHIP@%s#%s" % (f.qname, f.text(arg)[:60]),
                             "%s: %s in %s adopts the raw pointer %s, which is %s: two owners of one object (double free / "
                             "use after free when the first goes away)"
                             % (rel(f.short_loc(sid)), what, f.qname, f.text(arg)[:80],
                                "obtained from another smart pointer" if kind == "borrowed" else "'this'"))
            elif kind == "fresh" and not control:
                rep.ok("%s: %s adopts a fresh allocation" % (rel(f.short_loc(sid)), what), sample=False)
    return nv
