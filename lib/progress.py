"""LOOP-PROGRESS: no cycle of the control-flow graph is made of state-preserving blocks only.

A block is *state preserving* when every one of its CFG elements is: reads, comparisons, arithmetic, declarations of locals (they are
re-initialised on every trip), calls of const member functions, of a fixed list of pure free functions (comparisons and concatenation
of standard types, raise_if), constructions and destructions of standard-library values, and calls of closures whose whole body is
state preserving.  Everything else (increments, assignments, non-const member calls, calls of other free functions, new/delete, ...)
is taken to change the state - the rule only under-approximates purity, so that it reports nothing it is not sure of.

If the program takes a cycle of state-preserving blocks once, the state at the end of the trip is the state at its start and the
same branches are taken again for ever: the process never terminates.  The rule is a necessary condition of 'terminates in bounded
time' (it says nothing of loops that change the state without converging)."""
import re
from cfg import *

PURE_FREE = re.compile(r"^(std::|__gnu_cxx::)(operator(==|!=|<|>|<=|>=|\+|-)|next|prev|distance|min|max|to_string|get|move|forward|make_pair|"
                       r"begin|end|cbegin|cend|isdigit|isalpha|isspace|isalnum|isupper|islower|abs|strlen|strcmp|find|find_if|count|"
                       r"any_of|all_of|none_of|tie|as_const|addressof)(?![A-Za-z0-9_])")
PURE_TFEL = re.compile(r"^tfel::(raise_if|raise)(?![A-Za-z0-9_])")
# accessors of standard containers and iterators that have a non-const overload but change nothing
STD_ACCESSOR = re.compile(r"::(begin|end|rbegin|rend|front|back|at|find|data|lower_bound|upper_bound|equal_range|operator\[\]|operator\*|operator->|"
                          r"first|second|get)$")
STD = re.compile(r"^(std::|__gnu_cxx::)")
PURE_KINDS = {"DeclRefExpr", "MemberExpr", "ImplicitCastExpr", "IntegerLiteral", "StringLiteral", "CharacterLiteral", "FloatingLiteral",
              "CXXBoolLiteralExpr", "CXXNullPtrLiteralExpr", "ParenExpr", "CXXThisExpr", "DeclStmt", "LambdaExpr", "ExprWithCleanups",
              "MaterializeTemporaryExpr", "CXXBindTemporaryExpr", "CXXFunctionalCastExpr", "CXXStaticCastExpr", "CStyleCastExpr",
              "ConditionalOperator", "ArraySubscriptExpr", "CXXDefaultArgExpr", "ContinueStmt", "BreakStmt", "NullStmt", "CompoundStmt",
              "IfStmt", "WhileStmt", "ForStmt", "DoStmt", "ReturnStmt", "CXXThrowExpr", "UnaryExprOrTypeTraitExpr", "CXXConstCastExpr",
              "InitListExpr", "CXXStdInitializerListExpr", "ConstantExpr", "SubstNonTypeTemplateParmExpr", "CXXRewrittenBinaryOperator",
              "CXXScalarValueInitExpr", "ImplicitValueInitExpr", "OpaqueValueExpr", "BinaryConditionalOperator", "CXXReinterpretCastExpr"}


class Purity:
    def __init__(self, funcs):
        self.lam = {(f.unit, f.id): f for f in funcs if f.parent is not None}
        self.memo = {}

    def lambda_pure(self, g, depth=0):
        k = (g.unit, g.id)
        if k in self.memo:
            return self.memo[k]
        self.memo[k] = False        # recursion: not pure
        # a closure that never returns normally (its body always ends in a throw or a [[noreturn]] call, as the 'error' helpers do)
        # ends the path: calling it is not a state-preserving step of a cycle
        ok = g.entry is not None and g.exit in g.reachable_blocks() and all(self.stmt_pure(g, s, depth + 1) for s in g.stmts)
        self.memo[k] = ok
        return ok

    def raises_on_true(self, f, call, g):
        """the closure g forwards its i-th parameter as the condition of raise_if and the call passes the literal 'true' there."""
        pids = [p.get("declId") for p in g.params]
        for m in g.stmts.values():
            if m["k"] == "CallExpr" and PURE_TFEL.match(m.get("callee") or "") and m.get("args"):
                a = g.stmts.get(g.strip(m["args"][0]))
                if a is not None and a["k"] == "DeclRefExpr" and a.get("parm") and a.get("declId") in pids:
                    i = pids.index(a["declId"])
                    args = (call.get("args") or [])[1:]     # args[0] is the closure object
                    if i < len(args):
                        v = f.stmts.get(f.strip(args[i]))
                        if v is not None and v["k"] == "CXXBoolLiteralExpr" and v.get("value") in (True, "true", 1):
                            return True
        return False

    def stmt_pure(self, f, s, depth=0):
        n = f.stmts[s]
        k = n["k"]
        if k in PURE_KINDS:
            return True
        if k == "UnaryOperator":
            return n.get("op") not in ("++", "--")
        if k == "BinaryOperator":
            return n.get("op") not in ("=", "+=", "-=", "*=", "/=", "%=", "<<=", ">>=", "&=", "|=", "^=")
        if k == "CompoundAssignOperator":
            return False
        if k in ("CXXConstructExpr", "CXXTemporaryObjectExpr"):
            return bool(STD.match(n.get("ctorClass") or "")) or (n.get("ctorClass") or "") == "tfel::utilities::Token"
        if k == "CXXOperatorCallExpr" and n.get("op") == "()" and depth < 4:
            g = self.lam.get((f.unit, n.get("calleeId")))
            if g is not None:
                if self.raises_on_true(f, n, g):
                    return False    # throw_if(true, ...): never returns, so it ends the path
                return self.lambda_pure(g, depth)
        if k == "CallExpr" and PURE_TFEL.match(n.get("callee") or "") and n.get("args"):
            a = f.stmts.get(f.strip(n["args"][0]))
            if a is not None and a["k"] == "CXXBoolLiteralExpr" and a.get("value") in (True, "true", 1):
                return False
        if k in ("CXXMemberCallExpr", "CXXOperatorCallExpr") and n.get("calleeClass"):
            if STD.match(n.get("calleeClass")) and STD_ACCESSOR.search((n.get("callee") or "").split("(")[0]) and \
                    not (n.get("callee") or "").endswith("map::operator[]"):
                return True
            return bool(n.get("constMethod"))
        if k in ("CallExpr", "CXXOperatorCallExpr"):
            c = n.get("callee") or ""
            return bool(PURE_FREE.match(c) or PURE_TFEL.match(c))
        return False

    def elem_pure(self, f, e):
        if "s" in e:
            return self.stmt_pure(f, e["s"])
        if "dtor" in e:
            return bool(STD.match(e.get("cls") or "")) or (e.get("cls") or "") == "tfel::utilities::Token"
        return False


def rule(rep, funcs, rel, accepted=None, control=True):
    """reports LOOP-PROGRESS@<function>#<line of the loop> for every cycle of state-preserving blocks."""
    accepted = accepted or {}
    if control:
        import os
        from common import cfgdump, header_flags, VERIF, OUT, AnalysisBroken, Report
        ctl = os.path.join(VERIF, "controls", "C35_progress_control.cxx")
        dc = cfgdump([ctl], os.path.join(OUT, rep.pid, "progress_ctl"), funcs=r"^verif_ctl::", flags_for=lambda u: (header_flags(), VERIF))

        class _R:
            pid = rep.pid

            def __init__(self):
                self.f, self.n = [], 0

            def fail(self, k, m):
                self.f.append(k)

            def ok(self, *a, **k):
                pass

            def count(self, k, n):
                self.n = n
        r = _R()
        rule(r, load_functions(dc), rel, None, control=False)
        if sorted(k.rsplit("::", 1)[-1] for k in r.f) != ["spin", "spin_lambda"] or r.n != 7:
            raise AnalysisBroken("progress rule: positive control gave reports %s over %d loops" % (r.f, r.n))
    P = Purity(funcs)
    nloops = ncyc = 0
    for f in funcs:
        if f.entry is None:
            continue
        loops = [s for s, n in f.stmts.items() if n["k"] in ("WhileStmt", "ForStmt", "DoStmt")]
        if not loops:
            continue
        nloops += len(loops)
        reach = f.reachable_blocks()
        pure = {b for b in reach if all(P.elem_pure(f, e) for e in f.blocks[b].elems)}
        g = {b: [s for s, pol, unr in f.edges(b) if not unr and s in pure] for b in pure}
        # strongly connected components (Tarjan, iterative enough for these sizes)
        index, low, onst, st, comps, cnt = {}, {}, set(), [], [], [0]

        def sc(v):
            work = [(v, iter(g[v]))]
            index[v] = low[v] = cnt[0]; cnt[0] += 1; st.append(v); onst.add(v)
            while work:
                u, it = work[-1]
                adv = False
                for w in it:
                    if w not in index:
                        index[w] = low[w] = cnt[0]; cnt[0] += 1; st.append(w); onst.add(w)
                        work.append((w, iter(g[w]))); adv = True
                        break
                    elif w in onst:
                        low[u] = min(low[u], index[w])
                if adv:
                    continue
                work.pop()
                if work:
                    low[work[-1][0]] = min(low[work[-1][0]], low[u])
                if low[u] == index[u]:
                    comp = []
                    while True:
                        w = st.pop(); onst.discard(w); comp.append(w)
                        if w == u:
                            break
                    comps.append(comp)
        for v in list(g):
            if v not in index:
                sc(v)
        bad = [c for c in comps if len(c) > 1 or c[0] in g[c[0]]]
        seen = set()
        for c in bad:
            # name the loop: the loop statement terminating one of the blocks of the cycle, else the first located element
            ls = sorted(f.blocks[b].term for b in c if f.blocks[b].termKind in ("WhileStmt", "ForStmt", "DoStmt"))
            anchor = ls[0] if ls else next((e["s"] for b in sorted(c) for e in f.blocks[b].elems if "s" in e), None)
            line = rel(f.short_loc(anchor)) if anchor is not None else rel(f.loc)
            key = "LOOP-PROGRESS@%s" % f.qname.split("(")[0]
            if key in seen:
                continue
            seen.add(key)
            ncyc += 1
            if key in accepted:
                rep.ok("accepted %s: %s" % (key, accepted[key]))
                continue
            conds = []
            for b in sorted(c):
                bl = f.blocks[b]
                if bl.cond is not None and bl.termKind in ("IfStmt", "WhileStmt", "ForStmt", "DoStmt"):
                    conds.append(f.text(bl.cond))
            rep.fail(key, "%s: in %s a trip round the loop changes nothing (blocks %s hold only reads, comparisons and const calls; "
                     "branches on: %s): once taken, the same trip is taken for ever and the process never terminates"
                     % (line, f.qname.split("(")[0], sorted(c), "; ".join(conds[:4]) or "-"))
        for _ in range(len(loops) - len(seen)):
            rep.ok("loop makes progress on every trip", sample=False)
    rep.count("loops examined for progress", nloops)
    return ncyc


def scan(rep, units, funcs_re, rel, accepted, label):
    """a separate pass of the rule over further units (libraries the executable parses its input with)."""
    import os
    from common import cfgdump, OUT, REPO
    d = cfgdump(units, os.path.join(OUT, rep.pid, "dump_" + label), funcs=funcs_re, root=REPO)
    seen, fs = set(), []
    for f in load_functions(d):
        k = (f.qname, tuple(p["type"] for p in f.params), f.loc, f.parent is not None and (f.unit, f.display))
        if f.parent is None:
            if k in seen:
                continue
            seen.add(k)
        fs.append(f)

    class _R:
        pid = rep.pid

        def __init__(self):
            self.n = 0
        fail, ok = rep.fail, rep.ok

        def count(self, k, n):
            self.n = n
    r = _R()
    rule(r, fs, rel, accepted, control=False)
    rep.count("loops examined for progress (%s)" % label, r.n)
    rep.count("units analysed (%s)" % label, len(units))
    return r.n
