"""Builder-shape interpreter (Engine D): evaluates, path by path, the expression
tree that a function of tfel::math::parser *constructs*
(make_shared<BinaryOperation<Op>>(..), make_shared<StandardFunction<f>>(..),
Number(..), Negation(..), applyChainRule(..), expr->clone(v),
expr->differentiate(pos, v) ...) into an exact rational function over atoms
(u, u', sin(u), cos(u), pow(a,b), ...).  Nothing of the repository is executed:
the statement table and CFG come from cfgdump.  Anything outside the idiom
raises Unsupported (-> exit 2), never a verdict."""
from fractions import Fraction
from cfg import *
import poly as P
from poly import Rat


class Unsupported(Exception):
    pass


# ------------------------------------------------------------------ algebra
_atoms = {}


def reset():
    P.reset_registry()
    _atoms.clear()


def sym(name):
    return Rat.var(name)


def _key(x):
    return repr(x.key())


def app(fn, *args):
    """application atom with the rewriting rules used for normal forms."""
    if fn == "tan":
        return app("sin", *args) / app("cos", *args)
    if fn == "tanh":
        return app("sinh", *args) / app("cosh", *args)
    if fn == "pow":
        a, b = args
        # split an integer constant off the exponent: a^(b+c) = a^b * a^c
        c = Fraction(0)
        if b.d.is_const():
            c = b.n.const_value() / b.d.const_value()
        if c.denominator != 1:
            c = Fraction(0)
        bs = b - Rat(c)
        r = Rat(1)
        if not bs.is_zero():
            r = _atom("pow", 0, None, a, bs)
        k = int(c)
        for _ in range(abs(k)):
            r = r * a if k > 0 else r / a
        return r
    if fn == "sqrt":
        a = args[0]
        if a.d.is_const():
            return _atom("sqrt", 2, a.n.scale(1 / a.d.const_value()), a)
        raise Unsupported("sqrt of a rational function")
    if fn == "sin":
        c = app("cos", *args)
        return _atom("sin", 2, (Rat(1) - c * c).n, *args)
    if fn == "cosh":
        s = app("sinh", *args)
        return _atom("cosh", 2, (Rat(1) + s * s).n, *args)
    return _atom(fn, 0, None, *args)


def _atom(fn, k, rel, *args):
    key = (fn,) + tuple(_key(a) for a in args)
    if key not in _atoms:
        name = "%s#%d(%s)" % (fn, len(_atoms), ",".join(repr(a) for a in args))
        if k:
            _atoms[key] = Rat(P.define_atom(name, k, rel))
        else:
            _atoms[key] = Rat.var(name)
    return _atoms[key]


# -------------------------------------------------------------- interpreter
class Builder:
    """f: cfg.Func; kids: closures defined in f; hooks:
       leaf(f, sid, env, facts) -> value or None  for domain-specific leaves."""

    def __init__(self, funcs_by_id, statics=None):
        self.by_id = funcs_by_id        # (unit, id) -> Func (closures, constructors)
        self.statics = statics or {}
        self.ctors = {}                 # class qname -> Func of the constructor to inline
        self.raw_uses = []              # (func, site, name, node class): an Expr handle embedded without clone()

    # values: Rat | ("bool", atom, negated) | ("closure", Func) | ("obj", cls, fields)
    def run(self, f, env, facts, this=None, depth=0):
        """all (facts, value, env) triples returned by f's body under the facts;
        value ("raise", callee) for a path ending in a throw / [[noreturn]] call."""
        if depth > 6:
            raise Unsupported("closure nesting too deep")
        results = []
        me = self

        def walk(bid, env, facts, visited):
            if bid in visited:
                raise Unsupported("loop in a builder function (%s)" % f.qname)
            b = f.blocks[bid]
            states = [(env, facts)]
            for e in b.elems:
                if "s" not in e:
                    continue
                sid = e["s"]
                n = f.stmts[sid]
                k = n["k"]
                terminal = k in ("ReturnStmt", "CXXThrowExpr") or \
                    (k in ("CallExpr", "CXXMemberCallExpr") and n.get("noreturn"))
                nxt = []
                for env_, facts_ in states:
                    if k == "DeclStmt":
                        alts = [(env_, facts_)]
                        for d in n["decls"]:
                            if d.get("declKind") != "Var" or "init" not in d:
                                continue
                            new = []
                            for e2, f2 in alts:
                                for f3, v in me.ev(f, d["init"], e2, f2, this, depth):
                                    e3 = dict(e2)
                                    e3[d["declId"]] = v
                                    new.append((e3, f3))
                            alts = new
                        nxt += alts
                    elif k == "ReturnStmt":
                        ks = f.kids(sid)
                        if ks:
                            for f3, v in me.ev(f, ks[0], env_, facts_, this, depth):
                                results.append((f3, v, env_))
                        else:
                            results.append((facts_, None, env_))
                    elif terminal:
                        results.append((facts_, ("raise", n.get("callee")), env_))
                    elif (k == "BinaryOperator" and n.get("op") == "=") or \
                            (k == "CXXOperatorCallExpr" and n.get("op") == "=" and len(n.get("args", [])) == 2):
                        l, r = (f.kids(sid)[:2] if k == "BinaryOperator" else n["args"])
                        ln = f.stmts[f.strip(l)]
                        for f3, v in me.ev(f, r, env_, facts_, this, depth):
                            e3 = dict(env_)
                            if ln["k"] == "DeclRefExpr":
                                e3[ln["declId"]] = v
                            elif ln["k"] == "MemberExpr" and (f.path(f.strip(l)) or "").startswith("this->") and this is not None:
                                this[2][ln["member"]] = v
                            else:
                                raise Unsupported("assignment to %s" % f.text(l))
                            nxt.append((e3, f3))
                    else:
                        nxt.append((env_, facts_))
                if terminal:
                    return
                states = nxt
            for env_, facts_ in states:
                for succ, pol, unr in f.edges(bid):
                    if unr:
                        continue
                    f2 = facts_
                    if pol is not None and b.cond is not None:
                        f2 = me.branch(f, b.cond, pol, env_, facts_)
                        if f2 is None:
                            continue
                    walk(succ, env_, f2, visited | {bid})
        walk(f.entry, dict(env), dict(facts), frozenset())
        return results

    # ---- conditions
    def cond_atom(self, f, s, env):
        return None

    def branch(self, f, cond, pol, env, facts):
        def atom_fn(f_, s):
            n = f_.stmts[s]
            if n["k"] == "DeclRefExpr" and env.get(n.get("declId")) is not None:
                v = env[n["declId"]]
                if isinstance(v, tuple) and v[0] == "bool":
                    return (v[1], v[2])
            a = self.opaque_bool(f_, s, env)
            if a is not None:
                return (a, False)
            return None
        fx = branch_facts(f, cond, pol, facts, atom_fn)
        return fx

    def opaque_bool(self, f, s, env):
        """name of the boolean atom denoted by expression s, or None."""
        n = f.stmts[s]
        if n["k"] == "CXXMemberCallExpr":
            nm = (n.get("callee") or "").rsplit("::", 1)[-1]
            if nm in ("dependsOnVariable", "isConstant"):
                return "%s:%s" % (nm, self.obj_name(f, n.get("obj"), env))
        bo = f.binop(s)
        if bo and bo[0] in ("==", "!="):
            t = "%s==%s" % (f.text(bo[1]), f.text(bo[2]))
            return t if bo[0] == "==" else None
        return None

    def held_value(self, f, sid, env):
        s = f.strip(sid)
        n = f.stmts[s]
        if n["k"] == "CXXOperatorCallExpr" and n.get("op") == "->":
            return self.held_value(f, n["args"][0], env)
        if n["k"] == "DeclRefExpr":
            v = env.get(n.get("declId"))
            if v is not None and not isinstance(v, tuple):
                return v
        return None

    def obj_name(self, f, sid, env):
        """symbolic name of the Expr an object expression denotes."""
        s = f.strip(sid)
        n = f.stmts[s]
        if n["k"] == "CXXOperatorCallExpr" and n.get("op") == "->":
            return self.obj_name(f, n["args"][0], env)
        if n["k"] == "DeclRefExpr":
            v = env.get(n.get("declId"))
            if isinstance(v, tuple) and v[0] == "expr":
                return v[1]
            return n["name"]
        if n["k"] == "MemberExpr":
            return n["member"]
        raise Unsupported("object expression %s" % f.text(sid))

    # ---- expressions: returns list of (facts, value)
    def ev(self, f, sid, env, facts, this, depth):
        s = f.strip(sid)
        if s is None or s <= 0:
            raise Unsupported("empty expression")
        n = f.stmts[s]
        k = n["k"]
        one = lambda v: [(facts, v)]
        if k in ("IntegerLiteral", "FloatingLiteral"):
            return one(Rat(Fraction(str(n["value"])) if k == "IntegerLiteral" else Fraction(repr(float(n["value"])))))
        if k == "StringLiteral":
            return one(("str", n["value"]))
        if k in ("CXXStaticCastExpr", "CXXFunctionalCastExpr", "CStyleCastExpr", "ImplicitCastExpr"):
            return self.ev(f, f.kids(s)[0], env, facts, this, depth)
        if k == "DeclRefExpr":
            if n.get("declId") in env:
                return one(env[n["declId"]])
            q = n.get("qname") or n["name"]
            if q in self.statics:
                return one(self.statics[q])
            if n.get("declKind") == "NonTypeTemplateParm":
                return one(sym(n["name"]))
            raise Unsupported("free variable %s at %s" % (n["name"], f.short_loc(s)))
        if k == "SubstNonTypeTemplateParmExpr":
            return self.ev(f, f.kids(s)[0], env, facts, this, depth)
        if k == "MemberExpr":
            p = f.path(s)
            if p and p.startswith("this->"):
                mem = n["member"]
                if this is not None and mem in this[2]:
                    return one(this[2][mem])
                return one(self.this_member(mem, facts))
            raise Unsupported("member %s" % f.text(s))
        if k == "UnaryOperator" and n["op"] == "-":
            return [(fx, -v) for fx, v in self.ev(f, f.kids(s)[0], env, facts, this, depth)]
        bo = f.binop(s)
        if bo and bo[0] in ("+", "-", "*", "/") and k == "BinaryOperator":
            res = []
            for f1, a in self.ev(f, bo[1], env, facts, this, depth):
                for f2, b in self.ev(f, bo[2], env, f1, this, depth):
                    res.append((f2, a + b if bo[0] == "+" else a - b if bo[0] == "-" else a * b if bo[0] == "*" else a / b))
            return res
        if k == "ConditionalOperator":
            c, a, b = f.kids(s)[:3]
            res = []
            for pol, arm in ((True, a), (False, b)):
                f2 = self.branch(f, c, pol, env, facts)
                if f2 is None:
                    continue
                res += self.ev(f, arm, env, f2, this, depth)
            return res
        if k == "LambdaExpr":
            g = self.by_id.get((f.unit, n.get("lambdaOp")))
            if g is None:
                raise Unsupported("closure body not dumped")
            return one(("closure", g, dict(env)))
        if k == "CXXOperatorCallExpr" and n.get("op") == "()":
            a0 = n["args"][0]
            res = []
            for f1, c in self.ev(f, a0, env, facts, this, depth):
                if not (isinstance(c, tuple) and c[0] == "closure"):
                    raise Unsupported("call of a non-closure")
                g = c[1]
                genv = dict(env)
                for fx, v, _e in self.run(g, genv, f1, this, depth + 1):
                    res.append((fx, v))
            return res
        if k == "CXXMemberCallExpr":
            nm = (n.get("callee") or "").rsplit("::", 1)[-1]
            if nm in ("clone", "differentiate", "getValue"):
                held = self.held_value(f, n.get("obj"), env)
                if held is not None and nm in ("clone", "getValue"):
                    return one(held)       # a node built on this path: its value is known
                o = self.obj_name(f, n.get("obj"), env)
                return one(self.expr_method(o, nm, facts))
            if nm in ("dependsOnVariable", "isConstant"):
                a = self.opaque_bool(f, s, env)
                return one(("bool", a, False))
            if nm == "str" and (n.get("callee") or "").startswith(("std::basic_ostringstream", "std::basic_stringstream")):
                return one(("str", "?"))
            raise Unsupported("method %s" % n.get("callee"))
        if k == "CallExpr":
            cal = n.get("callee") or ""
            disp = n.get("calleeDisplay") or ""
            if cal == "std::make_shared":
                return self.make(f, s, disp, n["args"], env, facts, this, depth)
            if cal.endswith("Number::one"):
                return one(Rat(1))
            if cal.endswith("Number::zero"):
                return one(Rat(0))
            if cal.endswith("parser::applyChainRule"):
                res = []
                for f1, a in self.ev(f, n["args"][0], env, facts, this, depth):
                    for f2, b in self.ev(f, n["args"][1], env, f1, this, depth):
                        res.append((f2, self.coerce(a) * self.coerce(b)))
                return res
            if cal == "std::to_string":
                return one(("str", "?"))
            raise Unsupported("call of %s at %s" % (cal, f.short_loc(s)))
        if k in ("CXXConstructExpr", "CXXTemporaryObjectExpr"):
            cls = n.get("ctorClass") or ""
            if cls.startswith("std::shared_ptr") and n.get("args"):
                a = f.strip(n["args"][0])
                if f.stmts[a]["k"] == "CXXNewExpr":
                    inner = [c for c in f.kids(a) if f.stmts[f.strip(c)]["k"] in ("CXXConstructExpr",)]
                    if inner:
                        c = f.strip(inner[0])
                        cl = f.stmts[c].get("ctorClass")
                        # the constructor's class is printed without template arguments: take them from the type of the new-expression
                        nt = (f.stmts[a].get("t") or "").rstrip(" *")
                        if "<" in nt and "<" not in (cl or ""):
                            cl = nt
                        return self.construct(f, cl, f.stmts[c]["args"], env, facts, this, depth, c)
                return self.ev(f, n["args"][0], env, facts, this, depth)
            if cls.startswith("std::basic_string") and not cls.startswith("std::basic_stringstream"):
                return one(("str", "?"))
            if cls.startswith(("std::basic_ostringstream", "std::basic_stringstream")):
                # a local stream used to format the text of a numeric leaf: not part of the expression tree
                return one(("stream",))
            raise Unsupported("construction of %s" % cls)
        if k == "CXXBindTemporaryExpr" or k == "MaterializeTemporaryExpr":
            return self.ev(f, f.kids(s)[0], env, facts, this, depth)
        raise Unsupported("%s at %s" % (k, f.short_loc(s)))

    def make(self, f, s, disp, args, env, facts, this, depth):
        m = re.match(r"std::make_shared<(.*)>$", disp)
        if not m:
            raise Unsupported("make_shared display %s" % disp)
        # first template argument (balanced)
        t = m.group(1)
        d = 0
        for i, ch in enumerate(t):
            if ch == "<":
                d += 1
            elif ch == ">":
                d -= 1
            elif ch == "," and d == 0:
                t = t[:i]
                break
        return self.construct(f, t.strip(), args, env, facts, this, depth, s)

    def construct(self, f, cls, args, env, facts, this, depth, site):
        cls = cls.replace("tfel::math::parser::", "").replace("tfel::math::", "")
        vals = [[]]
        alts = [(facts, [])]
        for a in args:
            new = []
            for fx, vs in alts:
                for f2, v in self.ev(f, a, env, fx, this, depth):
                    new.append((f2, vs + [v]))
            alts = new
        out = []
        for fx, vs in alts:
            for v in vs:
                if isinstance(v, tuple) and v and v[0] == "expr":
                    self.raw_uses.append((f, site, v[1], cls))
            out.append((fx, self.node(cls, [self.coerce(v) for v in vs], f, site)))
        return out

    def node(self, cls, vs, f, site):
        m = re.match(r"BinaryOperation<(?:tfel::math::)?Op(\w+)>$", cls)
        if m:
            a, b = vs
            op = m.group(1)
            if op == "Plus":
                return a + b
            if op == "Minus":
                return a - b
            if op == "Mult":
                return a * b
            if op == "Div":
                return a / b
            if op == "Power":
                return app("pow", a, b)
        m = re.match(r"StandardFunction<&?(?:::|std::)?(\w+)>$", cls)
        if m:
            return app(m.group(1), vs[1])
        if cls == "Negation":
            return -vs[0]
        if cls == "Number":
            return vs[-1]
        m = re.match(r"PowerFunction<(-?\d+)>$", cls)
        if m:
            return app("pow", vs[0], Rat(int(m.group(1))))
        m = re.match(r"PowerFunction<N - 1>$", cls)
        if cls == "GeneralPowerFunction":
            return app("pow", vs[0], vs[1])
        if cls == "ConditionalExpr":
            return ("cond",) + tuple(vs)
        if cls in self.ctors:
            g = self.ctors[cls]
            this = ("obj", cls, {})
            env = {p["declId"]: v for p, v in zip(g.params, vs)}
            for ini in g.d.get("inits", []):
                if ini.get("member") and ini.get("written"):
                    r = self.ev(g, ini["init"], env, {}, this, 0)
                    this[2][ini["member"]] = r[0][1]
            self.run(g, env, {}, this, 0)
            if "derivative" in this[2]:
                return this[2]["derivative"]
            raise Unsupported("constructor of %s does not define the node's value" % cls)
        raise Unsupported("node type %s at %s" % (cls, f.short_loc(site)))

    def coerce(self, v):
        return v

    # ---- domain hooks (overridden by the check)
    def expr_method(self, obj, method, facts):
        raise Unsupported("expr method")

    def this_member(self, mem, facts):
        raise Unsupported("this->%s" % mem)


def branch_facts(f, cond, pol, facts, atom_fn):
    v = eval3(f, cond, facts, atom_fn)
    if v is not None and v != pol:
        return None
    return refine(f, cond, pol, facts, atom_fn)
