"""C13 — expression evaluator: structural clauses (ownership, function/constant
tables, precedence passes).

 (a) OWNERSHIP over the units of src/Math: no shared_ptr/unique_ptr adopts a raw
     pointer obtained from another smart pointer (a second owner => double
     free on a formula that exercises the site: a crash, not a rejection);
 (b) table agreement, read from the AST of FunctionGeneratorManager():
     every registered function name is bound to the libm function of that
     meaning (frozen semantic table keyed by name; 'ln'/'log' -> log,
     'abs' -> fabs, 'H' -> Evaluator::Heavyside ...), Evaluator::max/min are
     std::max/std::min of their two arguments in order, Heavyside is
     'x < 0 ? 0 : 1'; every unary/binary function documented in
     docs/web/math.md is registered; every constant 'Cste::N' is bound to the
     member N of PhysicalConstants<double>;
 (c) the reduction passes of TGroup::reduce() are issued in the order
     '**', '/', '*', '-', '+' (with this single-operator left-to-right pass any
     other order changes the parse of 'a/b*c', 'a-b+c' or 'a*b**c').
"""
import os, re
from common import *
from cfg import *
from ownership import check_ownership

RULE = ("OWNERSHIP(no smart pointer adopts a pointer owned by another) over src/Math; function table name -> libm "
        "function by meaning, docs subset of table, constants Cste::N -> PhysicalConstants::N; precedence passes in the "
        "order ** / * - +")
UNARY = {"exp": "exp", "exp2": "exp2", "expm1": "expm1", "cbrt": "cbrt", "abs": "fabs", "sqrt": "sqrt", "ln": "log",
         "log": "log", "log10": "log10", "log2": "log2", "log1p": "log1p", "cosh": "cosh", "sinh": "sinh", "tanh": "tanh",
         "acosh": "acosh", "asinh": "asinh", "atanh": "atanh", "sin": "sin", "cos": "cos", "tan": "tan", "acos": "acos",
         "asin": "asin", "atan": "atan", "erf": "erf", "erfc": "erfc", "tgamma": "tgamma", "lgamma": "lgamma",
         "H": "tfel::math::Evaluator::Heavyside"}
BINARY = {"max": "tfel::math::Evaluator::max", "min": "tfel::math::Evaluator::min", "hypot": "hypot", "atan2": "atan2"}
PASSES = ["**", "/", "*", "-", "+"]
FGM = "tfel::math::Evaluator::FunctionGeneratorManager::FunctionGeneratorManager"


def rel(loc):
    return loc.replace(REPO + "/", "")


def doc_functions():
    p = os.path.join(REPO, "docs/web/math.md")
    txt = open(p, encoding="utf-8").read()
    i = txt.find("#### Unary functions")
    j = txt.find("#### Binary functions")
    k = txt.find("### Error handling", j)
    if min(i, j, k) < 0:
        raise AnalysisBroken("sections of docs/web/math.md not found")
    un = re.findall(r"^- `([A-Za-z0-9_]+)`", txt[i:j], re.M)
    bi = re.findall(r"^- `([A-Za-z0-9_]+)`", txt[j:k], re.M)
    return un, bi


def table_rules(rep, fq, control=None):
    fs = fq.get(FGM, [])
    if not fs:
        raise AnalysisBroken("anchor %s vanished" % FGM)
    f = fs[0]
    un, bi, cst = {}, {}, {}
    for s, n in f.stmts.items():
        if n["k"] == "CallExpr" and (n.get("callee") or "").endswith("makeStandardFunctionGenerator"):
            m = re.search(r"<&?(.*)>$", n.get("calleeDisplay") or "")
            nm = f.stmts[f.strip(n["args"][0])]
            if not m or nm["k"] != "StringLiteral":
                raise AnalysisBroken("unrecognised registration at %s" % f.short_loc(s))
            un.setdefault(nm["value"], []).append((m.group(1), s))
        if n["k"] == "CallExpr" and (n.get("callee") or "").endswith("makeBinaryFunctionGenerator"):
            m = re.search(r"<&?(.*)>$", n.get("calleeDisplay") or "")
            nm = f.stmts[f.strip(n["args"][0])]
            if not m or nm["k"] != "StringLiteral":
                raise AnalysisBroken("unrecognised registration at %s" % f.short_loc(s))
            bi.setdefault(nm["value"], []).append((m.group(1), s))
        if n["k"] == "CXXMemberCallExpr" and (n.get("callee") or "").endswith("::insert") and f.path(n.get("obj")) == "this->constants":
            lits = [f.stmts[x] for x in f.walk(n["args"][0]) if f.stmts[x]["k"] == "StringLiteral"]
            refs = [f.stmts[x] for x in f.walk(n["args"][0]) if f.stmts[x]["k"] == "DeclRefExpr" and f.stmts[x].get("declKind") == "Var"]
            if len(lits) != 1 or len(refs) != 1:
                raise AnalysisBroken("unrecognised constant registration at %s" % f.short_loc(s))
            cst.setdefault(lits[0]["value"], []).append((refs[0]["qname"], s))
    for table, expect, what in ((un, UNARY, "unary"), (bi, BINARY, "binary")):
        for name, regs in sorted(table.items()):
            rep.count("registered functions")
            if len(regs) > 1:
                rep.fail("TABLE-DUP@%s" % name, "function name '%s' is registered %d times" % (name, len(regs)))
            fn, s = regs[0]
            want = expect.get(name)
            if want is None:
                rep.notes.append("registered %s function '%s' -> %s has no entry in the semantic table" % (what, name, fn))
                rep.extra.setdefault("functions_without_semantic_entry", []).append(name)
                continue
            if fn == want or fn == "std::" + want or fn == "::" + want or fn.split("::")[-1] == want.split("::")[-1] and "::" in want:
                rep.ok("'%s' is bound to %s" % (name, fn), sample=name in ("ln", "abs", "H", "max"))
            else:
                rep.fail("TABLE-MEANING@%s" % name, "%s: formula function '%s' is bound to %s; its documented meaning is %s"
                         % (rel(f.short_loc(s)), name, fn, want))
        for name in expect:
            if name not in table:
                rep.fail("TABLE-MISSING@%s" % name, "the %s function '%s' is no longer registered" % (what, name))
    du, db = doc_functions()
    for name in du:
        if name in un or name.startswith("power"):
            rep.ok("documented unary function '%s' is registered" % name, sample=False)
        else:
            rep.fail("DOC-FUNCTION@%s" % name, "docs/web/math.md documents the unary function '%s' but it is not registered" % name)
    for name in db:
        if name in bi:
            rep.ok("documented binary function '%s' is registered" % name, sample=False)
        else:
            rep.fail("DOC-FUNCTION@%s" % name, "docs/web/math.md documents the binary function '%s' but it is not registered" % name)
    for name, regs in sorted(cst.items()):
        rep.count("registered constants")
        q, s = regs[0]
        if len(regs) > 1:
            rep.fail("CONST-DUP@%s" % name, "constant '%s' registered %d times" % (name, len(regs)))
        if name.startswith("Cste::") and q.split("::")[-1] == name[6:] and "PhysicalConstants" in q:
            rep.ok("'%s' is bound to %s" % (name, q), sample=name == "Cste::kb")
        else:
            rep.fail("CONST-MEANING@%s" % name, "%s: constant '%s' is bound to %s" % (rel(f.short_loc(s)), name, q))
    # helper bodies
    for q, shape in (("tfel::math::Evaluator::max", ("std::max", 0, 1)), ("tfel::math::Evaluator::min", ("std::min", 0, 1))):
        g = fq.get(q, [None])[0]
        if g is None:
            raise AnalysisBroken("%s vanished" % q)
        rets = [s for s, n in g.stmts.items() if n["k"] == "ReturnStmt"]
        good = False
        if len(rets) == 1:
            c = g.strip(g.kids(rets[0])[0])
            cn = g.stmts[c]
            if cn["k"] == "CallExpr" and (cn.get("callee") or "") == shape[0]:
                a = [g.stmts[g.strip(x)].get("declId") for x in cn["args"]]
                good = sorted(a) == sorted(p["declId"] for p in g.params)
        if good:
            rep.ok("%s(a, b) returns %s of its two arguments" % (q, shape[0]))
        else:
            rep.fail("HELPER@%s" % q, "%s is not %s(a, b)" % (q, shape[0]))
    g = fq.get("tfel::math::Evaluator::Heavyside", [None])[0]
    if g is None:
        raise AnalysisBroken("Heavyside vanished")
    rets = [s for s, n in g.stmts.items() if n["k"] == "ReturnStmt"]
    t = g.text(g.kids(rets[0])[0]).replace(" ", "") if len(rets) == 1 else ""
    if t in ("((x<0)?0:1)", "((x>=0)?1:0)", "((0>x)?0:1)", "((0<=x)?1:0)"):
        rep.ok("Heavyside(x) is x < 0 ? 0 : 1")
    else:
        rep.fail("HELPER@Heavyside", "Heavyside is not 'x < 0 ? 0 : 1': %s" % t)


def precedence_rule(rep, fq):
    fs = [f for f in fq.get("tfel::math::Evaluator::TGroup::reduce", []) if not f.params]
    if not fs:
        raise AnalysisBroken("TGroup::reduce() vanished")
    f = fs[0]
    seq = []
    pos = f.stmt_positions()
    calls = []
    for s, n in f.stmts.items():
        if n["k"] == "CXXMemberCallExpr" and (n.get("callee") or "") == "tfel::math::Evaluator::TGroup::reduce" and n.get("args"):
            lit = [f.stmts[x]["value"] for x in f.walk(n["args"][0]) if f.stmts[x]["k"] == "StringLiteral"]
            if len(lit) != 1:
                raise AnalysisBroken("reduce(op) called with a non-literal operator at %s" % f.short_loc(s))
            calls.append((s, lit[0]))
    # order = order of appearance in the (straight-line) body
    ctl = [x for x in f.walk(f.body) if f.stmts[x]["k"] in ("IfStmt", "SwitchStmt", "GotoStmt")]
    if ctl:
        raise AnalysisBroken("TGroup::reduce(): passes are conditional (unrecognised idiom)")
    order = {}
    for i, x in enumerate(f.walk(f.body)):
        order[x] = i
    seq = [l for s, l in sorted(calls, key=lambda c: order[c[0]])]
    rep.count("precedence passes", len(seq))
    if sorted(seq) != sorted(PASSES):
        raise AnalysisBroken("TGroup::reduce(): the set of passes %s differs from the confirmed single-operator scheme %s; the "
                             "precedence argument must be re-confirmed" % (seq, PASSES))
    if seq == PASSES:
        rep.ok("TGroup::reduce() issues the passes in the order %s" % " ".join(PASSES))
    else:
        rep.fail("PRECEDENCE@TGroup::reduce", "%s: reduction passes are issued in the order %s instead of %s: with a single "
                 "operator per left-to-right pass this changes the parse (e.g. a/b*c, a-b+c, a*b**c)"
                 % (rel(f.loc), " ".join(seq), " ".join(PASSES)))


def narrowing_rule(rep, funcs):
    """(e) every conversion of a floating value to an integer type is dominated by a two-sided range test of a
    variable it derives from (an out-of-range conversion is undefined: 'x**3e9' would silently get another exponent)."""
    INT_MAX = 2 ** 31
    for f in funcs:
        casts = [s for s, n in f.stmts.items() if n.get("cast") == "FloatingToIntegral"]
        if not casts:
            continue
        # variables the operand derives from: itself, plus sources through modf(v, &ip) / floor / trunc / round
        derives = {}
        for s, n in f.stmts.items():
            if n["k"] == "CallExpr" and (n.get("callee") or "").split("::")[-1] in ("modf",) and len(n.get("args", [])) == 2:
                src = f.stmts[f.strip(n["args"][0])]
                dst = [f.stmts[x] for x in f.walk(n["args"][1]) if f.stmts[x]["k"] == "DeclRefExpr"]
                if src["k"] == "DeclRefExpr" and dst:
                    derives.setdefault(dst[0]["declId"], set()).add(src["declId"])
            if n["k"] == "DeclStmt":
                for d in n["decls"]:
                    if "init" in d:
                        i = f.stmts[f.strip(d["init"])]
                        if i["k"] == "CallExpr" and (i.get("callee") or "").split("::")[-1] in ("floor", "trunc", "round", "ceil", "nearbyint"):
                            a = f.stmts[f.strip(i["args"][0])]
                            if a["k"] == "DeclRefExpr":
                                derives.setdefault(d["declId"], set()).add(a["declId"])

        def atom(f_, s):
            bo = f_.binop(s)
            if not bo or bo[0] not in ("<", ">", "<=", ">="):
                return None
            l, r = f_.stmts[f_.strip(bo[1])], f_.stmts[f_.strip(bo[2])]

            def const(sid):
                t = f_.text(sid).replace(" ", "")
                try:
                    return float(t)
                except ValueError:
                    return None
            op = bo[0]
            if l["k"] == "DeclRefExpr" and const(bo[2]) is not None and abs(const(bo[2])) < INT_MAX:
                return ("%d%s" % (l["declId"], ">" if op in (">", ">=") else "<"), False)
            if r["k"] == "DeclRefExpr" and const(bo[1]) is not None and abs(const(bo[1])) < INT_MAX:
                return ("%d%s" % (r["declId"], "<" if op in (">", ">=") else ">"), False)
            return None
        bad = []

        def el(st, b, i, e):
            if e.get("s") in casts:
                s = e["s"]
                o = f.stmts[f.strip(f.kids(s)[0])]
                fx = dict(st)
                vars_ = set()
                if o["k"] == "DeclRefExpr":
                    vars_ = {o["declId"]} | derives.get(o["declId"], set())
                okk = any(fx.get("%d>" % v) is True and fx.get("%d<" % v) is True for v in vars_)
                if not okk:
                    bad.append(s)
            return (st,)

        def ed(st, b, succ, pol):
            fx = branch(f, b, pol, dict(st), atom)
            if fx is None:
                return ()
            return (tuple(sorted(fx.items())),)
        forward(f, [()], el, ed)
        for s in casts:
            rep.count("floating-to-integer conversions")
        if bad:
            s = bad[0]
            rep.fail("NARROWING@%s#%s" % (f.qname, f.text(f.kids(s)[0])),
                     "%s: %s converts the floating value %s to %s on a path where no two-sided range test (|bound| < 2^31) of it (or of "
                     "the value it was extracted from) has been made: an out-of-range constant is converted to an arbitrary integer"
                     % (rel(f.short_loc(s)), f.qname, f.text(f.kids(s)[0]), f.stmts[s].get("t")))
        else:
            rep.ok("%s: every floating-to-integer conversion is dominated by a two-sided range test" % f.qname)


def number_text_rule(rep, funcs):
    """(f) the text of a numeric constant node is what getCxxFormula prints: when a Number / TNumber / TLiteral is built from a
    computed floating value its text must not come from std::to_string(<floating>) (six fixed decimals: 1.38e-23 prints as 0.000000,
    0.123456789 as 0.123457): the printed formula would not have the value of the node."""
    n_ = 0
    for f in funcs:
        for s, n in sorted(f.stmts.items()):
            c = n.get("callee") or ""
            d = n.get("calleeDisplay") or ""
            if not ((n["k"] == "CallExpr" and c.endswith("make_shared") and re.search(r"make_shared<[\w:]*(Number|TNumber)\b", d)) or
                    (n["k"] in ("CXXConstructExpr", "CXXTemporaryObjectExpr") and re.search(r"::(Number|TNumber)::(Number|TNumber)$", c))):
                continue
            args = n.get("args", [])
            if len(args) < 2:
                continue
            n_ += 1
            bad = None
            for x in f.walk(args[0]):
                m = f.stmts[x]
                if m["k"] == "CallExpr" and (m.get("callee") or "") == "std::to_string" and m.get("args"):
                    ty = (f.stmts.get(f.strip(m["args"][0]), {}).get("t") or "")
                    if re.search(r"\b(double|float|long double)\b", ty) or ty in ("real",):
                        bad = (x, ty)
            if bad is not None:
                rep.fail("NUMBER-TEXT@%s#%s" % (f.qname, rel(f.short_loc(s)).rsplit(":", 1)[-1]),
                         "%s: %s builds the text of a numeric node with std::to_string(%s) on a %s: getCxxFormula then prints six fixed decimals, "
                         "not the value of the node" % (rel(f.short_loc(s)), f.qname, f.text(f.stmts[bad[0]]["args"][0]), bad[1]))
            else:
                rep.ok("%s: numeric node built at %s keeps a faithful text" % (f.qname, rel(f.short_loc(s))), sample=False)
    rep.count("numeric nodes built from a text and a value", n_)


def run(tier):
    rep = Report("C13", tier, "other", RULE)
    units = units_under("src/Math")
    if tier != "thorough":
        # the evaluator family (anchors of the property and their integer twin); the thorough tier sweeps all of src/Math
        units = [u for u in units if re.search(r"(Evaluator|Expr|Function|Operator|Negation|Number|Variable|Constant)", os.path.basename(u))]
    d = cfgdump(units, os.path.join(OUT, "C13", "dump"), funcs=r"^tfel::math::", root=os.path.join(REPO, "src/Math"))
    funcs = load_functions(d)
    rep.count("units analysed", len(units))
    rep.count("functions analysed", len(funcs))
    check_ownership(rep, funcs, rel)
    rep.floor("smart pointer adoptions of a raw pointer", 20)
    rep.floor("units analysed", 12)
    fq = by_qname([f for f in funcs if f.parent is None])
    table_rules(rep, fq)
    rep.floor("registered functions", 30)
    rep.floor("registered constants", 20)
    precedence_rule(rep, fq)
    narrowing_rule(rep, [f for f in funcs if f.qname.startswith("tfel::math::Evaluator::")])
    rep.floor("floating-to-integer conversions", 1)
    number_text_rule(rep, funcs)
    rep.floor("numeric nodes built from a text and a value", 5)
    # positive control for OWNERSHIP
    ctl = os.path.join(VERIF, "controls", "C13_control.cxx")
    dc = cfgdump([ctl], os.path.join(OUT, "C13", "ctl"), funcs=r"^verif_ctl::", flags_for=lambda u: (header_flags(), VERIF))
    cf = load_functions(dc)
    if check_ownership(rep, cf, rel, control=True) != 3:
        raise AnalysisBroken("positive control of the OWNERSHIP rule: expected exactly 3 reports")
    rep.assumptions += ["values computed by well-formed formulas and value preservation by getCxxFormula/resolveDependencies are not decided",
                        "rejection of every malformed formula is decided only for the ownership clause (no heap corruption at adoption sites)"]
    return rep
