// shims for the cubic polynomial solver (C10)
#include "TFEL/Math/General/CubicRoots.hxx"
using namespace tfel::math;
extern "C" int verif_find_roots(const double* a, double* x) {
  return CubicRoots::find_roots(x[0], x[1], x[2], a[3], a[2], a[1], a[0]);
}
extern "C" void verif_poly(const double* a, const double* x, double* o) {
  o[0] = ((a[3] * x[0] + a[2]) * x[0] + a[1]) * x[0] + a[0];
}
