"""C11 — linear and cubic-spline interpolation: the closed-form clauses (exact
rational identities on the IR).  The construction of the spline derivatives
(tridiagonal system, natural end conditions), tables of run-time size and
computeIntegral over several intervals are not decided.

Three symbolic nodes (x0 < x1 < x2 assumed only to *name* the regions; every
identity is an identity of rational functions):
 spline (computeCubicSplineInterpolation / ...AndDerivative, both extrapolation modes):
  S1 both variants return the same value; the derivative returned is d/dx of it;
  S2 between two nodes the value is a cubic in x (fourth derivative zero) that
     takes the tabulated values y_i, y_{i+1} and the stored derivatives d_i,
     d_{i+1} at the two nodes: node reproduction and C0/C1 continuity whatever
     the stored derivatives are;
  S3 outside the table: y + (x - x_end) d_end with derivative d_end when
     extrapolating, y_end with a zero derivative otherwise;
  S4 computeCubicSplineLocalIntegral(xa, xb, pa, pb) vanishes for xa = xb and
     its derivative with respect to xb is the interpolating cubic at xb (hence
     additive and antisymmetric).
 linear interpolation (computeLinearInterpolation / ...AndDerivative):
  L1 as S1; L2 between two nodes the value is affine in the abscissa and takes
     the tabulated values at both nodes; L3 outside: the first / last segment's
     line when extrapolating, the end value with zero derivative otherwise.
"""
import os
from fractions import Fraction
from common import *
from absint import lower_driver, Unsupported
from tensoralg import *
import poly as P

RULE = ("Poly-domain abstract interpretation with path forking of the interpolation functions on three symbolic nodes: node reproduction, "
        "C0/C1 continuity, degree, derivative = d/dx value, extrapolation/clamping forms, local integral = antiderivative")


def evalr(r, env):
    for k, v in env.items():
        r = r.subs(k, Fraction(v))
    if not r.is_const():
        return None
    return r.n.const_value() / r.d.const_value()


def feasible(path, env):
    for info, taken in path:
        if not (isinstance(info, tuple) and len(info) == 3 and isinstance(info[1], Rat) and isinstance(info[2], Rat)):
            return None
        l, r = evalr(info[1], env), evalr(info[2], env)
        if l is None or r is None:
            return None
        val = {"olt": l < r, "ult": l < r, "ole": l <= r, "ule": l <= r, "ogt": l > r, "ugt": l > r, "oge": l >= r, "uge": l >= r,
               "oeq": l == r, "ueq": l == r, "one": l != r, "une": l != r}.get(info[0])
        if val is None:
            return None
        if val != bool(taken):
            return False
    return True


def run(tier):
    rep = Report("C11", tier, "other", RULE)
    rep.trusted += ["clang 14 code generation and -O2", "bin/ir2json, lib/absint.py, lib/poly.py"]
    P.reset_registry()
    mod = lower_driver(os.path.join(VERIF, "drivers", "c11_interp.cxx"), os.path.join(OUT, "C11"), "c11", opt="-O2")
    V = lambda n: Rat.var(n)
    x = V("x")
    nodes = [(V("x%d" % i), V("y%d" % i), V("d%d" % i)) for i in range(3)]
    base = {"x0": 0, "x1": 1, "x2": 3, "y0": 5, "y1": 7, "y2": 11, "d0": 13, "d1": 17, "d2": 19}
    REG = {"left": Fraction(-1), "seg0": Fraction(1, 2), "seg1": Fraction(2), "right": Fraction(4)}

    def paths(fname, ins, nout):
        if fname not in mod["functions"]:
            raise AnalysisBroken("shim %s missing" % fname)
        try:
            r = run_shim(mod, fname, [ins], [nout], max_paths=64)
        except Unsupported as e:
            raise AnalysisBroken("%s: unsupported: %s" % (fname, e))
        rep.count("shims interpreted")
        rep.count("paths explored", len(r))
        return r

    def region(pths, xname, what):
        out = {}
        for reg, xv in REG.items():
            env = dict(base)
            env[xname] = xv
            ok = [p_ for p_ in pths if feasible(p_[0], env)]
            if len(ok) != 1 or any(feasible(p_[0], env) is None for p_ in pths):
                raise AnalysisBroken("%s: %d feasible paths in region %s" % (what, len(ok), reg))
            out[reg] = ok[0]
        return out

    def at(r, name, val):
        return r.subs(name, val.n) if val.d.is_const() and val.d.const_value() == 1 else None
    cubic = {}
    for mode, fname in (("extrapolating", "verif_cs_vd_ext"), ("clamping", "verif_cs_vd_clamp")):
        ins = [x] + [c for nd in nodes for c in nd]
        R = region(paths(fname, ins, 3), "x", fname)
        for reg, p_ in R.items():
            v, d, v2 = p_[1][0]
            key = "%s/%s" % (mode, reg)
            if v2.equals(v) and d.equals(v.diff("x")):
                rep.ok("spline (%s), region %s: both variants agree and the derivative returned is d/dx of the value" % (mode, reg))
            else:
                rep.fail("SPLINE-DERIVATIVE@%s" % key, "cubic spline (%s), region %s: value %r, value of the other variant %r, derivative returned %r, "
                         "d/dx of the value %r" % (mode, reg, v, v2, d, v.diff("x")))
            if reg in ("seg0", "seg1"):
                i = int(reg[-1])
                (xa, ya, da), (xb, yb, db) = nodes[i], nodes[i + 1]
                conds = [("value at x%d" % i, at(v, "x", xa), ya), ("value at x%d" % (i + 1), at(v, "x", xb), yb),
                         ("derivative at x%d" % i, at(d, "x", xa), da), ("derivative at x%d" % (i + 1), at(d, "x", xb), db)]
                bad = [(w, g, e) for w, g, e in conds if g is None or not g.equals(e)]
                deg = v.diff("x").diff("x").diff("x").diff("x")
                if not bad and deg.is_zero():
                    rep.ok("spline (%s) on [x%d, x%d]: a cubic taking y%d, y%d and the stored derivatives d%d, d%d at the nodes (node reproduction, "
                           "C0 and C1 continuity)" % (mode, i, i + 1, i, i + 1, i, i + 1))
                    cubic[(mode, i)] = v
                else:
                    w, g, e = bad[0] if bad else ("degree", deg, 0)
                    rep.fail("SPLINE-HERMITE@%s" % key, "cubic spline (%s) on [x%d, x%d]: %s is %r instead of %r" % (mode, i, i + 1, w, g, e))
            else:
                xe, ye, de = nodes[0] if reg == "left" else nodes[2]
                wantv, wantd = (ye + (x - xe) * de, de) if mode == "extrapolating" else (ye, Rat(0))
                if v.equals(wantv) and d.equals(wantd):
                    rep.ok("spline (%s), %s of the table: %s" % (mode, reg, "y + (x - x_end) d_end, derivative d_end" if mode == "extrapolating"
                                                                   else "the end value, zero derivative"))
                else:
                    rep.fail("SPLINE-OUTSIDE@%s" % key, "cubic spline (%s), %s of the table: value %r and derivative %r instead of %r and %r"
                             % (mode, reg, v, d, wantv, wantd))
    # S4 local integral
    xa, xb = V("xa"), V("xb")
    pi = paths("verif_cs_int", [xa, xb] + list(nodes[0]) + list(nodes[1]), 1)
    if len(pi) != 1:
        raise AnalysisBroken("computeCubicSplineLocalIntegral: %d paths" % len(pi))
    I = pi[0][1][0][0]
    c0 = cubic.get(("extrapolating", 0))
    if c0 is None:
        rep.fail("SPLINE-INTEGRAL@premise", "the interpolating cubic on [x0, x1] was not established; the integral clause cannot be decided")
    else:
        zero = I.subs("xb", P.Poly.var("xa"))
        dI = I.diff("xb")
        if zero.is_zero() and dI.equals(c0.subs("x", P.Poly.var("xb"))):
            rep.ok("computeCubicSplineLocalIntegral(xa, xb, p0, p1) vanishes at xa = xb and d/dxb is the interpolating cubic at xb")
        else:
            rep.fail("SPLINE-INTEGRAL@local", "computeCubicSplineLocalIntegral: I(xa, xa) = %r ; dI/dxb = %r whereas the interpolating cubic at xb is %r"
                     % (zero, dI, c0.subs("x", P.Poly.var("xb"))))
    # linear interpolation
    a = V("a")
    xs = [V("x%d" % i) for i in range(3)]
    vs = [V("v%d" % i) for i in range(3)]
    baseL = {"x0": 0, "x1": 1, "x2": 3, "v0": 5, "v1": 7, "v2": 11}
    seg = lambda i: vs[i] + (vs[i + 1] - vs[i]) / (xs[i + 1] - xs[i]) * (a - xs[i])
    for mode, fname in (("extrapolating", "verif_li_vd_ext"), ("clamping", "verif_li_vd_clamp")):
        pths = paths(fname, [a] + xs + vs, 3)
        Rg = {}
        for reg, xv in REG.items():
            env = dict(baseL)
            env["a"] = xv
            ok = [p_ for p_ in pths if feasible(p_[0], env)]
            if len(ok) != 1:
                raise AnalysisBroken("%s: %d feasible paths in region %s" % (fname, len(ok), reg))
            Rg[reg] = ok[0]
        for reg, p_ in Rg.items():
            v, d, v2 = p_[1][0]
            key = "%s/%s" % (mode, reg)
            if not (v2.equals(v) and d.equals(v.diff("a"))):
                rep.fail("LINEAR-DERIVATIVE@%s" % key, "linear interpolation (%s), region %s: value %r / %r, derivative %r" % (mode, reg, v, v2, d))
                continue
            if reg in ("seg0", "seg1"):
                i = int(reg[-1])
                g0, g1 = v.subs("a", xs[i].n), v.subs("a", xs[i + 1].n)
                if g0.equals(vs[i]) and g1.equals(vs[i + 1]) and v.diff("a").diff("a").is_zero():
                    rep.ok("linear interpolation (%s) on [x%d, x%d]: affine, takes v%d and v%d at the nodes" % (mode, i, i + 1, i, i + 1))
                else:
                    rep.fail("LINEAR-NODES@%s" % key, "linear interpolation (%s) on [x%d, x%d]: values at the nodes %r, %r" % (mode, i, i + 1, g0, g1))
            else:
                i = 0 if reg == "left" else 1
                wantv = seg(i) if mode == "extrapolating" else (vs[0] if reg == "left" else vs[2])
                if v.equals(wantv):
                    rep.ok("linear interpolation (%s), %s of the table: %s" % (mode, reg, "the line of the end segment" if mode == "extrapolating"
                                                                                 else "the end value, zero derivative"))
                else:
                    rep.fail("LINEAR-OUTSIDE@%s" % key, "linear interpolation (%s), %s of the table: %r instead of %r" % (mode, reg, v, wantv))
    # ---- larger tables: the binary search of the spline and the index search of the linear interpolation on 12 nodes
    NN = 12
    xs12 = [V("x%d" % i) for i in range(NN)]
    ys12 = [V("y%d" % i) for i in range(NN)]
    ds12 = [V("d%d" % i) for i in range(NN)]
    vs12 = [V("v%d" % i) for i in range(NN)]
    base12 = {}
    for i in range(NN):
        base12["x%d" % i] = 10 * i
        base12["y%d" % i] = 3 + 7 * i * i
        base12["d%d" % i] = 2 + i
        base12["v%d" % i] = 5 + 3 * i * i
    for what, fname, ins, arg in (("spline", "verif_cs_vd_ext_n", [x] + [c for i in range(NN) for c in (xs12[i], ys12[i], ds12[i])], "x"),
                                  ("linear interpolation", "verif_li_vd_ext_n", [a] + xs12 + vs12, "a")):
        try:
            pths = run_shim(mod, fname, [ins], [2], max_paths=400)
        except Unsupported as e:
            raise AnalysisBroken("%s: unsupported: %s" % (fname, e))
        rep.count("shims interpreted")
        rep.count("paths explored", len(pths))
        for k in range(NN - 1):
            env = dict(base12)
            for q in (Fraction(10 * k) + Fraction(1, 3), Fraction(10 * k + 5), Fraction(10 * k + 10) - Fraction(1, 3)):
                env[arg] = q
                ok = [p_ for p_ in pths if feasible(p_[0], env)]
                rep.count("interval queries on the 12-node tables")
                if len(ok) != 1:
                    raise AnalysisBroken("%s: %d feasible paths for a query in [x%d, x%d]" % (fname, len(ok), k, k + 1))
                v, d = ok[0][1][0]
                ya, yb = (ys12[k], ys12[k + 1]) if what == "spline" else (vs12[k], vs12[k + 1])
                g0, g1 = v.subs(arg, xs12[k].n), v.subs(arg, xs12[k + 1].n)
                good = g0.equals(ya) and g1.equals(yb) and d.equals(v.diff(arg))
                if what == "spline":
                    good = good and d.subs(arg, xs12[k].n).equals(ds12[k]) and d.subs(arg, xs12[k + 1].n).equals(ds12[k + 1])
                else:
                    good = good and v.diff(arg).diff(arg).is_zero()
                if good:
                    rep.ok("%s, 12 nodes: a query at %s in [x%d, x%d] is interpolated on that interval" % (what, q, k, k + 1), sample=(k == 5))
                else:
                    rep.fail("TABLE-SEARCH@%s#interval%d" % (what.replace(" ", "-"), k),
                             "%s on a 12-node table: for a query at %s (nodes at 0, 10, ..., 110) the value returned takes %r at x%d and %r at x%d "
                             "instead of the tabulated values: the query is evaluated on the wrong interval" % (what, q, g0, k, g1, k + 1))
                    break
    rep.floor("interval queries on the 12-node tables", 60)
    rep.floor("shims interpreted", 5)
    rep.floor("paths explored", 15)
    rep.assumptions += ["exact real arithmetic; tables of three nodes (all clauses) and of twelve nodes (interval selection by lower_bound / findIndex, "
                        "node values, derivative); other table sizes are not explored",
                        "not decided: the stored derivatives (tridiagonal system, natural end conditions, continuity of the second derivative), "
                        "computeIntegral / computeMeanValue over several intervals, tables of run-time size, the std::vector-based class interface"]
    return rep
