"""C48 (one clause) - the time loop of GenericSolver::execute never starts an attempt that ends after the requested time.

END-CLAMP: in GenericSolver::execute, with t the current time (the local advanced by 't += dt' after scs.update), dt the time step and
te the end of the interval, every statement that may make t + dt exceed te - a multiplication of dt by something that is not a literal
in ]0, 1], any other assignment of dt, and the advance 't += dt' itself when dynamic time step scaling may be on - is followed, on every
path to the next attempt (the call of iterate / iterate2, possibly through the immediately-invoked closure), by the clamp:
    if (dt > R) dt = te - t;
where the test is implied by 'dt > te - t', i.e. R = te - t - X with every X provably >= 0 (a literal, or a local initialised by
std::max(.., c) with a literal c >= 0).  On the true edge dt becomes te - t; on the false edge dt <= R <= te - t.
Paths on which the loop's 'end' flag is set leave the loop and are not attempts.

LOOP-EXIT-AT-END: execute returns normally only with its 'end' flag set; the only other way out of the loop (the budget of sub-steps)
raises, and the budget is positive (setter and default).

Not decided: that imposed loadings equal their evolutions at the output times (numerical), that linear evolutions interpolate
(numerical), and the non-dynamic case, where dt is only ever halved and the steps land on te by binary subdivision (up to the
loop's own tolerance t_eps) - no clamp exists there and none is demanded."""
import os, re
from common import *
from cfg import *

RULE = ("must-pass-through dataflow on the clang CFG of GenericSolver::execute with three-valued facts (dynamic scaling, end flag): every "
        "possible growth of t + dt reaches the next attempt only through a clamp whose test is implied by dt > te - t (linear check of the bound)")
UNIT = "mtest/src/GenericSolver.cxx"


def rel(loc):
    return loc.replace(REPO + "/", "")


def linear(f, sid, sign=1, out=None):
    """{symbol text: coefficient} of a +/- expression tree (leaves are kept as texts with their node ids)."""
    out = {} if out is None else out
    s = f.strip(sid)
    n = f.stmts[s]
    if n["k"] == "ParenExpr":
        return linear(f, f.kids(s)[0], sign, out)
    if n["k"] == "BinaryOperator" and n.get("op") in ("+", "-"):
        l, r = f.kids(s)[:2]
        linear(f, l, sign, out)
        linear(f, r, sign if n["op"] == "+" else -sign, out)
        return out
    if n["k"] == "UnaryOperator" and n.get("op") == "-":
        return linear(f, f.kids(s)[0], -sign, out)
    t = f.text(s)
    c, _ = out.get(t, (0, s))
    out[t] = (c + sign, s)
    return out


def nonneg(f, sid, depth=0):
    """provably >= 0: a non-negative literal, or std::max with such an argument, or a local initialised by one of these."""
    s = f.strip(sid)
    n = f.stmts[s]
    while n["k"] in ("CXXFunctionalCastExpr", "CStyleCastExpr", "CXXStaticCastExpr", "MaterializeTemporaryExpr", "ExprWithCleanups", "ParenExpr") and f.kids(s):
        s = f.strip(f.kids(s)[-1])
        n = f.stmts[s]
    if n["k"] in ("IntegerLiteral", "FloatingLiteral"):
        try:
            return float(n.get("value")) >= 0
        except (TypeError, ValueError):
            return False
    if n["k"] == "CallExpr" and re.match(r"^std::max(<|$)", (n.get("callee") or "")) and len(n.get("args") or []) == 2:
        return any(nonneg(f, a, depth + 1) for a in n["args"])
    if n["k"] == "DeclRefExpr" and n.get("local") and depth < 3:
        for x, m in f.stmts.items():
            if m["k"] == "DeclStmt":
                for dd in m["decls"]:
                    if dd.get("declId") == n.get("declId") and "init" in dd and "const" in (dd.get("type") or ""):
                        return nonneg(f, dd["init"], depth + 1)
    return False


def loop_exit_rule(rep, x):
    """LOOP-EXIT-AT-END: GenericSolver::execute returns normally only with its 'end' flag set (the flag is set when t reached te):
    the other way out of the time loop, the budget of sub-steps, must raise.  Facts: 'end', and 'full' (subStep == o.mSubSteps);
    raise_if(c, ...) continues only when c is false; ++subStep forgets 'full'; an assignment of end forgets 'end'.  On entry 'full' is
    false because the setter and the default give a positive budget (checked below on SchemeBase)."""
    def atom(f_, s):
        n = f_.stmts.get(s)
        if n is None:
            return None
        if n["k"] == "DeclRefExpr" and n.get("name") == "end" and n.get("local"):
            return (("end",), False)
        bo = f_.binop(s)
        if bo and bo[0] in ("==", "!="):
            ts = sorted(f_.text(f_.strip(k)) for k in bo[1:])
            if any("mSubSteps" in t for t in ts) and any(t == "subStep" for t in ts):
                return (("full",), bo[0] == "!=")
        return None

    def el(st, b, i, e):
        if "s" not in e:
            return (st,)
        s = e["s"]
        n = x.stmts[s]
        fx = dict(st)
        if n["k"] == "CallExpr" and (n.get("callee") or "").split("<")[0].endswith("raise_if") and n.get("args"):
            f2 = refine(x, x.strip(n["args"][0]), False, fx, atom)
            if eval3(x, n["args"][0], fx, atom) is True:
                return ()
            return (tuple(sorted(f2.items())),)
        if n["k"] == "UnaryOperator" and n.get("op") in ("++", "--") and x.text(x.strip(x.kids(s)[0])) == "subStep":
            fx.pop(("full",), None)
            return (tuple(sorted(fx.items())),)
        if n["k"] == "BinaryOperator" and n.get("op") == "=" and x.text(x.strip(x.kids(s)[0])) == "end":
            fx.pop(("end",), None)
            return (tuple(sorted(fx.items())),)
        if n["k"] == "DeclStmt":
            for dd in n["decls"]:
                if dd.get("name") == "end" and "init" in dd:
                    v = x.stmts[x.strip(dd["init"])]
                    if v["k"] == "CXXBoolLiteralExpr":
                        fx[("end",)] = bool(v["value"])
                        return (tuple(sorted(fx.items())),)
        return (st,)

    def ed(st, b, succ, pol):
        fx = branch(x, b, pol, dict(st), atom)
        return () if fx is None else (tuple(sorted(fx.items())),)
    IN, _OUT = forward(x, ((( ("full",), False),),), el, ed)
    rep.count("states at the normal exit of execute", len(IN.get(x.exit, ())))
    bad = [dict(st) for st in IN.get(x.exit, ()) if dict(st).get(("end",)) is not True]
    if bad:
        rep.fail("LOOP-EXIT-AT-END@mtest::GenericSolver::execute", "%s: GenericSolver::execute can return normally with its end flag not set (facts at the "
                 "exit: %s): the time loop is left because the budget of sub-steps is spent, without an error, and the caller writes the "
                 "state of an earlier time under the requested time" % (rel(x.loc), bad[0]))
    else:
        rep.ok("execute returns normally only when its end flag is set; leaving the loop on the sub-step budget raises")
    # the budget is positive
    d = cfgdump([os.path.join(REPO, "mtest/src/SchemeBase.cxx")], os.path.join(OUT, "C48", "dump2"),
                funcs=r"^mtest::SchemeBase::(setMaximumNumberOfSubSteps|completeInitialisation)$", root=REPO)
    fs = {f.qname.rsplit("::", 1)[-1]: f for f in load_functions(d) if f.parent is None}
    ok1 = ok2 = False
    g = fs.get("setMaximumNumberOfSubSteps")
    if g is not None:
        for n in g.stmts.values():
            if n["k"] == "CallExpr" and (n.get("callee") or "").split("<")[0].endswith("raise_if") and n.get("args"):
                t = g.text(g.strip(n["args"][0])).replace(" ", "")
                if t in ("(i==0)", "(0==i)", "(i<1)", "(i<=0)"):
                    ok1 = True
    g = fs.get("completeInitialisation")
    if g is not None:
        for s_, n in g.stmts.items():
            if n["k"] == "BinaryOperator" and n.get("op") == "=" and "mSubSteps" in g.text(g.strip(g.kids(s_)[0])):
                v = g.stmts[g.strip(g.kids(s_)[1])]
                if v["k"] == "IntegerLiteral" and int(v["value"]) > 0:
                    ok2 = True
    if ok1 and ok2:
        rep.ok("the budget of sub-steps is positive: the setter rejects 0 and the default is a positive literal")
    else:
        rep.fail("SUBSTEP-BUDGET-POSITIVE@mtest::SchemeBase", "the budget of sub-steps may be 0 (setter check: %s, positive default: %s): execute would "
                 "return at once without having reached the requested time" % (ok1, ok2))


def run(tier):
    rep = Report("C48", tier, "other", RULE)
    d = cfgdump([os.path.join(REPO, UNIT)], os.path.join(OUT, "C48", "dump"), funcs=r"^mtest::(GenericSolver::execute|iterate2?)", root=REPO)
    funcs = load_functions(d)
    ex = [f for f in funcs if f.qname == "mtest::GenericSolver::execute" and f.parent is None]
    if len(ex) != 1 or ex[0].entry is None:
        raise AnalysisBroken("GenericSolver::execute not found")
    x = ex[0]
    lam = {(f.unit, f.id): f for f in funcs if f.parent is not None}

    def calls_attempt(g):
        return any(m["k"] == "CallExpr" and (m.get("callee") or "") in ("mtest::iterate", "mtest::iterate2") for m in g.stmts.values())
    # roles: te = the last real parameter; t, dt from the statement 't += dt' that follows scs.update
    params = [p for p in x.params if p["type"].replace("const ", "") in ("double", "mtest::real")]
    if len(params) < 2:
        raise AnalysisBroken("execute: time parameters not found")
    te = params[-1]["name"]
    adv = [(s, n) for s, n in x.stmts.items() if n["k"] == "CompoundAssignOperator" and n.get("op") == "+="
           and all(x.stmts[x.strip(k)]["k"] == "DeclRefExpr" and x.stmts[x.strip(k)].get("local") for k in x.kids(s)[:2])]
    if len(adv) != 1:
        raise AnalysisBroken("execute: the advance 't += dt' was not identified (%d candidates)" % len(adv))
    tname = x.stmts[x.strip(x.kids(adv[0][0])[0])]["name"]
    dtname = x.stmts[x.strip(x.kids(adv[0][0])[1])]["name"]
    rep.extra["roles"] = {"t": tname, "dt": dtname, "te": te}

    def is_var(sid, name):
        n = x.stmts.get(x.strip(sid))
        return n is not None and n["k"] == "DeclRefExpr" and n.get("name") == name

    def atom(f_, s):
        n = f_.stmts.get(s)
        if n is None:
            return None
        if n["k"] == "MemberExpr" and n.get("member") == "dynamic_time_step_scaling":
            return (("dyn",), False)
        if n["k"] == "DeclRefExpr" and n.get("name") == "end" and n.get("local"):
            return (("end",), False)
        return None

    def clamp_test(cond):
        """(implied, why) when cond is 'dt > R' / 'R < dt'; None when it is not a test of dt."""
        bo = x.binop(cond)
        if not bo or bo[0] not in (">", "<", ">=", "<="):
            return None
        op, l, r = bo
        if op in ("<", "<="):
            l, r, op = r, l, {"<": ">", "<=": ">="}[op]
        if not is_var(l, dtname):
            return None
        lin = linear(x, r)
        if lin.get(te, (0, 0))[0] != 1 or lin.get(tname, (0, 0))[0] != -1:
            return (False, "its bound is not te - t - ...")
        for sym, (c, sid) in lin.items():
            if sym in (te, tname) or c == 0:
                continue
            if c > 0:
                return (False, "'%s' is added to the bound" % sym)
            if not nonneg(x, sid):
                return (False, "'%s' is subtracted from the bound and is not known to be >= 0" % sym)
        return (True, "")
    bad = []
    sites = {"grow": set(), "clamp": set(), "attempt": set(), "tests": {}}

    def el(st, b, i, e):
        if "s" not in e:
            return (st,)
        facts, dirty = st
        s = e["s"]
        n = x.stmts[s]
        fx = dict(facts)
        if n["k"] == "BinaryOperator" and n.get("op") == "=":
            l, r = x.kids(s)[:2]
            if is_var(l, "end"):
                fx.pop(("end",), None)
                return ((tuple(sorted(fx.items())), dirty),)
            if is_var(l, dtname):
                lin = linear(x, r)
                if {k: v[0] for k, v in lin.items() if v[0]} == {te: 1, tname: -1}:
                    sites["clamp"].add(s)
                    return ((facts, None),)
                sites["grow"].add(s)
                return ((facts, s),)
        if n["k"] == "CompoundAssignOperator" and is_var(x.kids(s)[0], dtname):
            rhs = x.stmts[x.strip(x.kids(s)[1])]
            shrink = n.get("op") == "*=" and rhs["k"] in ("FloatingLiteral", "IntegerLiteral") and 0 < float(rhs.get("value")) <= 1
            if not shrink:
                sites["grow"].add(s)
                return ((facts, s),)
        if n["k"] == "CompoundAssignOperator" and n.get("op") == "+=" and is_var(x.kids(s)[0], tname):
            if fx.get(("dyn",)) is not False:
                sites["grow"].add(s)
                return ((facts, s),)
        att = False
        if n["k"] == "CallExpr" and (n.get("callee") or "") in ("mtest::iterate", "mtest::iterate2"):
            att = True
        if n["k"] == "CXXOperatorCallExpr" and n.get("op") == "()":
            g = lam.get((x.unit, n.get("calleeId")))
            att = g is not None and calls_attempt(g)
        if att:
            sites["attempt"].add(s)
            if dirty is not None:
                bad.append((s, dirty))
        return (st,)

    def ed(st, b, succ, pol):
        facts, dirty = st
        fx = branch(x, b, pol, dict(facts), atom)
        if fx is None:
            return ()
        if pol is False and b.cond is not None and dirty is not None:
            ct = clamp_test(b.cond)
            if ct is not None:
                sites["tests"][b.cond] = ct
                if ct[0]:
                    dirty = None
        elif b.cond is not None and pol is True:
            ct = clamp_test(b.cond)
            if ct is not None:
                sites["tests"][b.cond] = ct
        return ((tuple(sorted(fx.items())), dirty),)
    forward(x, (((), None),), el, ed)
    rep.count("statements that may make t + dt exceed te", len(sites["grow"]))
    rep.count("clamps dt = te - t", len(sites["clamp"]))
    rep.count("attempt call sites", len(sites["attempt"]))
    rep.extra["clamp_tests"] = [{"test": x.text(c), "where": rel(x.short_loc(c)), "implied_by_dt_gt_te_minus_t": v[0], "why_not": v[1]} for c, v in sites["tests"].items()]
    seen = set()
    for s, src in bad:
        key = "END-CLAMP@mtest::GenericSolver::execute#%s" % x.text(src)
        if key in seen:
            continue
        seen.add(key)
        why = "; ".join("the test '%s' does not cover dt > %s - %s: %s" % (x.text(c), te, tname, v[1]) for c, v in sites["tests"].items() if not v[0]) or \
            "no clamp 'dt = %s - %s' lies on the path" % (te, tname)
        rep.fail(key, "%s: after '%s' (%s) an attempt can start with %s + %s beyond %s: %s. The step then ends after the requested time and the "
                 "results written for %s are those of a later time" % (rel(x.short_loc(s)), x.text(src), rel(x.short_loc(src)), tname, dtname, te, why, te))
    for s in sorted(sites["grow"]):
        if not any(src == s for _a, src in bad):
            rep.ok("%s: '%s' reaches the next attempt only through the clamp" % (rel(x.short_loc(s)), x.text(s)))
    loop_exit_rule(rep, x)
    rep.floor("statements that may make t + dt exceed te", 3)
    rep.floor("clamps dt = te - t", 1)
    rep.floor("attempt call sites", 1)
    rep.assumptions += ["roles of t, dt and te are read from 't += dt' and the parameter list of execute", "real arithmetic: rounding of te - t is not modelled",
                        "the non-dynamic case (binary subdivision) and the numerical clauses of the property are not decided"]
    return rep
