#!/usr/bin/env python3
"""runs the repository's pinned suite (guard off = plain tree) and compares with BASELINE.json."""
import json, re, subprocess, sys
subprocess.run("ninja -C /repo/_build -j8 >/dev/null 2>&1; ctest --test-dir /repo/_build -j8 --timeout 900 >/dev/null 2>&1", shell=True)
names = set(b.split('::')[0] for b in json.load(open('/root/.vp/BASELINE.json'))['stable_pass'])
log = open('/repo/_build/Testing/Temporary/LastTest.log', errors='replace').read()
res = {m.group(1): m.group(2) for m in re.finditer(r'^\d+/\d+ Test: (\S+)\n.*?^Test (Passed|Failed)', log, re.M | re.S)}
bad = sorted(n for n in names if res.get(n) != 'Passed')
print("baseline tests: %d, passed: %d" % (len(names), len(names) - len(bad)))
if bad:
    print("FAILED:", bad[:20]); sys.exit(1)
