// shims around the eigenvalue sorters (C04); floats only move through them
#include <array>
#include "TFEL/Math/stensor.hxx"
#include "TFEL/Math/Stensor/Internals/SortEigenValues.hxx"
#include "TFEL/Math/Stensor/Internals/SortEigenVectors.hxx"
#include "FSES/Utilities.hxx"
using namespace tfel::math;
using O = stensor_common::EigenValuesOrdering;
template <unsigned short N>
static void sev(double* v, int o) {
  internals::SortEigenValues<N>::exe(v[0], v[1], v[2], static_cast<O>(o));
}
extern "C" void verif_sev1(double* v, int o) { sev<1>(v, o); }
extern "C" void verif_sev2(double* v, int o) { sev<2>(v, o); }
extern "C" void verif_sev3(double* v, int o) { sev<3>(v, o); }
template <unsigned short N>
static void sevec(double* v, double* m, int o) {
  tvector<3u, double> vp = {v[0], v[1], v[2]};
  tmatrix<3u, 3u, double> mm = {m[0], m[1], m[2], m[3], m[4], m[5], m[6], m[7], m[8]};
  internals::SortEigenVectors<N>::exe(vp, mm, static_cast<O>(o));
  for (unsigned short i = 0; i != 3; ++i) v[i] = vp[i];
  for (unsigned short i = 0; i != 3; ++i)
    for (unsigned short j = 0; j != 3; ++j) m[3 * i + j] = mm(i, j);
}
extern "C" void verif_sevec1(double* v, double* m, int o) { sevec<1>(v, m, o); }
extern "C" void verif_sevec2(double* v, double* m, int o) { sevec<2>(v, m, o); }
extern "C" void verif_sevec3(double* v, double* m, int o) { sevec<3>(v, m, o); }
extern "C" void verif_sortEigenValues(double* v, int o) {
  const tvector<3u, double> vp = {v[0], v[1], v[2]};
  const auto r = sortEigenValues(vp, static_cast<O>(o));
  for (unsigned short i = 0; i != 3; ++i) v[i] = r[i];
}
extern "C" void verif_fses_sort(double* v, double* m, int o) {
  tvector<3u, double> vp = {v[0], v[1], v[2]};
  tmatrix<3u, 3u, double> mm = {m[0], m[1], m[2], m[3], m[4], m[5], m[6], m[7], m[8]};
  fses::sort(mm, vp, static_cast<fses::EigenValuesOrdering>(o));
  for (unsigned short i = 0; i != 3; ++i) v[i] = vp[i];
  for (unsigned short i = 0; i != 3; ++i)
    for (unsigned short j = 0; j != 3; ++j) m[3 * i + j] = mm(i, j);
}
