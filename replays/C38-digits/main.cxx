#include <cstdio>
#include "MFront/GenericMaterialProperty/OutputStatus.h"
#include "MFront/GenericMaterialProperty/OutOfBoundsPolicy.h"
extern "C" double VerifMPDigits(mfront_gmp_OutputStatus* const, const double* const, const int, const mfront_gmp_OutOfBoundsPolicy);
int main() {
  mfront_gmp_OutputStatus s;
  const double a[2] = {1234.569, 1e-3};  // above the declared upper bound 1234.5678, below its six-digit rounding 1234.57
  const auto y = VerifMPDigits(&s, a, 2, GENERIC_MATERIALPROPERTY_STRICT_POLICY);
  std::printf("x=1234.569 (declared bounds [293.15625:1234.5678]) -> status %d bounds_status %d value %g\n", s.status, s.bounds_status, y);
  return s.status == -1 ? 0 : 1;  // Strict policy: out of bounds
}
