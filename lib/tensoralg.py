"""Oracle-side tensor algebra over poly.Rat (written from the definitions:
matrix of a Mandel vector, index notation), plus the shim runner of Engine B."""
from fractions import Fraction
import poly as P
from poly import Rat
from absint import Machine, explore, ptr, Unsupported, UNDEF
from domains import PolyDomain

S2 = lambda: Rat(P.SQRT2())
SSZ = {1: 3, 2: 4, 3: 6}
TSZ = {1: 3, 2: 5, 3: 9}


def syms(prefix, n):
    return [Rat.var("%s%d" % (prefix, i)) for i in range(n)]


def zeros(n, m=None):
    if m is None:
        return [Rat(0) for _ in range(n)]
    return [[Rat(0) for _ in range(m)] for _ in range(n)]


def ident(n=3):
    return [[Rat(1 if i == j else 0) for j in range(n)] for i in range(n)]


def matmul(A, B):
    n, k, m = len(A), len(B), len(B[0])
    return [[sum((A[i][l] * B[l][j] for l in range(k)), Rat(0)) for j in range(m)] for i in range(n)]


def transpose(A):
    return [list(r) for r in zip(*A)]


def madd(A, B, sa=1, sb=1):
    return [[A[i][j] * sa + B[i][j] * sb for j in range(len(A[0]))] for i in range(len(A))]


def mscale(A, c):
    return [[x * c for x in r] for r in A]


def det3(M):
    return (M[0][0] * (M[1][1] * M[2][2] - M[1][2] * M[2][1])
            - M[0][1] * (M[1][0] * M[2][2] - M[1][2] * M[2][0])
            + M[0][2] * (M[1][0] * M[2][1] - M[1][1] * M[2][0]))


def trace3(M):
    return M[0][0] + M[1][1] + M[2][2]


def stensor_matrix(s, N):
    """3x3 matrix of a Mandel vector: (xx, yy, zz, sqrt2 xy, sqrt2 xz, sqrt2 yz)."""
    h = Rat(1) / S2()
    z = Rat(0)
    xy = s[3] * h if N >= 2 else z
    xz = s[4] * h if N == 3 else z
    yz = s[5] * h if N == 3 else z
    return [[s[0], xy, xz], [xy, s[1], yz], [xz, yz, s[2]]]


def matrix_stensor(M, N, symmetrise=True):
    r2 = S2()
    sym = lambda i, j: (M[i][j] + M[j][i]) * Fraction(1, 2) if symmetrise else M[i][j]
    out = [M[0][0], M[1][1], M[2][2]]
    if N >= 2:
        out.append(sym(0, 1) * r2)
    if N == 3:
        out.append(sym(0, 2) * r2)
        out.append(sym(1, 2) * r2)
    return out


def tensor_matrix(t, N):
    """3x3 matrix of an unsymmetric tensor: (xx,yy,zz,xy,yx,xz,zx,yz,zy)."""
    z = Rat(0)
    g = lambda i: t[i] if i < TSZ[N] else z
    return [[g(0), g(3), g(5)], [g(4), g(1), g(7)], [g(6), g(8), g(2)]]


def matrix_tensor(M, N):
    full = [M[0][0], M[1][1], M[2][2], M[0][1], M[1][0], M[0][2], M[2][0], M[1][2], M[2][1]]
    return full[:TSZ[N]]


def clear_denominators(vals):
    """(numerators as Rat with denominator 1, common denominator as Rat): the
    common denominator is the product of the distinct denominators."""
    dens = {}
    for v in vals:
        dens.setdefault(v.d.key(), v.d)
    D = P.Poly.const(1)
    for d in dens.values():
        D = D * d
    nums = []
    for v in vals:
        f = P.Poly.const(1)
        for k, d in dens.items():
            if k != v.d.key():
                f = f * d
        nums.append(Rat(v.n * f))
    return nums, Rat(D)


def eq_list(a, b):
    return len(a) == len(b) and all(x.equals(y) for x, y in zip(a, b))


def first_diff(a, b):
    for i, (x, y) in enumerate(zip(a, b)):
        if not x.equals(y):
            return i, x, y
    return None


def run_shim(mod, fname, inputs, out_sizes, max_paths=16, scalars=(), fresh_externals=False, inout=()):
    """inputs: list of lists of Rat (one list per input pointer argument, in
    order); out_sizes: number of doubles read back from each output pointer
    (appended after the inputs); scalars: extra trailing non-pointer args.
    Returns [(path_atoms, [out lists], trace, assumptions)]."""
    dom = PolyDomain(fresh_externals=fresh_externals)
    m = Machine(mod, dom)
    bases = {}

    def make_args(mm):
        args = []
        bases["ins"] = []
        for k, vals in enumerate(inputs):
            b = mm.alloc("in%d" % k)
            for i, v in enumerate(vals):
                mm.store(ptr(b, 8 * i), v, 8)
            args.append(ptr(b, 0))
            bases.setdefault("ins", []).append(b)
        outs = []
        for k, n in enumerate(out_sizes):
            b = mm.alloc("out%d" % k)
            outs.append(b)
            args.append(ptr(b, 0))
        bases["outs"] = outs + [bases["ins"][k] for k in inout]
        return args + list(scalars)
    res = []
    for path, ret, mem, trace, assum in explore(m, fname, make_args, max_paths=max_paths):
        outs = []
        for b, n in zip(bases["outs"], list(out_sizes) + [len(inputs[k]) for k in inout]):
            vals = []
            for i in range(n):
                c = mem[b].get(8 * i)
                if c is None:
                    vals.append(None)
                else:
                    v = c[0]
                    if (isinstance(v, str) and v == "zero8") or (isinstance(v, tuple) and v and v[0] == "zero8"):
                        v = Rat(0)
                    if isinstance(v, int):
                        if v != 0:
                            raise Unsupported("integer bit pattern %d stored as a float" % v)
                        v = Rat(0)
                    vals.append(v)
            outs.append(vals)
        res.append((path, outs, trace, assum, ret, dom))
    return res
