#!/bin/bash
# builds the framework binaries from files on disk (offline)
set -e
cd "$(dirname "$0")"
mkdir -p bin out evidence
make -s -C engines -j4
