"""C22 — equivalent-stress criteria: structural clauses on the second derivatives of
the eigenvalue-based criteria (Hosford 1972, Barlat 2004); nothing numerical.

Over the instantiations (N = 1, 2, 3, double) of computeHosfordStressSecondDerivative
and of the Barlat second-derivative kernels (internals of both headers):
 R1 check-before-divide: every division by a difference of two eigenvalues
    vp[i] - vp[j] is reached only where the coincidence test of that pair was
    decided negatively - directly, or because one member was decided coincident
    with an index that was decided distinct from the other (rules/C05.py);
 R3 limit coefficients: the coincident-eigenvalue limit
    ((X[a] + X[b] - 2 X[c]) / 2) * (nIJ ^ nIJ) uses the diagonal components of I
    and J and their cross component, according to the layout of the 6-vector X
    read from the terms X[k] * (nA ^ nB) of the same kernels;
 R2 coupling: in every term (nIJ ^ nIJ) / (vp[a] - vp[b]) or
    q / (vp[a] - vp[b]) * (nIJ ^ nIJ), {a, b} = {I, J}.
Not decided: value / normal / second-derivative consistency, homogeneity,
isotropy, Hosford(a=2) = Mises, Barlat(identity) = Hosford, and the criteria
that are not written on eigenvalues.
"""
import os, re
from common import *
from cfg import *
import C05

RULE = ("check-before-divide on eigenvalue differences (CFG facts per pair, transitive through a coincident partner) and coupling of the "
        "mixed eigen-tensor n_ij with the pair (i, j), on the Hosford and Barlat second-derivative kernels")


def run(tier):
    rep = Report("C22", tier, "other", RULE)
    drv = os.path.join(VERIF, "drivers", "c22_criteria.cxx")
    d = cfgdump([drv], os.path.join(OUT, "C22", "dump"),
                funcs=r"^tfel::material::(internals::)?(compute|complete)(Hosford|Barlat|Baralat)", flags_for=lambda u: (header_flags(), VERIF))
    funcs = [f for f in load_functions(d) if f.entry is not None]
    rep.count("instantiations analysed", len(funcs))
    lay = C05.layout_of(funcs)
    for f in sorted(funcs, key=lambda g: g.display):
        C05.limit_rule(rep, f, lay)
        C05.guard_rule(rep, f)
        C05.coupling_rule(rep, f)
        C05.orientation_rule(rep, f)
        C05.index_rule(rep, f)
    rep.floor("instantiations analysed", 10)
    # floors are the counts of the Barlat kernels alone: a Hosford kernel rewritten in the per-pair style of Barlat keeps them
    rep.floor("divisions by an eigenvalue difference", 8)
    rep.floor("coupling terms q * (nIJ ^ nIJ)", 8)
    rep.floor("coincident-eigenvalue limit coefficients", 8)
    rep.assumptions += ["structural clauses only; eigenvalues are recognised by the name vp and mixed eigen-tensors by the names nIJ",
                        "the criteria that are not written on eigenvalues (Hill, Cazacu, Drucker, Mohr-Coulomb, GTN, ...) are not covered"]
    return rep
