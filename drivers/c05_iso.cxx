// instantiations for the C05 rules (parsed only): isotropic-function derivatives, eigen-tensor derivatives,
// decomposition in positive and negative parts, N = 1, 2, 3
#include <cmath>
#include "TFEL/Math/stensor.hxx"
#include "TFEL/Math/st2tost2.hxx"
#include "TFEL/Math/Stensor/DecompositionInPositiveAndNegativeParts.hxx"
using namespace tfel::math;
template <unsigned short N>
static void inst(const stensor<N, double>& s, const double eps) {
  auto f = [](const double x) { return std::exp(x); };
  auto d1 = s.computeIsotropicFunctionDerivative(f, f, eps);
  auto [v, d2] = s.computeIsotropicFunctionAndDerivative(f, f, eps);
  st2tost2<N, double> dpp, dnp, a, b, c;
  stensor<N, double> pp, np;
  computeStensorPositivePartAndDerivative(dpp, pp, s, eps);
  computeStensorDecompositionInPositiveAndNegativeParts(dpp, dnp, pp, np, s, eps);
  tvector<3u, double> vp;
  rotation_matrix<double> m;
  s.computeEigenVectors(vp, m);
  stensor<N, double>::computeEigenTensorsDerivatives(a, b, c, vp, m, eps);
  (void)d1; (void)v; (void)d2;
}
void verif_c05(const stensor<1, double>& s1, const stensor<2, double>& s2, const stensor<3, double>& s3, const double eps) {
  inst<1>(s1, eps);
  inst<2>(s2, eps);
  inst<3>(s3, eps);
}
