"""C05 — isotropic tensor functions and their derivatives: structural clauses of the
coincident-eigenvalue case analysis (no numerical statement is decided).

Over the instantiations (N = 1, 2, 3, double) of
  StensorComputeIsotropicFunctionDerivative<N>::exe / exe2,
  StensorComputeEigenTensorsDerivatives<N>::exe,
  computeStensorPositivePartAndDerivative, computeStensorDecompositionInPositiveAndNegativeParts:

 R1 check-before-divide (CFG, three-valued branch facts): every division whose
    divisor is a difference of two eigenvalues vp(i) - vp(j) is reached only on
    paths where the coincidence test |vp(i) - vp(j)| < eps of *that pair* has
    been decided negatively (tests hoisted into boolean locals are followed);
    with a mean value vpm = (vp(a) + vp(b))/2 as one operand, the pair (a, b)
    must have been decided positively (they coincide) and the division guarded
    by the failure of the 'all three coincide' test.  Otherwise the quotient
    (f_i - f_j)/(vp_i - vp_j) is evaluated at (nearly) equal eigenvalues.
    The call of the distinct-eigenvalue formula (computeEigenTensorsDerivatives
    from the 3D isotropic-function derivative) requires all three pairs decided
    negatively: the case analysis over coincidences is exhaustive.
 R2 coupling rule (AST): in every term  q * (nIJ ^ nIJ)  where q is a quotient
    by vp(a) - vp(b) or regularized_inverse(vp(a) - vp(b), eps), {a, b} = {I, J};
    with q a quotient by vpm - vp(k) (vpm the mean of vp(a), vp(b)) the tensors
    are exactly n{k,a} and n{k,b}.  (The mixed tensor n_ij couples eigenvalues
    i and j only: d n_i/ds = sum_j (n_ij ^ n_ij)/(vp_i - vp_j).)
 R4 orientation (AST): a divided difference (X - Y) / (U - V) over eigenvalues
    pairs X with U and Y with V (f[i] with vp(i), a mean value with the mean of
    the same pair): otherwise its sign is wrong.
 R6 index agreement (AST): a scalar taken from an array indexed by eigenvalue
    (A[k], vp(k), a local mean of such entries) multiplies eigen-tensors of
    the same indices only (nK, nK ^ nK, nIJ ^ nIJ).
 R3 sibling agreement (AST): in the decomposition in positive and negative
    parts, the increment of dpp in the 'vp(k) > 0' arm and the increment of dnp
    in the 'vp(k) < 0' arm are the same expression, and likewise pp / np.
"""
import os, re
from common import *
from cfg import *

RULE = ("check-before-divide on eigenvalue differences (CFG facts per pair), coupling of the mixed eigen-tensor n_ij with the pair (i, j), "
        "agreement of the positive and negative arms - over the instantiations N = 1, 2, 3")
VP = r"(?:this->)?vp[\(\[](\w+)[\)\]]"
PAIR = re.compile(r"^%s - %s$" % (VP, VP))
MEAN = re.compile(r"^(?:vpm - %s|%s - vpm)$" % (VP, VP))


def rel(loc):
    return loc.replace(REPO + "/", "")


def name_of(f):
    return re.sub(r"tfel::math::(internals::)?", "", f.display)[:120]


def unparen(t):
    while t.startswith("(") and t.endswith(")"):
        depth = 0
        for i, ch in enumerate(t):
            depth += ch == "("
            depth -= ch == ")"
            if depth == 0 and i < len(t) - 1:
                return t
        t = t[1:-1]
    return t


def mean_of(f):
    """declId/name 'vpm' -> frozenset of the two indices it averages, per DeclStmt sid (several vpm in one function)."""
    res = {}
    for s, n in f.stmts.items():
        if n["k"] == "DeclStmt":
            for d in n["decls"]:
                if d.get("name") == "vpm" and "init" in d:
                    idx = re.findall(VP, f.text(d["init"]))
                    if len(idx) == 2:
                        res[d["declId"]] = frozenset(idx)
    return res


def divisor_key(f, sid, means):
    """('pair', {i,j}) / ('mean', k, {a,b}) / None for a divisor expression."""
    t = unparen(f.text(f.strip(sid)))
    m = PAIR.match(t)
    if m:
        return ("pair", frozenset((m.group(1), m.group(2))))
    m = MEAN.match(t)
    if m:
        k = m.group(1) or m.group(2)
        ids = [f.stmts[x].get("declId") for x in f.walk(sid) if f.stmts[x]["k"] == "DeclRefExpr" and f.stmts[x].get("name") == "vpm"]
        if ids and ids[0] in means:
            return ("mean", k, means[ids[0]])
    return None


def guard_rule(rep, f):
    means = mean_of(f)
    decl_init = {}
    for s, n in f.stmts.items():
        if n["k"] == "DeclStmt":
            for d in n["decls"]:
                if "init" in d and "declId" in d:
                    decl_init[d["declId"]] = d["init"]

    def atom(f_, s, depth=0):
        n = f_.stmts.get(s)
        if n is None:
            return None
        if n["k"] == "DeclRefExpr" and n.get("declId") in decl_init and depth < 3 and "bool" in (n.get("declType") or ""):
            return atom(f_, f_.strip(decl_init[n["declId"]]), depth + 1)
        bo = f_.binop(s)
        if bo is None:
            return None
        op, l, r = bo
        if op not in ("<", ">", "<=", ">="):
            return None
        ln = f_.stmts.get(f_.strip(l))
        if ln is None or ln["k"] != "CallExpr" or not (ln.get("callee") or "").endswith("abs") or not ln.get("args"):
            return None
        m = PAIR.match(unparen(f_.text(f_.strip(ln["args"][0]))))
        if not m or re.search(r"\bvp\b", f_.text(r)):
            return None     # the threshold is any expression that does not mention the eigenvalues (eps, e, ...)
        return (("close", frozenset((m.group(1), m.group(2)))), op in (">", ">="))
    bad, nd = [], [0]
    seen_div = set()

    def distinct(facts, pair):
        """the pair was tested distinct, or one of its members coincides with an index tested distinct from the other."""
        if len(pair) != 2:
            return False
        if facts.get(("close", pair)) is False:
            return True
        i, j = tuple(pair)
        for (tag, pr), val in facts.items():
            if tag != "close" or val is not True or len(pr) != 2:
                continue
            for a, b in ((i, j), (j, i)):
                if a in pr:
                    k_ = next(iter(pr - {a}))
                    if k_ != b and facts.get(("close", frozenset((k_, b)))) is False:
                        return True
        return False

    def el(st, b, i, e):
        if "s" not in e:
            return (st,)
        s = e["s"]
        n = f.stmts[s]
        if (n["k"] == "UnaryOperator" and n.get("op") in ("++", "--")) or \
                (n["k"] in ("BinaryOperator", "CompoundAssignOperator") and n.get("op") in ("=", "+=", "-=") and
                 f.stmts.get(f.strip(f.kids(s)[0]), {}).get("k") == "DeclRefExpr"):
            v = f.text(f.kids(s)[0])
            st2 = tuple(x for x in st if v not in x[0][1])
            return (st2,)
        if n["k"] == "DeclStmt" and st:
            names = set(d_.get("name") for d_ in n["decls"])
            st2 = tuple(x for x in st if not (names & set(x[0][1])))
            if len(st2) != len(st):
                return (st2,)
        dv = None
        if n["k"] == "BinaryOperator" and n.get("op") == "/":
            dv = f.kids(s)[1]
        elif n["k"] == "CXXOperatorCallExpr" and n.get("op") == "/" and len(n.get("args", [])) == 2:
            dv = n["args"][1]
        if dv is not None:
            k = divisor_key(f, dv, means)
            if k is not None:
                if s not in seen_div:
                    seen_div.add(s)
                    nd[0] += 1
                facts = dict(st)
                if k[0] == "pair":
                    if not distinct(facts, k[1]):
                        bad.append((s, "vp(%s) - vp(%s)" % tuple(sorted(k[1]) * (2 if len(k[1]) == 1 else 1))[:40], "the coincidence test of that pair was not decided negatively"))
                else:
                    _m, kk, ab = k
                    others = [frozenset((kk, a)) for a in ab]
                    if facts.get(("close", ab)) is not True:
                        bad.append((s, f.text(dv), "vpm averages vp(%s), vp(%s) but their coincidence was not established" % tuple(sorted(ab))))
                    elif not any(facts.get(("close", o)) is False for o in others):
                        bad.append((s, f.text(dv), "vp(%s) is not known to differ from the coincident pair (%s, %s)" % ((kk,) + tuple(sorted(ab)))))
        if n["k"] == "CallExpr" and (n.get("callee") or "").endswith("::computeEigenTensorsDerivatives") and "IsotropicFunctionDerivative<3" in f.display:
            # the distinct-eigenvalue formula: its three regularised quotients 1/(vp_i - vp_j) assume that no pair coincides
            if s not in seen_div:
                seen_div.add(s)
                nd[0] += 1
            facts = dict(st)
            und = [p_ for p_ in (frozenset(("0", "1")), frozenset(("0", "2")), frozenset(("1", "2"))) if facts.get(("close", p_)) is not False]
            if und:
                bad.append((s, "computeEigenTensorsDerivatives", "the coincidence of the pair(s) %s was not decided negatively (the case analysis over "
                            "coincident eigenvalues is not exhaustive)" % ", ".join("(%s, %s)" % tuple(sorted(p_)) for p_ in und)))
        return (st,)

    def ed(st, b, succ, pol):
        fx = branch(f, b, pol, dict(st), atom)
        if fx is None:
            return ()
        return (tuple(sorted(fx.items(), key=repr)),)
    forward(f, ((),), el, ed)
    rep.count("divisions by an eigenvalue difference", nd[0])
    done = set()
    for s, what, why in bad:
        if s in done:
            continue
        done.add(s)
        rep.fail("UNGUARDED-EIGEN-DIVISION@%s#%s" % (re.sub(r"<.*", "", name_of(f)) + ("<%s>" % re.search(r"<(\d)", name_of(f)).group(1) if re.search(r"<(\d)", name_of(f)) else ""), what.replace(" ", "")),
                 "%s: %s uses %s on a path where %s: the quotient is evaluated at (nearly) coincident eigenvalues"
                 % (rel(f.short_loc(s)), name_of(f), what, why))
    if nd[0] and not bad:
        rep.ok("%s: every division by an eigenvalue difference is guarded by the coincidence test of that pair (%d divisions)" % (name_of(f), nd[0]))


def orientation_rule(rep, f):
    """R4: a divided difference (X - Y) / (U - V) over eigenvalues pairs X with U and Y with V."""
    means = mean_of(f)
    inits = {}
    for s, n in f.stmts.items():
        if n["k"] == "DeclStmt":
            for d in n["decls"]:
                if "init" in d and d.get("name"):
                    inits[d["declId"]] = d["init"]

    def idx_of(sid, depth=0):
        """set of eigenvalue indices a term refers to."""
        sid = f.strip(sid)
        n = f.stmts.get(sid)
        if n is None or depth > 4:
            return None
        t = f.text(sid)
        ids = [f.stmts[x].get("declId") for x in f.walk(sid) if f.stmts[x]["k"] == "DeclRefExpr" and f.stmts[x].get("name") == "vpm"]
        if ids:
            return set(means.get(ids[0], ()))
        if n["k"] == "DeclRefExpr" and n.get("declId") in inits and n.get("local"):
            r = set()
            for x in f.walk(inits[n["declId"]]):
                m_ = f.stmts[x]
                if m_["k"] in ("CXXOperatorCallExpr", "ArraySubscriptExpr") and (m_.get("op") in ("[]", "()") or m_["k"] == "ArraySubscriptExpr"):
                    mm = re.search(r"[\(\[](\w+)[\)\]]$", f.text(x))
                    if mm:
                        r.add(mm.group(1))
            return r or None
        found = re.findall(r"[\(\[](\w+)[\)\]]", t)
        found = [x for x in found if re.match(r"^(\d|[a-z])$", x)]
        return set(found) or None
    n_ = 0
    for s, n in sorted(f.stmts.items()):
        if not (n["k"] == "BinaryOperator" and n.get("op") == "/"):
            continue
        ks = f.kids(s)
        key = divisor_key(f, ks[1], means)
        num = f.stmts.get(f.strip(ks[0]))
        den = f.stmts.get(f.strip(ks[1]))
        if key is None or num is None or den is None or num["k"] != "BinaryOperator" or num.get("op") != "-" or den["k"] != "BinaryOperator":
            continue
        nl, nr = [idx_of(x) for x in f.kids(f.strip(ks[0]))[:2]]
        dl, dr = [idx_of(x) for x in f.kids(f.strip(ks[1]))[:2]]
        if None in (nl, nr, dl, dr):
            continue
        n_ += 1
        if nl <= dl and nr <= dr:
            rep.ok("%s: %s / %s pairs each value with its eigenvalue" % (name_of(f), f.text(ks[0]), f.text(ks[1])), sample=False)
        else:
            rep.fail("ORIENTATION@%s#%s" % (re.sub(r"<.*", "", name_of(f)), rel(f.short_loc(s)).rsplit(":", 1)[-1]),
                     "%s: in %s the divided difference %s / %s subtracts the values in the opposite order of the eigenvalues (or pairs a value "
                     "with the wrong eigenvalue): its sign is wrong" % (rel(f.short_loc(s)), name_of(f), f.text(ks[0]), f.text(ks[1])))
    rep.count("divided differences (X - Y) / (U - V)", n_)


def layout_of(funcs):
    """{component index: set of eigen-index pairs} of the 6-vectors of second derivatives with respect to the eigenvalues, read from
    every term X[k] * (TA ^ TB) whose factors TA, TB are single-index eigen-tensors (nA, std::get<A>(n))."""
    lay = {}

    def single(f, sid):
        t = f.text(f.strip(sid))
        m = re.match(r"^n(\d)$", t) or re.match(r"^std::get<(\d)>\(\w+\)$", t) or re.match(r"^std::get\(\w+\)$", t)
        if m is None:
            return None
        if m.groups():
            return m.group(1)
        return None
    for f in funcs:
        for s, n in f.stmts.items():
            if not (n["k"] == "CXXOperatorCallExpr" and n.get("op") == "*" and len(n.get("args", [])) == 2):
                continue
            a0, a1 = f.strip(n["args"][0]), f.strip(n["args"][1])
            m0 = re.match(r"^([\w.>-]+)\[(\d)\]$", f.text(a0))
            t1 = f.stmts.get(a1)
            if not m0 or t1 is None or not (t1["k"] == "CXXOperatorCallExpr" and t1.get("op") == "^" and len(t1.get("args", [])) == 2):
                continue
            ia, ib = single(f, t1["args"][0]), single(f, t1["args"][1])
            if ia is None or ib is None:
                # std::get<A>(n): the index is a template argument of the callee
                def tpl(sid):
                    x = f.stmts.get(f.strip(sid))
                    if x is not None and x["k"] == "CallExpr":
                        mm = re.search(r"get<(\d)", x.get("calleeDisplay") or "")
                        return mm.group(1) if mm else None
                    return None
                ia, ib = ia or tpl(t1["args"][0]), ib or tpl(t1["args"][1])
            if ia is not None and ib is not None:
                lay.setdefault(m0.group(1), {}).setdefault(m0.group(2), set()).add(frozenset((ia, ib)))
    # a 6-vector received as a parameter has the layout of the actual argument at the call sites of the function
    for f in funcs:
        for s, n in f.stmts.items():
            if n["k"] == "CallExpr" and n.get("callee"):
                for g in funcs:
                    if g.qname == n["callee"] and g.parent is None and len(g.params) == len(n.get("args", [])):
                        for p_, a_ in zip(g.params, n["args"]):
                            t = f.text(f.strip(a_))
                            if t in lay and p_["name"] not in lay:
                                lay[p_["name"]] = lay[t]
    return lay


def limit_rule(rep, f, lay):
    """R5: the coincident-eigenvalue limit ((X[a] + X[b] - 2 X[c]) / 2) * (nIJ ^ nIJ) takes X[a], X[b] = the diagonal components of
    I and J and X[c] = their cross component, according to the layout of X read from the terms X[k] * (nA ^ nB)."""
    n_ = 0
    for s, n in sorted(f.stmts.items()):
        if not (n["k"] == "CXXOperatorCallExpr" and n.get("op") == "*" and len(n.get("args", [])) == 2):
            continue
        ts = tensors_of(f, n["args"][1])
        if not ts or len(ts) != 1:
            continue
        t = unparen(f.text(f.strip(n["args"][0])))
        m = re.match(r"^\(*(\w+)\[(\d)\] \+ (\w+)\[(\d)\]\)* - \(*2 \* (\w+)\[(\d)\]\)*\)* / 2$", t)
        if not m or not (m.group(1) == m.group(3) == m.group(5)):
            continue
        X, a, b, c = m.group(1), m.group(2), m.group(4), m.group(6)
        L = lay.get(X)
        if not L or len(L) < 3:
            raise AnalysisBroken("layout of %s not found (no term %s[k] * (nA ^ nB), directly or through a call site)" % (X, X))
        (pair,) = tuple(ts)
        i, j = sorted(pair)
        n_ += 1
        ok = L.get(a) == {frozenset((i,))} and L.get(b) == {frozenset((j,))} and L.get(c) == {frozenset((i, j))}
        ok = ok or (L.get(a) == {frozenset((j,))} and L.get(b) == {frozenset((i,))} and L.get(c) == {frozenset((i, j))})
        if ok:
            rep.ok("%s: the limit coefficient of n%s%s uses %s[%s], %s[%s] and the cross component %s[%s]" % (name_of(f), i, j, X, a, X, b, X, c), sample=False)
        else:
            want = [k for k, v in L.items() if v == {frozenset((i, j))}]
            rep.fail("LIMIT-COEFFICIENT@%s#n%s%s" % (re.sub(r"<.*", "", name_of(f)), i, j),
                     "%s: in %s the coincident-eigenvalue limit multiplying n%s%s ^ n%s%s is (%s[%s] + %s[%s] - 2 %s[%s])/2; by the layout of %s "
                     "(read from the terms %s[k] * (nA ^ nB)) the diagonal components of %s, %s are %s, %s and their cross component is %s"
                     % (rel(f.short_loc(s)), name_of(f), i, j, i, j, X, a, X, b, X, c, X, X, i, j,
                        [k for k, v in L.items() if v == {frozenset((i,))}], [k for k, v in L.items() if v == {frozenset((j,))}], want))
    rep.count("coincident-eigenvalue limit coefficients", n_)


def index_rule(rep, f):
    """R6: in a product of a scalar taken from an array indexed by eigenvalue (A[k], vp(k), or a local mean of such entries) and a sum
    of eigen-tensors (nK, nK ^ nK, nIJ ^ nIJ), the indices of the scalar are the indices of the tensors."""
    inits = {}
    for s, n in f.stmts.items():
        if n["k"] == "DeclStmt":
            for d in n["decls"]:
                if "init" in d and "declId" in d:
                    inits[d["declId"]] = d["init"]

    def tens_idx(sid):
        """indices of a sum of eigen-tensors / diagonal dyads; None when the expression is something else."""
        sid = f.strip(sid)
        n = f.stmts.get(sid)
        if n is None:
            return None
        if n["k"] == "DeclRefExpr":
            m = re.match(r"^n(\d)(\d)?$", n.get("name") or "")
            return set(x for x in m.groups() if x is not None) if m else None
        if n["k"] == "CXXOperatorCallExpr" and n.get("op") == "^" and len(n.get("args", [])) == 2:
            a, b = f.text(f.strip(n["args"][0])), f.text(f.strip(n["args"][1]))
            if a != b:
                return None
            return tens_idx(n["args"][0])
        if n["k"] == "CXXOperatorCallExpr" and n.get("op") == "+" and len(n.get("args", [])) == 2:
            l, r = tens_idx(n["args"][0]), tens_idx(n["args"][1])
            return None if l is None or r is None else l | r
        return None

    def scal_idx(sid):
        sid = f.strip(sid)
        n = f.stmts.get(sid)
        if n is None:
            return None
        t = f.text(sid)
        m = re.match(r"^[\w.>-]+[\[\(](\d)[\]\)]$", t)
        if m:
            return {m.group(1)}
        if n["k"] == "DeclRefExpr" and n.get("declId") in inits and n.get("local"):
            it = f.text(inits[n["declId"]])
            found = re.findall(r"[\w.>-]+[\[\(](\d)[\]\)]", it)
            if found and re.match(r"^[()\w.>\[\] +*/-]+$", it) and ("/" in it or "half" in it):
                return set(found)
        return None
    n_ = 0
    for s, n in sorted(f.stmts.items()):
        if not (n["k"] == "CXXOperatorCallExpr" and n.get("op") == "*" and len(n.get("args", [])) == 2):
            continue
        for ti, si in ((0, 1), (1, 0)):
            T, S = tens_idx(n["args"][ti]), scal_idx(n["args"][si])
            if T is None or S is None:
                continue
            n_ += 1
            # a single-index scalar may multiply the mixed dyad of a pair that contains its index (the term is then divided by the
            # difference of the two eigenvalues: coupling rule); otherwise the index sets must be equal
            if T == S or (len(S) == 1 and len(T) == 2 and S < T):
                rep.ok("%s: %s * %s: same eigenvalue indices" % (name_of(f), f.text(n["args"][si]), f.text(n["args"][ti])), sample=False)
            else:
                rep.fail("INDEX@%s#%s" % (re.sub(r"<.*", "", name_of(f)), rel(f.short_loc(s)).rsplit(":", 1)[-1]),
                         "%s: in %s the scalar %s (eigenvalue indices %s) multiplies %s (indices %s): a quantity of one eigenvalue is "
                         "attached to the eigen-tensor of another" % (rel(f.short_loc(s)), name_of(f), f.text(n["args"][si]), sorted(S),
                                                                      f.text(n["args"][ti]), sorted(T)))
            break
    rep.count("scalar x eigen-tensor products", n_)


def tensors_of(f, sid, scaled=False):
    """set of index pairs {I,J} for an expression made of (nIJ ^ nIJ) terms (possibly a sum); None if something else."""
    sid = f.strip(sid)
    n = f.stmts.get(sid)
    if n is None:
        return None
    if n["k"] == "CXXOperatorCallExpr" and n.get("op") == "^" and len(n.get("args", [])) == 2:
        a, b = f.text(f.strip(n["args"][0])), f.text(f.strip(n["args"][1]))
        m = re.match(r"^n(\d)(\d)$", a)
        if m and a == b:
            return {frozenset((m.group(1), m.group(2)))}
        return None
    if n["k"] == "CXXOperatorCallExpr" and n.get("op") == "+" and len(n.get("args", [])) == 2:
        l, r = tensors_of(f, n["args"][0]), tensors_of(f, n["args"][1])
        if l is None or r is None:
            return None
        return l | r
    if n["k"] == "CXXOperatorCallExpr" and n.get("op") == "*" and len(n.get("args", [])) == 2 and scaled:
        # scalar * (nIJ ^ nIJ)
        r = tensors_of(f, n["args"][1])
        return r if r is not None else tensors_of(f, n["args"][0])
    return None


def coupling_rule(rep, f):
    means = mean_of(f)
    nt = 0
    for s, n in sorted(f.stmts.items()):
        if not (n["k"] == "CXXOperatorCallExpr" and n.get("op") in ("*", "/") and len(n.get("args", [])) == 2):
            continue
        key = None
        if n["op"] == "/":
            # (nIJ ^ nIJ) / (vp[a] - vp[b])
            ts = tensors_of(f, n["args"][0], scaled=True)
            if not ts:
                continue
            key = divisor_key(f, n["args"][1], means)
            q, qn, dtext = None, None, f.text(n["args"][1])
        else:
            ts = tensors_of(f, n["args"][1])
            if not ts:
                continue
            q = f.strip(n["args"][0])
            qn = f.stmts.get(q)
            dtext = None
            if qn is not None and qn["k"] == "BinaryOperator" and qn.get("op") == "/":
                key = divisor_key(f, f.kids(q)[1], means)
                dtext = f.text(f.kids(q)[1])
            elif qn is not None and qn["k"] == "CallExpr" and (qn.get("callee") or "").endswith("regularized_inverse") and qn.get("args"):
                key = divisor_key(f, qn["args"][0], means)
                dtext = f.text(qn["args"][0])
        if key is None:
            continue
        nt += 1
        if key[0] == "pair":
            want = {key[1]}
        else:
            want = {frozenset((key[1], a)) for a in key[2]}
        if ts == want:
            rep.ok("%s: %s couples %s" % (name_of(f), dtext,
                                          " and ".join("n%s%s" % tuple(sorted(t)) for t in sorted(ts, key=sorted))), sample=False)
        else:
            rep.fail("COUPLING@%s#%s" % (re.sub(r"<.*", "", name_of(f)), rel(f.short_loc(s)).rsplit(":", 1)[-1]),
                     "%s: in %s the quotient by %s multiplies %s; the mixed tensor n_ij couples the eigenvalues i and j only, so it must multiply %s"
                     % (rel(f.short_loc(s)), name_of(f), dtext,
                        " + ".join("n%s%s" % tuple(sorted(t)) for t in sorted(ts, key=sorted)),
                        " + ".join("n%s%s" % tuple(sorted(t)) for t in sorted(want, key=sorted))))
    rep.count("coupling terms q * (nIJ ^ nIJ)", nt)


def sibling_rule(rep, f):
    """if (abs(vp(k)) < eps) {...} else if (vp(k) > 0) { dpp (+)= A; pp (+)= B; } else { dnp (+)= A'; np (+)= B'; } : A == A', B == B'."""
    npair = 0
    for s, n in sorted(f.stmts.items()):
        if n["k"] != "IfStmt":
            continue
        ks = f.kids(s)
        cond = unparen(f.text(n.get("cond"))) if n.get("cond") else ""
        m = re.match(r"^(vp\(\d\)|vpm) > ", cond)
        if not m or len(ks) < 3:
            continue
        then_, else_ = n.get("then"), n.get("else")
        if then_ is None or else_ is None:
            continue

        def assigns(blk):
            res = {}
            for x in f.walk(blk):
                nx = f.stmts[x]
                if nx["k"] == "CXXOperatorCallExpr" and nx.get("op") in ("=", "+=") and len(nx.get("args", [])) == 2:
                    tgt = f.text(f.strip(nx["args"][0]))
                    if tgt in ("dpp", "dnp", "pp", "np"):
                        res[tgt] = (nx["op"], re.sub(r"\s+", " ", f.text(nx["args"][1])), x)
            return res
        a, b = assigns(then_), assigns(else_)
        if "dnp" not in a and "dnp" not in b:
            continue        # positive-part-only variant
        for pos, neg in (("dpp", "dnp"), ("pp", "np")):
            if pos in a and neg in b:
                npair += 1
                if a[pos][:2] == b[neg][:2]:
                    rep.ok("%s: the %s arm of '%s' and its %s arm agree" % (name_of(f), pos, cond, neg), sample=False)
                else:
                    rep.fail("SIBLING@%s#%s@%s" % (re.sub(r"<.*", "", name_of(f)), neg, rel(f.short_loc(b[neg][2])).rsplit(":", 1)[-1]),
                             "%s: in %s, under '%s' the positive arm sets %s %s %s but the negative arm sets %s %s %s: both are the same "
                             "function of the eigen-decomposition" % (rel(f.short_loc(b[neg][2])), name_of(f), cond, pos, a[pos][0], a[pos][1],
                                                                      neg, b[neg][0], b[neg][1]))
    rep.count("positive/negative arm pairs compared", npair)


def clauses(rep, sub="C05"):
    import cfg
    cfg.TEXT_DEPTH[0] = 60          # whole right-hand sides are compared by the sibling rule
    drv = os.path.join(VERIF, "drivers", "c05_iso.cxx")
    d = cfgdump([drv], os.path.join(OUT, rep.pid, "iso_dump"),
                funcs=r"^tfel::math::(internals::StensorComputeIsotropicFunctionDerivative<|internals::StensorComputeEigenTensorsDerivatives<|"
                      r"computeStensorPositivePartAndDerivative|computeStensorDecompositionInPositiveAndNegativeParts)",
                flags_for=lambda u: (header_flags(), VERIF))
    funcs = [f for f in load_functions(d) if f.parent is None and f.entry is not None]
    rep.count("instantiations analysed", len(funcs))
    for f in sorted(funcs, key=lambda g: g.display):
        guard_rule(rep, f)
        coupling_rule(rep, f)
        orientation_rule(rep, f)
        index_rule(rep, f)
        sibling_rule(rep, f)
    rep.floor("instantiations analysed", 12)
    rep.floor("divisions by an eigenvalue difference", 30)
    rep.floor("coupling terms q * (nIJ ^ nIJ)", 30)
    rep.floor("positive/negative arm pairs compared", 8)
    rep.floor("divided differences (X - Y) / (U - V)", 8)


def run(tier):
    rep = Report("C05", tier, "other", RULE)
    clauses(rep)
    rep.assumptions += ["structural clauses only: that the formulas are the directional derivative of the tensor function, the reconstruction "
                        "from eigenvalues/eigenvectors and the quality of the eps regularisation are not decided",
                        "eigenvalues are recognised by the name vp and mixed eigen-tensors by the names nIJ (the naming used throughout these kernels)"]
    return rep
