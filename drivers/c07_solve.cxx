// shims for the closed-form tiny linear solvers (C07a)
#include "TFEL/Math/tmatrix.hxx"
#include "TFEL/Math/tvector.hxx"
#include "TFEL/Math/TinyMatrixSolve.hxx"
using namespace tfel::math;
template <unsigned short N>
static int solve(const double* m, const double* b, const double* eps, double* x) {
  tmatrix<N, N, double> mm;
  tvector<N, double> bb;
  for (unsigned short i = 0; i != N; ++i) {
    bb(i) = b[i];
    for (unsigned short j = 0; j != N; ++j) mm(i, j) = m[N * i + j];
  }
  const bool ok = TinyMatrixSolve<N, double, false>::exe(mm, bb, eps[0]);
  for (unsigned short i = 0; i != N; ++i) x[i] = bb(i);
  return ok ? 1 : 0;
}
template <unsigned short N>
static int solve2(const double* m, const double* b, const double* eps, double* x) {
  tmatrix<N, N, double> mm;
  tmatrix<N, 2, double> bb;
  for (unsigned short i = 0; i != N; ++i) {
    for (unsigned short k = 0; k != 2; ++k) bb(i, k) = b[2 * i + k];
    for (unsigned short j = 0; j != N; ++j) mm(i, j) = m[N * i + j];
  }
  const bool ok = TinyMatrixSolve<N, double, false>::exe(mm, bb, eps[0]);
  for (unsigned short i = 0; i != N; ++i)
    for (unsigned short k = 0; k != 2; ++k) x[2 * i + k] = bb(i, k);
  return ok ? 1 : 0;
}
extern "C" int verif_solve_1(const double* m, const double* b, const double* e, double* x) { return solve<1>(m, b, e, x); }
extern "C" int verif_solve_2(const double* m, const double* b, const double* e, double* x) { return solve<2>(m, b, e, x); }
extern "C" int verif_solve_3(const double* m, const double* b, const double* e, double* x) { return solve<3>(m, b, e, x); }
extern "C" int verif_solvem_1(const double* m, const double* b, const double* e, double* x) { return solve2<1>(m, b, e, x); }
extern "C" int verif_solvem_2(const double* m, const double* b, const double* e, double* x) { return solve2<2>(m, b, e, x); }
extern "C" int verif_solvem_3(const double* m, const double* b, const double* e, double* x) { return solve2<3>(m, b, e, x); }
