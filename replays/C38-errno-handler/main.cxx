#include <cerrno>
#include <cstdio>
#include "MFront/GenericMaterialProperty/OutputStatus.h"
#include "MFront/GenericMaterialProperty/OutOfBoundsPolicy.h"
extern "C" double VerifMPAll(mfront_gmp_OutputStatus* const, const double* const, const int, const mfront_gmp_OutOfBoundsPolicy);
int main() {
  // VerifMPAll-parameters.txt holds 'a 1e-320' (a subnormal: the stream extraction sets errno to ERANGE and succeeds)
  const double a[4] = {300., 0.5, 0.5, 1.};  // T, p, f, g: all inside their bounds, E = 0.5 + log(21) + tiny
  int bad = 0;
  for (int i = 0; i != 2; ++i) {
    mfront_gmp_OutputStatus s;
    errno = 0;
    const auto y = VerifMPAll(&s, a, 4, GENERIC_MATERIALPROPERTY_STRICT_POLICY);
    std::printf("call %d: status %d c_error_number %d value %g errno after the call %d\n", i + 1, s.status, s.c_error_number, y, errno);
    bad += s.status != 0;
  }
  return bad;
}
