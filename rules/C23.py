"""C23 — finite-strain tangent-operator conversions: generator/library table
agreement (type-level), flag tables, round trips of mutually inverse converters.

 (a) every (source, target) pair registered on the generator side
     (getAvailableFiniteStrainBehaviourTangentOperatorConversions, read from
     the AST) has a complete FiniteStrainBehaviourTangentOperatorConverter
     <target, source> whose exe(Kr, Ks, F0, F1, s) is well-formed for
     N = 1, 2, 3 with the storage types tangent_operator<.,N,double> -
     otherwise mfront emits code that cannot compile (witness TU, parsed only);
 (b) flag tables (switch tables read from the AST): every enumerator listed by
     getFiniteStrainBehaviourTangentOperatorFlags has a string name equal to
     its identifier (the generator pastes that string into 'convert<NAME,...>')
     and a storage-type name that is the actual storage type
     tangent_operator<flag, N, double> (is_same witnesses);
 (c) round trips (Engine B, exact rational normal forms): for the pairs of
     converters that are mutually inverse (or left-inverse) the composition is
     the identity on the operator for symbolic K, F0, F1, sigma:
     DSIG_DF<->DSIG_DDF, DTAU_DF<->DTAU_DDF, SPATIAL_MODULI<->C_TRUESDELL,
     ABAQUS<->C_TAU_JAUMANN, DS_DC<->DS_DEGL, SPATIAL_MODULI<->ABAQUS,
     SPATIAL_MODULI->DTAU_DF->SPATIAL_MODULI, DSIG_DF->DPK1_DF->DSIG_DF
     (N = 1, 2 quick; N = 3 and SPATIAL_MODULI<->DS_DEGL thorough).
 The stress-measure conversions (Cauchy/PK1/PK2/Kirchhoff round trips) are
 decided by the C02 check.
"""
import os, re, subprocess
from common import *
from cfg import *

RULE = ("generator table vs library converters (type-level witnesses for N=1,2,3); flag name/storage tables; exact round-trip "
        "identities of mutually inverse converters")
TOB = "tfel::material::FiniteStrainBehaviourTangentOperatorBase"
SS = {1: 3, 2: 4, 3: 6}
TS = {1: 3, 2: 5, 3: 9}
INVERSE = [("DSIG_DF", "DSIG_DDF"), ("DSIG_DDF", "DSIG_DF"), ("DTAU_DF", "DTAU_DDF"), ("DTAU_DDF", "DTAU_DF"),
           ("SPATIAL_MODULI", "C_TRUESDELL"), ("C_TRUESDELL", "SPATIAL_MODULI"), ("ABAQUS", "C_TAU_JAUMANN"),
           ("C_TAU_JAUMANN", "ABAQUS"), ("DS_DC", "DS_DEGL"), ("DS_DEGL", "DS_DC"), ("SPATIAL_MODULI", "ABAQUS"),
           ("ABAQUS", "SPATIAL_MODULI"), ("SPATIAL_MODULI", "DTAU_DF"), ("DSIG_DF", "DPK1_DF")]
SLOW3D = [("SPATIAL_MODULI", "DS_DEGL"), ("DS_DEGL", "SPATIAL_MODULI")]


def switch_table(f):
    """label -> returned string literal for a function made of one switch whose cases return literals."""
    res = {}
    sw = [s for s, n in f.stmts.items() if n["k"] == "SwitchStmt"]
    if len(sw) != 1:
        raise AnalysisBroken("%s: %d switch statements" % (f.qname, len(sw)))

    def labels_and_body(s):
        labs = []
        while f.stmts[s]["k"] == "CaseStmt":
            n = f.stmts[s]
            lab = [f.stmts[x]["name"] for x in f.walk(n["lhs"]) if f.stmts[x]["k"] == "DeclRefExpr" and f.stmts[x].get("declKind") == "EnumConstant"]
            if not lab:
                raise AnalysisBroken("%s: case label is not an enumerator" % f.qname)
            labs.append(lab[0])
            s = f.kids(s)[-1]
        return labs, s
    body = f.kids(sw[0])[-1]
    for c in f.kids(body):
        if f.stmts[c]["k"] == "CaseStmt":
            labs, st = labels_and_body(c)
            if f.stmts[st]["k"] != "ReturnStmt":
                raise AnalysisBroken("%s: case %s does not return directly" % (f.qname, labs))
            lit = [f.stmts[x]["value"] for x in f.walk(st) if f.stmts[x]["k"] == "StringLiteral"]
            if len(lit) != 1:
                raise AnalysisBroken("%s: case %s does not return one literal" % (f.qname, labs))
            for l in labs:
                res[l] = lit[0]
    return res


def run(tier):
    rep = Report("C23", tier, "other", RULE)
    gen_u = os.path.join(REPO, "mfront/src/FiniteStrainBehaviourTangentOperatorConversion.cxx")
    lib_u = os.path.join(REPO, "src/Material/FiniteStrainBehaviourTangentOperator.cxx")
    d = cfgdump([gen_u, lib_u], os.path.join(OUT, "C23", "dump"),
                funcs=r"(getAvailableFiniteStrainBehaviourTangentOperatorConversions|getFiniteStrainBehaviourTangentOperatorFlag|convertFiniteStrainBehaviourTangentOperatorFlagToString)")
    funcs = load_functions(d)
    g = [f for f in funcs if f.qname.endswith("getAvailableFiniteStrainBehaviourTangentOperatorConversions") and f.parent is None]
    if not g:
        raise AnalysisBroken("generator table function vanished")
    g = g[0]
    pairs = []
    for s, n in sorted(g.stmts.items()):
        if n["k"] == "CXXOperatorCallExpr" and n.get("op") == "()" and len(n.get("args", [])) == 3:
            en = [f_ for f_ in ([g.stmts[x]["name"] for x in g.walk(a) if g.stmts[x]["k"] == "DeclRefExpr" and g.stmts[x].get("declKind") == "EnumConstant"]
                                for a in n["args"][1:])]
            if all(len(x) == 1 for x in en):
                pairs.append((en[0][0], en[1][0], g.short_loc(s)))
    rep.count("registered conversions", len(pairs))
    if len(set((a, b) for a, b, _l in pairs)) != len(pairs):
        rep.fail("TABLE@duplicate", "a conversion is registered twice on the generator side")
    fl = [f for f in funcs if f.qname.endswith("getFiniteStrainBehaviourTangentOperatorFlags")]
    ft = [f for f in funcs if f.qname.endswith("getFiniteStrainBehaviourTangentOperatorFlagType")]
    fs = [f for f in funcs if f.qname.endswith("convertFiniteStrainBehaviourTangentOperatorFlagToString")]
    if not (fl and ft and fs):
        raise AnalysisBroken("flag table functions vanished")
    flags = [n["name"] for s, n in sorted(fl[0].stmts.items()) if n["k"] == "DeclRefExpr" and n.get("declKind") == "EnumConstant"]
    types = switch_table(ft[0])
    strs = switch_table(fs[0])
    rep.count("flags", len(flags))
    for e in flags:
        if strs.get(e) == e:
            rep.ok("flag %s is printed as '%s'" % (e, e), sample=(e == "DS_DEGL"))
        else:
            rep.fail("FLAG-NAME@%s" % e, "convertFiniteStrainBehaviourTangentOperatorFlagToString(%s) is %r: the generator pastes this string "
                     "into convert<...> so it must be the enumerator's identifier" % (e, strs.get(e)))
    used = set(a for a, b, l in pairs) | set(b for a, b, l in pairs)
    for e in sorted(used):
        if e not in flags:
            rep.fail("FLAG-LIST@%s" % e, "flag %s is used by a registered conversion but is not listed by getFiniteStrainBehaviourTangentOperatorFlags" % e)
    # ---- witness TU
    L = ['#include <type_traits>', '#include "TFEL/Math/tensor.hxx"', '#include "TFEL/Math/stensor.hxx"', '#include "TFEL/Math/st2tost2.hxx"',
         '#include "TFEL/Math/t2tost2.hxx"', '#include "TFEL/Math/t2tot2.hxx"',
         '#include "TFEL/Material/FiniteStrainBehaviourTangentOperator.hxx"', "using namespace tfel::material;",
         "using TO = FiniteStrainBehaviourTangentOperatorBase;",
         "template <class T> constexpr bool complete = requires { sizeof(T); };",
         "template <TO::Flag F, unsigned short N, class T> constexpr bool storage_is = requires { requires std::is_same_v<tangent_operator<F, N, double>, T>; };",
         "template <TO::Flag R, TO::Flag S, unsigned short N> constexpr bool usable = requires(tangent_operator<R, N, double>& Kr, "
         "const tangent_operator<S, N, double>& Ks, const tfel::math::tensor<N, double>& F, const tfel::math::stensor<N, double>& s) "
         "{ FiniteStrainBehaviourTangentOperatorConverter<R, S>::exe(Kr, Ks, F, F, s); };"]
    obl = []

    def add(expr, what, key):
        obl.append((expr, what, key))
        L.append('static_assert(%s, "W%d");' % (expr, len(obl) - 1))
    for a, b, loc in pairs:
        add("complete<FiniteStrainBehaviourTangentOperatorConverter<TO::%s, TO::%s>>" % (b, a),
            "converter %s -> %s (registered at %s) is defined" % (a, b, loc.replace(REPO + "/", "")), "CONVERTER@%s->%s" % (a, b))
        for N in (1, 2, 3):
            add("usable<TO::%s, TO::%s, %du>" % (b, a, N), "converter %s -> %s is usable for N=%d" % (a, b, N), "CONVERTER@%s->%s#N%d" % (a, b, N))
    rep.extra["flags_without_storage_check"] = sorted(set(flags) - used)
    for e in flags:
        if e not in used:
            continue        # a flag no registered conversion touches (DSIG_DDE, DS_DDF): nothing emitted depends on its storage
        t = types.get(e)
        if t is None:
            rep.fail("FLAG-TYPE@%s" % e, "getFiniteStrainBehaviourTangentOperatorFlagType has no case for %s" % e)
            continue
        for N in (1, 2, 3):
            add("storage_is<TO::%s, %du, tfel::math::%s<%du, double>>" % (e, N, t, N),
                "storage of %s (N=%d) is %s" % (e, N, t), "FLAG-TYPE@%s#N%d" % (e, N))
    L.append('static_assert(complete<FiniteStrainBehaviourTangentOperatorConverter<TO::DSIG_DDE, TO::DT_DELOG>>, "CONTROL");')
    wd = os.path.join(OUT, "C23")
    os.makedirs(wd, exist_ok=True)
    wp = os.path.join(wd, "witness.cxx")
    open(wp, "w").write("\n".join(L) + "\n")
    p = subprocess.run(["clang++", "-fsyntax-only", "-ferror-limit=0"] + header_flags() + [wp], capture_output=True, text=True)
    if '"CONTROL"' not in p.stderr:
        raise AnalysisBroken("witness TU: the deliberately false assertion was not reported: %s" % p.stderr[-500:])
    other = [l for l in p.stderr.splitlines() if " error: " in l and "static_assert failed" not in l]
    if other:
        raise AnalysisBroken("witness TU does not parse: %s" % other[0][:300])
    failed = set(int(m) for m in re.findall(r'static_assert failed[^\n]*"W(\d+)"', p.stderr))
    for i, (expr, what, key) in enumerate(obl):
        rep.count("type-level witnesses")
        if i in failed:
            rep.fail(key, "%s: does not hold [%s]: the generator registers it, so code emitted by mfront for this request cannot compile" % (what, expr)
                     if key.startswith("CONVERTER") else "%s: does not hold [%s]" % (what, expr))
        else:
            rep.ok(what, sample=(i % 40 == 0))
    # conversion graph (evidence only)
    reach = {}
    for src in sorted(used):
        seen, st = {src}, [src]
        while st:
            x = st.pop()
            for a, b, _l in pairs:
                if a == x and b not in seen:
                    seen.add(b)
                    st.append(b)
        reach[src] = sorted(seen - {src})
    rep.extra["reachable_from"] = reach
    rep.extra["flags_without_conversion"] = sorted(set(flags) - used)
    roundtrips(rep, tier, set((a, b) for a, b, _l in pairs))
    triangles(rep, tier, [(a, b) for a, b, _l in pairs], types)
    rep.floor("registered conversions", 30)
    rep.floor("type-level witnesses", 150)
    rep.assumptions += ["that each converter is the derivative of the target stress with respect to the target strain measure for an arbitrary "
                        "response is not decided (only mutual inverses, exact arithmetic)", "value type double"]
    return rep


def roundtrips(rep, tier, registered):
    from absint import lower_driver, Unsupported
    from tensoralg import run_shim, syms, first_diff
    import poly as P
    P.reset_registry()
    mod = lower_driver(os.path.join(VERIF, "drivers", "c23_convert.cxx"), os.path.join(OUT, "C23"), "c23", opt="-O2")
    KS = {"DSIG_DF": "ST", "DSIG_DDF": "ST", "DTAU_DF": "ST", "DTAU_DDF": "ST", "SPATIAL_MODULI": "SS", "C_TRUESDELL": "SS",
          "ABAQUS": "SS", "C_TAU_JAUMANN": "SS", "DS_DC": "SS", "DS_DEGL": "SS", "DPK1_DF": "TT"}
    todo = [(a, b, N) for (a, b) in INVERSE for N in ((1, 2, 3) if tier == "thorough" else (1, 2))]
    todo += [(a, b, N) for (a, b) in SLOW3D for N in ((1, 2, 3) if tier == "thorough" else (1, 2))]
    for a, b, N in todo:
        if (a, b) not in registered or (b, a) not in registered:
            rep.fail("ROUNDTRIP@%s<->%s#unregistered" % (a, b), "the pair %s <-> %s is no longer registered both ways on the generator side" % (a, b))
            continue
        n = {"ST": SS[N] * TS[N], "SS": SS[N] * SS[N], "TT": TS[N] * TS[N]}[KS[a]]
        K, F0, F1, s = syms("k", n), syms("f", TS[N]), syms("g", TS[N]), syms("s", SS[N])
        name = "verif_rt_%s_%s_%d" % (a, b, N)
        if name not in mod["functions"]:
            raise AnalysisBroken("shim %s missing" % name)
        try:
            r = run_shim(mod, name, [K + F0 + F1 + s], [n])
        except Unsupported as e:
            raise AnalysisBroken("%s: %s" % (name, e))
        rep.count("round trips")
        if len(r) != 1:
            raise AnalysisBroken("%s: %d paths" % (name, len(r)))
        d = first_diff(r[0][1][0], K)
        if d is None:
            rep.ok("convert<%s,%s> o convert<%s,%s> = identity (N=%d, symbolic K, F0, F1, sigma)" % (a, b, b, a, N), sample=(N == 2 and a < b))
        else:
            rep.fail("ROUNDTRIP@%s->%s->%s" % (a, b, a), "N=%d: converting %s to %s and back changes component %d of the operator: %r instead of %r"
                     % (N, a, b, d[0], d[1], d[2]))
    rep.floor("round trips", 28)


# triangles whose two sides differ on an arbitrary (unconstrained) symbolic operator although both sides are right on
# every operator that is the derivative of an objective response; each entry: (A, C, B) -> reason (confirmed by reading)
TRIANGLE_EXCEPTIONS = {
    ("DTAU_DF", "ABAQUS", "DSIG_DF"): ("SPATIAL_MODULI", "ABAQUS moduli (6x6) keep only the response of dtau/dF (6x9) to spin-free perturbations and "
                                       "ABAQUS -> DSIG_DF rebuilds the spin part from objectivity; on a 6x9 operator that is not objective the two "
                                       "sides differ, so the triangle is decided on operators obtained from arbitrary spatial moduli"),
}


def triangles(rep, tier, pairs, types):
    """(d) conversions compose: for every registered A->B and every C with A->C and C->B registered, the direct converter
    and the composition through C give the same operator (exact rational normal forms, symbolic K, F0, F1, sigma)."""
    from absint import lower_driver, Unsupported
    from tensoralg import run_shim, syms, first_diff
    import poly as P
    reg = set(pairs)
    tri = sorted((a, c, b) for (a, b) in reg for c in set(x for _a, x in reg if _a == a) if c != b and c != a and (c, b) in reg)
    Ns = (1, 2, 3) if tier == "thorough" else (1, 2)
    L = ['// generated by rules/C23.py from the generator-side conversion table', '#include <algorithm>', '#include "TFEL/Math/tensor.hxx"',
         '#include "TFEL/Math/stensor.hxx"', '#include "TFEL/Math/st2tost2.hxx"', '#include "TFEL/Math/t2tost2.hxx"', '#include "TFEL/Math/t2tot2.hxx"',
         '#include "TFEL/Material/FiniteStrainBehaviourTangentOperator.hxx"', 'using namespace tfel::material;',
         'using TO = FiniteStrainBehaviourTangentOperatorBase;',
         'template <TO::Flag A, TO::Flag C, TO::Flag B, unsigned short N>',
         'static void triangle(const double* in, double* out) {',
         '  tangent_operator<A, N, double> K;', '  const auto nk = K.size();', '  std::copy(in, in + nk, K.begin());',
         '  tfel::math::tensor<N, double> F0, F1;', '  tfel::math::stensor<N, double> s;', '  const auto nt = F0.size();',
         '  std::copy(in + nk, in + nk + nt, F0.begin());', '  std::copy(in + nk + nt, in + nk + 2 * nt, F1.begin());',
         '  std::copy(in + nk + 2 * nt, in + nk + 2 * nt + s.size(), s.begin());',
         '  const auto Kd = convert<B, A, N, double>(K, F0, F1, s);',
         '  const auto Kc = convert<C, A, N, double>(K, F0, F1, s);',
         '  const auto Kb = convert<B, C, N, double>(Kc, F0, F1, s);',
         '  std::copy(Kd.begin(), Kd.end(), out);', '  std::copy(Kb.begin(), Kb.end(), out + Kd.size());', '}']
    L += ['template <TO::Flag P, TO::Flag A, TO::Flag C, TO::Flag B, unsigned short N>',
          'static void triangle_from(const double* in, double* out) {',
          '  tangent_operator<P, N, double> Kp;', '  const auto nk = Kp.size();', '  std::copy(in, in + nk, Kp.begin());',
          '  tfel::math::tensor<N, double> F0, F1;', '  tfel::math::stensor<N, double> s;', '  const auto nt = F0.size();',
          '  std::copy(in + nk, in + nk + nt, F0.begin());', '  std::copy(in + nk + nt, in + nk + 2 * nt, F1.begin());',
          '  std::copy(in + nk + 2 * nt, in + nk + 2 * nt + s.size(), s.begin());',
          '  const auto K = convert<A, P, N, double>(Kp, F0, F1, s);',
          '  const auto Kd = convert<B, A, N, double>(K, F0, F1, s);',
          '  const auto Kc = convert<C, A, N, double>(K, F0, F1, s);',
          '  const auto Kb = convert<B, C, N, double>(Kc, F0, F1, s);',
          '  std::copy(Kd.begin(), Kd.end(), out);', '  std::copy(Kb.begin(), Kb.end(), out + Kd.size());', '}']
    for (a, c, b), (p_, _r) in sorted(TRIANGLE_EXCEPTIONS.items()):
        for N in Ns:
            L.append('extern "C" void verif_trif_%s_%s_%s_%d(const double* in, double* out) { triangle_from<TO::%s, TO::%s, TO::%s, TO::%s, %du>(in, out); }'
                     % (a, c, b, N, p_, a, c, b, N))
    for a, c, b in tri:
        for N in Ns:
            L.append('extern "C" void verif_tri_%s_%s_%s_%d(const double* in, double* out) { triangle<TO::%s, TO::%s, TO::%s, %du>(in, out); }'
                     % (a, c, b, N, a, c, b, N))
    wd = os.path.join(OUT, "C23")
    drv = os.path.join(wd, "c23_tri.cxx")
    open(drv, "w").write("\n".join(L) + "\n")
    P.reset_registry()
    mod = lower_driver(drv, wd, "c23tri", opt="-O2")

    def size(flag, N):
        t = types[flag]
        return {"t2tost2": SS[N] * TS[N], "st2tost2": SS[N] * SS[N], "t2tot2": TS[N] * TS[N]}[t]
    undecided = []
    skipped3d = []
    for a, c, b in tri:
        for N in Ns:
            if N == 3 and (types[a] != "st2tost2" or types[b] != "st2tost2" or types[c] != "st2tost2"):
                # 3D triangles through a 6x9 or 9x9 storage: the normal forms of 54 to 81 rational functions of 60 symbols take tens of
                # minutes and gigabytes; they are decided for N = 1, 2 only (same generic code for every N)
                skipped3d.append("verif_tri_%s_%s_%s_3" % (a, c, b))
                continue
            na, nb = size(a, N), size(b, N)
            K, F0, F1, s = syms("k", na), syms("f", TS[N]), syms("g", TS[N]), syms("s", SS[N])
            name = "verif_tri_%s_%s_%s_%d" % (a, c, b, N)
            if "DT_DELOG" in (a, c, b):
                # the logarithmic-strain converters go through an eigen-decomposition (data-dependent branches, not rational)
                undecided.append(name)
                continue
            try:
                r = run_shim(mod, name, [K + F0 + F1 + s], [2 * nb])
            except Unsupported as e:
                raise AnalysisBroken("%s: %s" % (name, e))
            if len(r) != 1:
                raise AnalysisBroken("%s: %d paths" % (name, len(r)))
            out = r[0][1][0]
            rep.count("composition triangles")
            d = first_diff(out[nb:], out[:nb])
            key = "COMPOSE@%s->%s->%s" % (a, c, b)
            if d is None:
                rep.ok("convert<%s,%s> = convert<%s,%s> o convert<%s,%s> (N=%d, symbolic K, F0, F1, sigma)" % (b, a, b, c, c, a, N),
                       sample=(N == 2 and (a, c, b) == tri[0]))
            elif (a, c, b) in TRIANGLE_EXCEPTIONS:
                p_, why = TRIANGLE_EXCEPTIONS[(a, c, b)]
                if (p_, a) not in reg:
                    raise AnalysisBroken("exception %s->%s->%s: %s -> %s is not registered" % (a, c, b, p_, a))
                Kp = syms("k", size(p_, N))
                r2 = run_shim(mod, "verif_trif_%s_%s_%s_%d" % (a, c, b, N), [Kp + F0 + F1 + s], [2 * nb])
                if len(r2) != 1:
                    raise AnalysisBroken("verif_trif_%s_%s_%s_%d: %d paths" % (a, c, b, N, len(r2)))
                o2 = r2[0][1][0]
                d2 = first_diff(o2[nb:], o2[:nb])
                rep.count("composition triangles decided on objective operators (listed)")
                if d2 is None:
                    rep.ok("convert<%s,%s> = convert<%s,%s> o convert<%s,%s> on every %s operator obtained from arbitrary %s (N=%d)"
                           % (b, a, b, c, c, a, a, p_, N))
                else:
                    rep.fail(key + "#N%d" % N, "N=%d: converting %s (built from arbitrary %s) to %s directly and through %s disagree in component %d: "
                             "%r through %s, %r directly" % (N, a, p_, b, c, d2[0], d2[1], c, d2[2]))
            else:
                rep.fail(key + "#N%d" % N, "N=%d: converting %s to %s directly and through %s disagree in component %d: %r through %s, %r directly"
                         % (N, a, b, c, d[0], d[1], c, d[2]))
    rep.extra["triangles"] = ["%s->%s->%s" % t for t in tri]
    rep.extra["triangles_not_decided (eigen-decomposition: DT_DELOG)"] = undecided
    rep.extra["triangles decided for N = 1, 2 only (storage larger than 6x6)"] = skipped3d
    rep.floor("composition triangles", 20)
