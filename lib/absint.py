"""Engine B: abstract interpreter of the JSON SSA form produced by ir2json.

Integers and pointers are concrete (pointers are offsets into named
allocations); floating values live in a pluggable domain (Order, Poly, ...).
Anything outside the supported fragment raises Unsupported -> the check exits
2 (analysis broken), never a pass.  No floating value of the code under
analysis is ever computed: floats are tokens or exact algebraic objects.
"""
import json, os, subprocess, struct
from fractions import Fraction
from common import AnalysisBroken, BIN, REPO, BUILD, header_flags


class Unsupported(Exception):
    pass


class Fork(Exception):
    """an undecided branch beyond the current decision prefix."""

    def __init__(self, info):
        self.info = info


UNDEF = ("undef",)


def ptr(base, off=0):
    return ("p", base, off)


def is_ptr(v):
    return isinstance(v, tuple) and v and v[0] == "p"


class FConst:
    """floating constant known exactly by its bits (kept symbolic for domains)."""
    __slots__ = ("bits", "w", "repr")

    def __init__(self, bits, w, rep):
        self.bits, self.w, self.repr = bits, w, rep

    def as_float(self):
        if self.w == 64:
            return struct.unpack(">d", int(self.bits, 16).to_bytes(8, "big"))[0]
        if self.w == 32:
            return struct.unpack(">f", int(self.bits, 16).to_bytes(4, "big"))[0]
        raise Unsupported("float width %d" % self.w)

    def __repr__(self):
        return "FConst(%s)" % self.repr


class Domain:
    """interface of a floating domain."""
    name = "abstract"

    def const(self, fc):
        raise Unsupported("float constant in domain " + self.name)

    def from_int(self, i):
        raise Unsupported("int->float in domain " + self.name)

    def arith(self, op, a, b):
        raise Unsupported("%s in domain %s" % (op, self.name))

    def neg(self, a):
        raise Unsupported("fneg in domain " + self.name)

    def fcmp(self, pred, a, b, m):
        raise Unsupported("fcmp in domain " + self.name)

    def call(self, name, args, m):
        raise Unsupported("call %s in domain %s" % (name, self.name))

    def select_undecided(self, m):
        raise Unsupported("select on undecided condition")


class Machine:
    def __init__(self, mod, domain, max_steps=2000000):
        self.mod = mod
        self.funcs = mod["functions"]
        self.globals = mod["globals"]
        self.dom = domain
        self.max_steps = max_steps
        self.value_hook = None      # cut points: replace a recognised intermediate value by a fresh symbol
        self.reset([])

    def reset(self, decisions):
        self.mem = {}
        self.nalloc = 0
        self.steps = 0
        self.decisions = list(decisions)
        self.dpos = 0
        self.path = []          # recorded branch atoms
        self.trace = []         # external calls in order
        self.assumptions = set()
        self._ginit = set()
        self.atom_dec = {}
        self.sign_facts = {}

    # ------------------------------------------------------------ memory
    def alloc(self, name, size=0):
        self.nalloc += 1
        b = "%s#%d" % (name, self.nalloc)
        self.mem[b] = {}
        return b

    def _global(self, name):
        b = "g:" + name
        if b not in self._ginit:
            self._ginit.add(b)
            self.mem[b] = {}
            g = self.globals.get(name)
            if g is None or "init" not in g:
                raise Unsupported("global %s has no initialiser" % name)
            self._flatten(b, 0, g["init"])
        return b

    def _flatten(self, base, off, c):
        k = c["k"]
        if k == "agg":
            if "offsets" in c:
                for o, e in zip(c["offsets"], c["elems"]):
                    self._flatten(base, off + o, e)
            else:
                es = c["esize"]
                for i, e in enumerate(c["elems"]):
                    self._flatten(base, off + i * es, e)
        elif k == "zero":
            for o in range(0, c["size"], 8):
                self.mem[base][off + o] = ("zero8", 8)
        else:
            v = self.constant(c)
            size = 8
            if k == "f":
                size = c["w"] // 8
            elif k == "i":
                size = max(1, c["w"] // 8)
            self.mem[base][off] = (v, size)

    def load(self, p, size, want_float):
        if not is_ptr(p):
            raise Unsupported("load through non-pointer %r" % (p,))
        cells = self.mem.get(p[1])
        if cells is None:
            raise Unsupported("load from unknown allocation " + str(p[1]))
        c = cells.get(p[2])
        if c is None:
            # reading never-written memory
            return UNDEF
        v, s = c
        if isinstance(v, str) and v == "zero8":
            return self.dom.zero() if want_float else 0
        if v == "zero8":
            return self.dom.zero() if want_float else 0
        if s != size:
            if v == 0 or v == "zero8":
                return self.dom.zero() if want_float else 0
            raise Unsupported("load of %d bytes over a %d-byte store at %s" % (size, s, p))
        return v

    def store(self, p, v, size):
        if not is_ptr(p):
            raise Unsupported("store through non-pointer")
        cells = self.mem.setdefault(p[1], {})
        # drop overlapping cells
        for o in list(cells):
            if o != p[2] and o < p[2] + size and p[2] < o + cells[o][1]:
                del cells[o]
        cells[p[2]] = (v, size)

    def memcpy(self, dst, src, n):
        if not (is_ptr(dst) and is_ptr(src)):
            raise Unsupported("memcpy with non-pointer")
        s = self.mem.get(src[1], {})
        moved = [(o - src[2], c) for o, c in s.items() if src[2] <= o < src[2] + n]
        d = self.mem.setdefault(dst[1], {})
        for o in list(d):
            if dst[2] <= o < dst[2] + n:
                del d[o]
        for o, c in moved:
            d[dst[2] + o] = c

    def memset(self, dst, val, n):
        if val != 0:
            raise Unsupported("memset with non-zero value")
        d = self.mem.setdefault(dst[1], {})
        for o in list(d):
            if dst[2] <= o < dst[2] + n:
                del d[o]
        for o in range(0, n, 8):
            d[dst[2] + o] = ("zero8", min(8, n - o))

    # ----------------------------------------------------------- operands
    def constant(self, c):
        k = c["k"]
        if k == "f":
            return self.dom.const(FConst(c["bits"], c["w"], c["repr"]))
        if k == "i":
            if "v" in c:
                return int(c["u"]) if c["w"] > 1 else (1 if c["v"] else 0)
            return int(c["hex"], 16)
        if k == "null":
            return ptr("null", 0)
        if k == "undef":
            return UNDEF
        if k == "g":
            return ptr(self._global(c["name"]), c.get("off", 0))
        if k == "fn":
            return ("fn", c["name"])
        if k == "zero":
            return ("zeroagg", c["size"])
        if k == "agg":
            return [self.constant(e) for e in c["elems"]]
        raise Unsupported("constant kind " + k)

    def val(self, env, o):
        if "v" in o:
            if o["v"] not in env:
                raise Unsupported("use of undefined SSA value " + o["v"])
            return env[o["v"]]
        if "c" in o:
            return self.constant(o["c"])
        if "md" in o:
            return None
        raise Unsupported("operand %r" % (o,))

    # ------------------------------------------------------------- branch
    def decide(self, info):
        """an undecidable boolean: take the next recorded decision or fork.
        Composite conditions (not/and/or/xor of atoms) are decided atom by
        atom; the same atom is decided once per path."""
        if isinstance(info, tuple) and info and info[0] == "not":
            return not self.decide(info[1])
        if isinstance(info, tuple) and info and info[0] in ("and", "or", "xor"):
            a = self.decide(info[1])
            if info[0] == "and" and not a:
                return False
            if info[0] == "or" and a:
                return True
            b = self.decide(info[2])
            return {"and": a and b, "or": a or b, "xor": a != b}[info[0]]
        k = repr(info)
        if k in self.atom_dec:
            return self.atom_dec[k]
        # order consistency: comparisons of the same two expressions decided earlier on this path restrict the possible
        # signs of their difference; a later comparison whose outcome follows is not forked (exact arithmetic, no NaN)
        sk = self._sign_key(info)
        if sk is not None:
            key, flip, base = sk
            poss = self.sign_facts.get(key, frozenset((-1, 0, 1)))
            sat = {"eq": {0}, "ne": {-1, 1}, "gt": {1}, "ge": {0, 1}, "lt": {-1}, "le": {-1, 0}}[base]
            if flip:
                sat = set(-x for x in sat)
            yes, no = poss & sat, poss - sat
            if yes and not no:
                self.atom_dec[k] = True
                return True
            if no and not yes:
                self.atom_dec[k] = False
                return False
        d = self._decide_atom(info)
        self.atom_dec[k] = d
        if sk is not None:
            self.sign_facts[key] = frozenset(yes if d else no)
        return d

    def _sign_key(self, info):
        """(key of a-b up to sign, flipped?, base predicate) for a floating comparison of two rational forms."""
        if not (isinstance(info, tuple) and len(info) == 3 and isinstance(info[0], str)):
            return None
        pred, a, b = info
        base = pred[1:] if pred and pred[0] in "ou" and len(pred) == 3 else pred
        if base not in ("eq", "ne", "gt", "ge", "lt", "le"):
            return None
        try:
            d1, d2 = (a - b), (b - a)
            k1, k2 = repr(d1.key()), repr(d2.key())
        except Exception:
            return None
        return (k1, False, base) if k1 <= k2 else (k2, True, base)

    def _decide_atom(self, info):
        if self.dpos < len(self.decisions):
            d = self.decisions[self.dpos]
            self.dpos += 1
            self.path.append((info, d))
            return d
        raise Fork(info)

    # ---------------------------------------------------------------- run
    def call(self, fname, args):
        f = self.funcs.get(fname)
        if f is None:
            raise Unsupported("call of undefined function " + fname)
        env = {}
        for a, v in zip(f["args"], args):
            env[a["id"]] = v
        blocks = {b["id"]: b for b in f["blocks"]}
        cur = f["entry"]
        prev = None
        while True:
            b = blocks[cur]
            # phis first, evaluated simultaneously
            phivals = {}
            for ins in b["insts"]:
                if ins["op"] != "phi":
                    break
                for inc in ins["incoming"]:
                    if inc["from"] == prev:
                        phivals[ins["id"]] = self.val(env, inc["val"])
                        break
                else:
                    raise Unsupported("phi without matching predecessor")
            env.update(phivals)
            nxt = None
            for ins in b["insts"]:
                op = ins["op"]
                if op == "phi":
                    continue
                self.steps += 1
                if self.steps > self.max_steps:
                    raise Unsupported("step budget exceeded (loop on abstract data?)")
                r = self.step(env, ins, fname)
                if r is not None:
                    kind, x = r
                    if kind == "ret":
                        return x
                    if kind == "br":
                        nxt = x
                        break
            if nxt is None:
                raise Unsupported("block without terminator")
            prev, cur = cur, nxt

    def step(self, env, ins, fname):
        op = ins["op"]
        ops = ins.get("ops", [])
        V = lambda i: self.val(env, ops[i])
        if op == "ret":
            return ("ret", V(0) if ops else None)
        if op == "br":
            if "f" in ins:
                c = V(0)
                if c is UNDEF:
                    raise Unsupported("branch on undef")
                if isinstance(c, int):
                    return ("br", ins["t"] if c & 1 else ins["f"])
                if isinstance(c, tuple) and c[0] == "cond":
                    d = self.decide(c[1])
                    return ("br", ins["t"] if d else ins["f"])
                raise Unsupported("branch on %r" % (c,))
            return ("br", ins["t"])
        if op == "switch":
            c = V(0)
            if not isinstance(c, int):
                raise Unsupported("switch on abstract value")
            bits = 64
            for cs in ins["cases"]:
                cv = self.constant(cs["val"])
                if cv == c:
                    return ("br", cs["to"])
            return ("br", ins["default"])
        if op == "unreachable":
            raise Unsupported("reached 'unreachable' (a failing contract/throw path) in " + fname)
        if op == "alloca":
            env[ins["id"]] = ptr(self.alloc("alloca:" + ins["id"]))
            return None
        if op == "getelementptr":
            if ins.get("unsupported"):
                raise Unsupported("GEP")
            p = V(0)
            if not is_ptr(p):
                raise Unsupported("GEP on non-pointer %r" % (p,))
            off = ins["off"]
            for t in ins.get("terms", []):
                iv = self.val(env, t["v"])
                if not isinstance(iv, int):
                    raise Unsupported("GEP with abstract index")
                # indices are signed 64-bit
                if iv >= 1 << 63:
                    iv -= 1 << 64
                off += iv * t["scale"]
            env[ins["id"]] = ptr(p[1], p[2] + off)
            return None
        if op == "load":
            ty = ins["ty"]
            isf = ty in ("double", "float", "x86_fp80")
            v = self.load(V(0), ins["size"], isf)
            if ty == "ptr" or ty.endswith("*"):
                if v is UNDEF:
                    raise Unsupported("load of an uninitialised pointer")
            env[ins["id"]] = v
            return None
        if op == "store":
            self.store(V(1), V(0), ins["size"])
            return None
        if op in ("fadd", "fsub", "fmul", "fdiv", "frem"):
            r = self.dom.arith(op, self.fval(V(0)), self.fval(V(1)))
            if self.value_hook is not None:
                r = self.value_hook(fname, ins, r)
            env[ins["id"]] = r
            return None
        if op == "fneg":
            env[ins["id"]] = self.dom.neg(self.fval(V(0)))
            return None
        if op == "fcmp":
            env[ins["id"]] = self.dom.fcmp(ins["pred"], self.fval(V(0)), self.fval(V(1)), self)
            return None
        if op == "icmp":
            env[ins["id"]] = self.icmp(ins["pred"], V(0), V(1), ins)
            return None
        if op in ("add", "sub", "mul", "and", "or", "xor", "shl", "lshr", "ashr", "udiv", "sdiv", "urem", "srem"):
            env[ins["id"]] = self.intop(op, V(0), V(1), ins["bits"])
            return None
        if op == "select":
            c = V(0)
            if isinstance(c, int):
                env[ins["id"]] = V(1) if c & 1 else V(2)
            elif isinstance(c, tuple) and c[0] == "cond":
                a, b = V(1), V(2)
                if a is b or a == b:
                    env[ins["id"]] = a
                else:
                    d = self.decide(c[1])
                    env[ins["id"]] = a if d else b
            else:
                raise Unsupported("select on %r" % (c,))
            return None
        if op in ("bitcast", "addrspacecast"):
            env[ins["id"]] = V(0)
            return None
        if op in ("zext", "trunc", "sext"):
            v = V(0)
            if isinstance(v, tuple) and v and v[0] == "cond" and op == "zext":
                env[ins["id"]] = v
                return None
            if not isinstance(v, int):
                env[ins["id"]] = self.dom_intcast(op, v, ins)
                return None
            sb, db = ins["srcBits"], ins["dstBits"]
            if op == "sext" and v >> (sb - 1) & 1:
                v = v | (((1 << db) - 1) ^ ((1 << sb) - 1))
            env[ins["id"]] = v & ((1 << db) - 1)
            return None
        if op in ("sitofp", "uitofp"):
            v = V(0)
            if not isinstance(v, int):
                raise Unsupported("int->float of abstract int")
            if op == "sitofp" and v >> (ins["srcBits"] - 1) & 1:
                v -= 1 << ins["srcBits"]
            env[ins["id"]] = self.dom.from_int(v)
            return None
        if op in ("fpext", "fptrunc"):
            env[ins["id"]] = V(0)
            self.assumptions.add("fpext/fptrunc treated as exact")
            return None
        if op in ("ptrtoint", "inttoptr"):
            env[ins["id"]] = V(0)
            return None
        if op == "freeze":
            env[ins["id"]] = V(0)
            return None
        if op == "extractvalue":
            v = V(0)
            for i in ins["indices"]:
                if not isinstance(v, list):
                    raise Unsupported("extractvalue on %r" % (v,))
                v = v[i]
            env[ins["id"]] = v
            return None
        if op == "insertvalue":
            agg = V(0)
            agg = self._agg_copy(agg, ins["ty"])
            tgt = agg
            for i in ins["indices"][:-1]:
                tgt = tgt[i]
            tgt[ins["indices"][-1]] = V(1)
            env[ins["id"]] = agg
            return None
        if op in ("extractelement",):
            v, i = V(0), V(1)
            env[ins["id"]] = v[i]
            return None
        if op == "insertelement":
            v = list(V(0)) if isinstance(V(0), list) else [UNDEF] * 16
            v[V(2)] = V(1)
            env[ins["id"]] = v
            return None
        if op in ("call", "invoke"):
            r = self.do_call(env, ins, fname)
            if ins["ty"] != "void":
                env[ins["id"]] = r
            if op == "invoke":
                self.assumptions.add("invoke: the callee is assumed not to throw on the analysed path")
                return ("br", ins["normal"])
            return None
        if op == "fptosi" or op == "fptoui":
            raise Unsupported(op)
        raise Unsupported("instruction " + op)

    def _agg_copy(self, agg, ty):
        if isinstance(agg, list):
            return [self._agg_copy(x, "") if isinstance(x, list) else x for x in agg]
        n = ty.count(",") + 1
        return [UNDEF] * max(n, 8)

    def fval(self, v):
        if v is UNDEF:
            raise Unsupported("arithmetic on an undefined (uninitialised) value")
        if isinstance(v, tuple) and v and v[0] == "zero8":
            return self.dom.zero()
        if isinstance(v, int):
            # an integer produced by type punning (memcpy through i64)
            if v == 0:
                return self.dom.zero()
            raise Unsupported("integer %d used as float" % v)
        return v

    def dom_intcast(self, op, v, ins):
        raise Unsupported("%s of abstract value" % op)

    def icmp(self, pred, a, b, ins):
        if is_ptr(a) or is_ptr(b):
            if pred in ("eq", "ne"):
                eq = (a == b)
                return int(eq if pred == "eq" else not eq)
            if is_ptr(a) and is_ptr(b) and a[1] == b[1]:
                a, b = a[2], b[2]
            else:
                raise Unsupported("pointer comparison")
        if not (isinstance(a, int) and isinstance(b, int)):
            return self.dom_icmp(pred, a, b, ins)
        bits = 64
        for o in ins.get("ops", []):
            if "c" in o and o["c"].get("k") == "i":
                bits = o["c"]["w"]

        def sg(x):
            return x - (1 << bits) if x >> (bits - 1) & 1 else x
        if pred in ("slt", "sle", "sgt", "sge"):
            a, b = sg(a), sg(b)
        return int({"eq": a == b, "ne": a != b, "ult": a < b, "ule": a <= b, "ugt": a > b, "uge": a >= b,
                    "slt": a < b, "sle": a <= b, "sgt": a > b, "sge": a >= b}[pred])

    def dom_icmp(self, pred, a, b, ins):
        def isc(x):
            return isinstance(x, tuple) and x and x[0] == "cond"
        if isc(b) and isinstance(a, int):
            a, b = b, a
        if isc(a) and isinstance(b, int) and pred in ("eq", "ne"):
            # an opaque integer result tested against a constant: only "is it zero" is observable
            if b == 0:
                return a if pred == "ne" else ("cond", ("not", a[1]))
            if b == 1:
                return a if pred == "eq" else ("cond", ("not", a[1]))
        raise Unsupported("icmp on abstract values %r %r" % (a, b))

    def intop(self, op, a, b, bits):
        if is_ptr(a) and isinstance(b, int) and op in ("add", "sub"):
            return ptr(a[1], a[2] + (b if op == "add" else -b))
        if is_ptr(a) and is_ptr(b) and op == "sub" and a[1] == b[1]:
            return (a[2] - b[2]) & ((1 << bits) - 1)
        if not (isinstance(a, int) and isinstance(b, int)):
            return self.dom_intop(op, a, b, bits)
        m = (1 << bits) - 1

        def sg(x):
            return x - (1 << bits) if x >> (bits - 1) & 1 else x
        if op == "add":
            return (a + b) & m
        if op == "sub":
            return (a - b) & m
        if op == "mul":
            return (a * b) & m
        if op == "and":
            return a & b
        if op == "or":
            return a | b
        if op == "xor":
            return a ^ b
        if op == "shl":
            return (a << b) & m
        if op == "lshr":
            return (a & m) >> b
        if op == "ashr":
            return (sg(a) >> b) & m
        if op == "udiv":
            return a // b
        if op == "urem":
            return a % b
        if op == "sdiv":
            return int(sg(a) / sg(b)) & m
        if op == "srem":
            sa, sb = sg(a), sg(b)
            return (sa - sb * int(sa / sb)) & m
        raise Unsupported(op)

    def dom_intop(self, op, a, b, bits):
        def isc(x):
            return isinstance(x, tuple) and x and x[0] == "cond"
        if bits == 1 or isc(a) or isc(b):
            if op in ("and", "or", "xor") and (isc(a) or isc(b)):
                if isinstance(a, int):
                    a, b = b, a
                if isinstance(b, int):
                    b &= 1
                    if op == "xor":
                        return ("cond", ("not", a[1])) if b else a
                    if op == "and":
                        return a if b else 0
                    return 1 if b else a
                return ("cond", (op, a[1], b[1]))
        raise Unsupported("integer op %s on abstract values" % op)

    def do_call(self, env, ins, fname):
        self.cur_ty = ins.get("ty", "")
        cal = ins.get("callee", "")
        ops = ins.get("ops", [])
        args = [self.val(env, o) for o in ops]
        if cal.startswith("llvm.lifetime") or cal.startswith("llvm.dbg") or cal.startswith("llvm.assume") \
                or cal.startswith("llvm.experimental.noalias") or cal.startswith("llvm.invariant"):
            return None
        if cal.startswith("llvm.memcpy") or cal.startswith("llvm.memmove"):
            if not isinstance(args[2], int):
                raise Unsupported("memcpy of abstract length")
            self.memcpy(args[0], args[1], args[2])
            return None
        if cal.startswith("llvm.memset"):
            self.memset(args[0], args[1], args[2])
            return None
        if cal.startswith("llvm.fmuladd") or cal.startswith("llvm.fma."):
            return self.dom.arith("fadd", self.dom.arith("fmul", self.fval(args[0]), self.fval(args[1])), self.fval(args[2]))
        if cal.startswith("llvm.") or ins.get("external"):
            base = cal
            for pre in ("llvm.",):
                if base.startswith(pre):
                    base = base[len(pre):].split(".")[0]
            return self.dom.call(base, args, self)
        for key, fn in getattr(self, "summaries", {}).items():
            if key in cal:
                return fn(self, args)
        if cal in self.funcs:
            return self.call(cal, args)
        if cal == "":
            t = self.val(env, ins["calleeOp"])
            if isinstance(t, tuple) and t[0] == "fn" and t[1] in self.funcs:
                return self.call(t[1], args)
            raise Unsupported("indirect call")
        return self.dom.call(cal, args, self)


def explore(m, fname, make_args, max_paths=64):
    """run fname on all decision paths; make_args(machine) builds the argument
    list (fresh allocations) for each run.  Returns list of
    (path_atoms, return_value, machine_state_snapshot)."""
    results = []
    todo = [[]]
    while todo:
        dec = todo.pop()
        m.reset(dec)
        args = make_args(m)
        try:
            r = m.call(fname, args)
            if isinstance(r, tuple) and r and r[0] == "cond":
                r = int(m.decide(r[1]))
        except Fork:
            todo.append(dec + [True])
            todo.append(dec + [False])
            if len(todo) + len(results) > max_paths:
                raise Unsupported("more than %d paths in %s" % (max_paths, fname))
            continue
        results.append((list(m.path), r, {k: dict(v) for k, v in m.mem.items()}, list(m.trace), set(m.assumptions)))
    return results


# ------------------------------------------------------------------ build
def lower_driver(src, outdir, tag, opt="-O2", extra=(), fast=False):
    """compile a driver TU from the current tree to IR, then to JSON."""
    os.makedirs(outdir, exist_ok=True)
    ll = os.path.join(outdir, tag + ".ll")
    js = os.path.join(outdir, tag + ".json")
    cmd = ["clang++"] + header_flags() + [opt, "-fno-vectorize", "-fno-slp-vectorize", "-ffp-contract=off",
                                          "-fno-access-control", "-fno-unroll-loops", "-S", "-emit-llvm", "-DNDEBUG",
                                          "-DTFEL_NO_RUNTIME_CHECK_BOUNDS",
                                          src, "-o", ll] + list(extra)
    if fast:
        cmd[cmd.index(opt)] = "-Ofast"
    p = subprocess.run(cmd, capture_output=True, text=True)
    if p.returncode != 0:
        raise AnalysisBroken("driver %s does not compile against the current tree: %s" % (src, p.stderr[-3000:]))
    p = subprocess.run([os.path.join(BIN, "ir2json"), ll, js], capture_output=True, text=True)
    if p.returncode != 0:
        raise AnalysisBroken("ir2json failed: " + p.stderr[-2000:])
    with open(js) as f:
        return json.load(f)
