"""C36 — code generation is deterministic: no-nondeterminism-source rule over the
resolved program of the generator (libTFELMFront + mfront executable).

Over every compiled unit of mfront/src (resolved call expressions from
cfgdump --calls; functions defined under /repo/mfront, headers included):
 R1 no call of a clock / calendar / random / process-identity / temporary-name
    primitive (time, clock, gettimeofday, clock_gettime, localtime, gmtime,
    std::chrono::*::now, rand, random, srand, drand48, std::random_device,
    <random> engines, getpid, getppid, std::this_thread::get_id, tmpnam,
    tempnam, mkstemp, mkdtemp, tmpfile);
 R2 no iteration (range-for) over std::unordered_* containers and no
    begin()/cbegin() call on them;
 R3 no stream insertion of a pointer value (other than character pointers);
 R4 getenv only at the enumerated sites (function, variable), each with the
    reason why the output depends on it by documented design;
 R5 no __DATE__ / __TIME__ / __TIMESTAMP__ in the generator's sources;
 R6 file-status primitives (stat family, access, std::filesystem queries, directory
    listings) only in the enumerated functions, and the existence helper
    fileExistsAndIsReadable only from the input search-path code: nothing may
    decide what to generate from what previous runs left behind;
 R7 files are opened for reading only in the enumerated functions (inputs,
    installed documentation, and the two documented aggregates targets.lst /
    excel.lst).
String literals emitted *into* generated code (e.g. 'time(0)' in generated
Runge-Kutta code) are not calls of the generator and are not matched.
"""
import os, re
from common import *

RULE = ("who-may-call over resolved calls of all generator units: no clock/random/pid/temp-name primitive, no iteration over "
        "unordered containers, no pointer stream insertion, getenv only at enumerated (function, variable) sites, no __DATE__/__TIME__")
FORBIDDEN = re.compile(r"^(::)?(time|clock|gettimeofday|clock_gettime|localtime|localtime_r|gmtime|gmtime_r|ctime|asctime|strftime|rand|rand_r|"
                       r"random|srand|srandom|drand48|lrand48|getpid|getppid|gettid|tmpnam|tempnam|mkstemp|mkdtemp|mktemp|tmpfile|"
                       r"std::time|std::clock|std::rand|std::srand|std::tmpnam|std::tmpfile|std::localtime|std::gmtime|std::strftime)$")
FORBIDDEN_PREFIX = ("std::chrono::system_clock::now", "std::chrono::steady_clock::now", "std::chrono::high_resolution_clock::now",
                    "std::chrono::_V2::system_clock::now", "std::chrono::_V2::steady_clock::now",
                    "std::random_device::", "std::mersenne_twister_engine", "std::linear_congruential_engine", "std::this_thread::get_id",
                    "std::subtract_with_carry_engine")
# (function, variable literal or None when computed) -> reason
GETENV = {
    ("mfront::getCMakeCommand", "CMAKE"): "build-system driver: name of the cmake executable (not part of generated sources)",
    ("mfront::callCMake", "CMAKE_GENERATOR"): "build-system driver: cmake generator",
    ("mfront::writeBuildIdentifierSymbol", "TFEL_BUILD_ID"): "documented: build identifier exported as a symbol of the generated library",
    ("mfront::getInstallPath", "MFRONT_INSTALL_PREFIX"): "documented install prefix",
    ("mfront::MFrontBase::MFrontBase", "MFRONT_ADDITIONAL_LIBRARIES"): "documented: additional plug-in libraries",
    ("mfront::MFrontDatabase::analyseDirectoriesListedInEnvironmentVariable", None): "documented: database search paths named by the caller",
    ("mfront::MTestFileGeneratorBase::generate", "MTEST_FILE_GENERATOR_OUTPUT_DIRECTORY"): "run-time helper of generated code (output directory of mtest files)",
    ("mfront::getMakeCommand", "MAKE"): "build-system driver: name of the make executable",
    ("mfront::generateMakeFile", None): "build-system driver: compiler / flags variables (CXX, CXXFLAGS, ...) written to Makefile.mfront by design",
    ("mfront::generateMakeFile", "INCLUDES"): "build-system driver: extra include flags",
    ("mfront::OctaveMaterialPropertyInterface::getTargetsDescription", "MKOCTFILE"): "build-system driver: mkoctfile executable",
    ("mfront::SearchPathsHandler::SearchPathsHandler", "MFRONT_INCLUDE_PATH"): "documented: search paths for imported files",
    ("mfront::JavaMaterialPropertyInterface::getTargetsDescription", "JAVAC"): "build-system driver: java compiler",
    ("mfront::PythonMaterialPropertyInterface::getTargetsDescription", "PYTHON_INCLUDE_PATH"): "build-system driver",
    ("mfront::PythonMaterialPropertyInterface::getTargetsDescription", "PYTHON_LIBRARY_PATH"): "build-system driver",
    ("mfront::PythonMaterialPropertyInterface::getTargetsDescription", "PYTHON_LIBRARY"): "build-system driver",
    ("mfront::CastemInterface::getTargetsDescription", "CASTEM_ROOT"): "build-system driver: Cast3M installation",
    ("mfront::CastemModelInterface::getTargetsDescription", "CASTEM_ROOT"): "build-system driver: Cast3M installation",
}
# R6: primitives that read the *status* of the file system (existence, type, times, directory listings)
STATUS = re.compile(r"^(::)?(stat|lstat|fstat|fstatat|stat64|lstat64|access|faccessat|euidaccess|opendir|fdopendir|readdir|readdir_r|scandir|glob|ftw|nftw|"
                    r"utime|utimes|futimens|utimensat|std::filesystem::(exists|is_[a-z_]+|status|symlink_status|last_write_time|file_size|"
                    r"hard_link_count|equivalent|space|read_symlink|directory_iterator::directory_iterator|"
                    r"recursive_directory_iterator::recursive_directory_iterator|directory_entry::[a-z_]+))$")
STATUS_SITES = {
    "mfront::fileExistsAndIsReadable": "locates *input* files on the search paths (callers enumerated below); never looks at generated files",
    "mfront::ExcelMaterialPropertyInterface::writeOutputFiles": "aggregate index src/excel.lst accumulated across runs by design (same nature as src/targets.lst); not a source generated for one input",
    "mfront::MFrontDatabase::analyseDirectory": "mfront-query database: lists the libraries of a directory named by the caller; emits no sources",
}
HELPER_CALLERS = {"mfront::fileExistsAndIsReadable": {"mfront::SearchPathsHandler::search", "mfront::SearchPathsHandler::searchMadnexFile"}}
# R7: who opens a file for reading (std::ifstream / std::fstream / fopen) in the generator
READERS = {
    "mfront::MFront::analyseTargetsFile": "src/targets.lst: the documented aggregate of all runs in the directory (excluded from the property)",
    "mfront::ExcelMaterialPropertyInterface::writeOutputFiles": "src/excel.lst aggregate (see above)",
    "mfront::MFront::treatHelpCommands": "--help-keyword: prints installed documentation",
    "mfront::displayHelpFile": "prints installed documentation",
    "mfront::getDocumentationFilePath": "probes installed documentation files",
    "mfront::readConfigurationFile": "reads an *input* configuration file named on the command line",
    "mfront::write": "OverridableImplementation: copies the *input* file being overridden",
}
READ_OPEN = re.compile(r"^(std::basic_ifstream<.*>::(basic_ifstream|open)|std::basic_fstream<.*>::(basic_fstream|open)|std::basic_filebuf<.*>::open|"
                       r"(::)?fopen|(::)?freopen|(::)?open|(::)?openat)$")
RUNTIME_TARGETS = {"MFrontProfiling": "run-time profiler linked into generated behaviours (timers are its purpose); emits nothing at generation time",
                   "MTestFileGenerator": "run-time helper linked into generated behaviours to write mtest files at failure (numbers its files with a "
                                         "counter by design); emits nothing at generation time"}
TOKENS = re.compile(r"(\bstat\s*\(|\blstat\s*\(|\baccess\s*\(|std::filesystem|opendir|readdir|\bifstream|\bfstream\b|\bfopen\s*\(|fileExistsAndIsReadable|\btime\s*\(|\bclock\s*\(|chrono|\brand\s*\(|random|getpid|getppid|tmpnam|mkstemp|tempnam|tmpfile|mkdtemp|getenv|"
                    r"unordered_|__DATE__|__TIME__|__TIMESTAMP__|this_thread|localtime|gmtime|gettimeofday|strftime|drand48)")
MACROS = re.compile(r"\b(__DATE__|__TIME__|__TIMESTAMP__)\b")


def rel(loc):
    return loc.replace(REPO + "/", "")


def strip_literals(txt):
    """drop string literals and comments (emitted text is not generator behaviour)."""
    txt = re.sub(r'"(\\.|[^"\\\n])*"', '""', txt)
    txt = re.sub(r"//[^\n]*", "", txt)
    txt = re.sub(r"(?m)^\s*#\s*include[^\n]*", "", txt)
    txt = re.sub(r"/\*.*?\*/", "", txt, flags=re.S)
    return txt


def scan(rep, dumps, control=False):
    nv = 0

    def fail(key, msg):
        nonlocal nv
        nv += 1
        if not control:
            rep.fail(key, msg)
    seen_env = set()
    for u, d in dumps.items():
        for f in d["light"]:
            q = f["qname"]
            for c in f["calls"]:
                cal = c["callee"]
                if not control:
                    rep.count("resolved call sites")
                if FORBIDDEN.match(cal) or cal.startswith(FORBIDDEN_PREFIX):
                    fail("NONDETERMINISM@%s#%s" % (q, cal), "%s: %s calls %s: the generated output (or the files written) can differ "
                         "between two runs on the same input" % (rel(c["l"]), q, cal))
                if cal in ("getenv", "std::getenv", "secure_getenv"):
                    key = (q, c.get("arg0"))
                    if not control:
                        rep.count("getenv call sites")
                    if key in GETENV:
                        seen_env.add(key)
                        if not control:
                            rep.ok("getenv(%s) in %s: %s" % (key[1] or "<computed>", q, GETENV[key]))
                    else:
                        fail("GETENV@%s#%s" % (q, key[1]), "%s: %s reads the environment variable %s, which is not in the table of "
                             "documented inputs of the generator" % (rel(c["l"]), q, key[1] or "<computed>"))
                if STATUS.match(cal):
                    if not control:
                        rep.count("file-status call sites")
                    if q in STATUS_SITES:
                        if not control:
                            rep.ok("%s in %s: %s" % (cal, q, STATUS_SITES[q]), sample=False)
                    else:
                        fail("FILE-STATUS@%s#%s" % (q, cal), "%s: %s calls %s: what the generator does depends on what earlier runs (or anything "
                             "else) left in the file system, and this site is not in the table of accepted status reads" % (rel(c["l"]), q, cal))
                if cal in HELPER_CALLERS and q not in HELPER_CALLERS[cal]:
                    fail("FILE-STATUS@%s#%s" % (q, cal), "%s: %s calls the file-existence helper %s (accepted callers: %s)"
                         % (rel(c["l"]), q, cal, sorted(HELPER_CALLERS[cal])))
                if READ_OPEN.match(cal) and not (c.get("ctor") and cal.endswith("open")):
                    if not control:
                        rep.count("file-reading open sites")
                    if q in READERS:
                        if not control:
                            rep.ok("%s reads a file: %s" % (q, READERS[q]), sample=False)
                    else:
                        fail("FILE-READ@%s" % q, "%s: %s opens a file for reading (%s) and is not in the table of accepted readers: generated "
                             "output may depend on files left by previous runs" % (rel(c["l"]), q, cal.split("<")[0]))
                if "ins" in c:
                    t = c["ins"]
                    if t.rstrip().endswith("*") and not re.search(r"\b(char|wchar_t|char8_t)\b", t) and "std::basic_ostream" not in t \
                            and "(*)" not in t and "ios_base" not in t:
                        fail("POINTER-INSERTION@%s" % q, "%s: %s inserts a value of type %s into a stream: an address is written"
                             % (rel(c["l"]), q, t))
                if re.search(r"std::unordered_(map|set|multimap|multiset)<.*>::(begin|cbegin)$", cal):
                    fail("UNORDERED-ITERATION@%s" % q, "%s: %s iterates over an unordered container (%s): the order is unspecified"
                         % (rel(c["l"]), q, cal.split("<")[0]))
            for lp in f["loops"]:
                if "unordered_" in lp.get("rangeType", ""):
                    fail("UNORDERED-ITERATION@%s" % q, "%s: %s ranges over %s: the iteration order is unspecified"
                         % (rel(lp["l"]), q, lp["rangeType"][:80]))
    return nv


ONCE_FLAGS = {
    ("mfront::initDSLs", "init"): "once flag set under a mutex (DSL registration happens once per process, before any input is read)",
}


def static_state_rule(rep, units_all):
    """R8: function-local statics of the generator do not carry state from one input to the next:
     (a) the initialiser of a static local does not depend on a parameter, a local or a capture (it would be frozen at the
         first call and reused for every later input of the same invocation);
     (b) a static local of arithmetic type is not modified by its function (counters), except the listed once-flags.
    Singletons, registries filled at start-up and option flags returned by reference are not concerned."""
    PRE = re.compile(r"(?m)^\s{2,}static\s+(?!const\b|constexpr\b|_cast|assert)")
    sel = [u for u in units_all if PRE.search(strip_literals(open(u, errors="replace").read()))]
    rep.count("units declaring a mutable static local", len(sel))
    d = cfgdump(sel, os.path.join(OUT, "C36", "statics"), funcs=r"^mfront::", root=os.path.join(REPO, "mfront"))
    from cfg import load_functions
    funcs = load_functions(d)
    byid = {(f.unit, f.id): f for f in funcs}
    n_ = 0
    seen = set()
    for f in funcs:
        for s, n in sorted(f.stmts.items()):
            if n["k"] != "DeclStmt":
                continue
            for dd in n["decls"]:
                if not dd.get("static") or re.match(r"^const\b", dd.get("type") or ""):
                    continue
                key = (f.qname, dd.get("name"), f.short_loc(s))
                if key in seen:
                    continue
                seen.add(key)
                n_ += 1
                dep = None
                if "init" in dd:
                    for x in f.walk(dd["init"]):
                        m = f.stmts[x]
                        if m["k"] == "DeclRefExpr" and m.get("local") and not m.get("globalStorage") and m.get("declId") != dd.get("declId"):
                            dep = m.get("name")
                        if m["k"] == "LambdaExpr":
                            caps = [c.get("var") for c in (m.get("captures") or []) if c.get("var")]
                            if caps:
                                dep = caps[0]
                            g = byid.get((f.unit, m.get("lambdaOp")))
                            if g is not None and dep is None:
                                outer = set(p_["declId"] for p_ in f.params)
                                for y, q in g.stmts.items():
                                    if q["k"] == "DeclRefExpr" and q.get("declId") in outer:
                                        dep = q.get("name")
                if dep is not None:
                    rep.fail("STATIC-FROZEN@%s#%s" % (f.qname, dd.get("name")), "%s: the static local '%s' of %s is initialised from '%s': its value is "
                             "fixed by the first call of the process and reused for every later input of the same invocation, so what is generated "
                             "for an input depends on the inputs treated before it" % (rel(f.short_loc(s)), dd.get("name"), f.qname, dep))
                    continue
                ty = dd.get("type") or ""
                if re.match(r"^(unsigned |signed )?(int|long|short|char|bool|std::size_t|unsigned|size_t|double|float)\b", ty):
                    writes = []
                    for g in [f] + [h for h in funcs if h.unit == f.unit and h.parent == f.id]:
                        for y, q in g.stmts.items():
                            tgt = None
                            if q["k"] == "UnaryOperator" and q.get("op") in ("++", "--"):
                                tgt = g.kids(y)[0]
                            elif q["k"] in ("BinaryOperator", "CompoundAssignOperator") and q.get("op") in ("=", "+=", "-=", "*="):
                                tgt = g.kids(y)[0]
                            if tgt is not None:
                                t_ = g.stmts.get(g.strip(tgt))
                                if t_ is not None and t_["k"] == "DeclRefExpr" and t_.get("declId") == dd.get("declId"):
                                    writes.append(g.short_loc(y))
                    if writes and (f.qname, dd.get("name")) not in ONCE_FLAGS:
                        rep.fail("STATIC-COUNTER@%s#%s" % (f.qname, dd.get("name")), "%s: %s modifies its static local '%s' (%s): state is carried from "
                                 "one input to the next within an invocation" % (rel(writes[0]), f.qname, dd.get("name"), ty))
                        continue
                rep.ok("static local '%s' of %s carries no per-input state" % (dd.get("name"), f.qname), sample=False)
    rep.count("mutable static locals inspected", n_)
    rep.floor("mutable static locals inspected", 25)


def run(tier):
    rep = Report("C36", tier, "other", RULE)
    allu = units_under("mfront/src")
    # the generator = libTFELMFront + the mfront executable (+ its log-stream library); run-time support libraries that
    # are compiled from the same directory but linked into *generated* code are not the generator
    units = [u for u in allu if unit_target(u) not in RUNTIME_TARGETS]
    rep.extra["targets"] = sorted(set(unit_target(u) or "?" for u in units))
    rep.extra["excluded_runtime_units"] = [rel(u) for u in allu if unit_target(u) in RUNTIME_TARGETS]
    # R5 + pre-filter on the sources as compiled (literals and comments removed)
    hdr = []
    for root in ("mfront/include",):
        for dp, dn, fns in os.walk(os.path.join(REPO, root)):
            for fn in fns:
                if fn.endswith((".hxx", ".ixx", ".h", ".hpp")):
                    hdr.append(os.path.join(dp, fn))
    hits_h = []
    for p in hdr + units:
        try:
            txt = strip_literals(open(p, errors="replace").read())
        except OSError:
            continue
        rep.count("source files scanned for __DATE__/__TIME__")
        m = MACROS.search(txt)
        if m:
            rep.fail("BUILD-TIME-MACRO@%s" % rel(p), "%s uses %s: the generator's output depends on when it was built" % (rel(p), m.group(1)))
        if p in hdr and TOKENS.search(txt):
            hits_h.append(p)
    if tier == "thorough" or hits_h:
        sel = units
        rep.extra["unit_selection"] = "all units" + (" (a header of mfront/include spells a primitive: %s)" % [rel(h) for h in hits_h][:3] if hits_h and tier != "thorough" else "")
    else:
        sel = [u for u in units if TOKENS.search(strip_literals(open(u, errors="replace").read()))]
        rep.extra["unit_selection"] = "units spelling a primitive outside literals/comments (a callee must be named); pointer insertion is thorough-tier only"
    rep.count("units of the generator", len(units))
    rep.count("units parsed", len(sel))
    dumps = cfgdump(sel, os.path.join(OUT, "C36", "dump"), calls=True, root=os.path.join(REPO, "mfront"))
    scan(rep, dumps)
    static_state_rule(rep, units)
    # positive control
    ctl = os.path.join(VERIF, "controls", "C36_control.cxx")
    dc = cfgdump([ctl], os.path.join(OUT, "C36", "ctl"), calls=True, flags_for=lambda u: (header_flags(), VERIF))
    if scan(rep, dc, control=True) < 8:
        raise AnalysisBroken("positive control: fewer than 8 reports on controls/C36_control.cxx")
    if not rep.violations:
        rep.ok("no nondeterminism source among %d resolved call sites of %d units" % (rep.analysed.get("resolved call sites", 0), len(sel)))
    rep.floor("getenv call sites", 10)
    rep.floor("resolved call sites", 20000 if tier == "thorough" else 5000)
    rep.assumptions += ["units = what /repo/_build compiles (interfaces disabled at configuration time are not covered)",
                        "files are read through the tokenizer (tfel::utilities::CxxTokenizer, outside the generator units) only for inputs: not checked",
                        "std::map/std::set keyed by pointers are not searched for"]
    return rep
