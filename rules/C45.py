"""C45 — exported library metadata matches the declarations: reader/writer agreement
on symbol names and C types, and declared-versus-exported values on a corpus.

 A  reader table, from the AST of src/System/getFunction.c and
    src/System/ExternalLibraryManager.cxx: every symbol-name expression handed to
    a dlsym wrapper (tfel_getUnsignedShort, tfel_getArrayOfStrings,
    tfel_getLongDouble, ...), evaluated symbolically to a shape such as
        f "_" h "_" vn "_LowerBound"
    (parameters stay variables; the helper methods getString, getArrayOfStrings,
    getUMATNames, getUMATTypes ... are expanded at their call sites), together
    with the C type the wrapper casts the address to.
 B  writer table (Engine E): every namespace-scope object defined by the sources
    the rebuilt mfront generates for corpus/meta, corpus/bounds (generic behaviour
    interface) and corpus/mp (generic material-property interface): name, type,
    initialiser.
 R1 every exported object whose name matches a reader shape has the type the
    reader casts to (an unsigned short read as int, a double read as long double
    ... is garbage); objects no reader shape matches are listed in the evidence.
 R2 the shapes read unconditionally by the metadata loaders
    (ExternalBehaviourDescription, ExternalMaterialPropertyDescription) exist for
    every corpus entry.
 R3 exported values equal the declarations of the corpus (parsed from the corpus
    files: external names in declaration order with arrays expanded, type codes,
    counts, parameter default values, bounds and physical bounds per side -
    a side that is not declared exports nothing -, hypotheses) and the physical
    bounds inherited from the glossary equal the glossary table of
    src/Glossary/Glossary.cxx for the declared unit system.
Not decided: setParameter versus recompilation; other interfaces; metadata of
behaviours outside the corpus.
"""
import os, re
from common import *
from cfg import *
import gencheck

RULE = ("reader shapes (symbolic evaluation of the symbol-name expressions of ExternalLibraryManager) against the objects defined by "
        "generated sources: C types, presence, and values versus the corpus declarations and the glossary table")
ELM = "tfel::system::ExternalLibraryManager::"


def rel(loc):
    return loc.replace(REPO + "/", "")


# ------------------------------------------------------------------ A: reader
SUFFIX = {}      # wrapper -> (suffix it appends, strncat count, location)


def helper_types():
    d = cfgdump([os.path.join(REPO, "src/System/getFunction.c")], os.path.join(OUT, "C45", "getf"), funcs=r"^tfel_get",
                flags_for=lambda u: (["-x", "c++"] + header_flags(), VERIF))    # the C unit is valid C++ (it uses nullptr); parsed as such
    res = {}
    for f in load_functions(d):
        casts = []
        for s_, n in sorted(f.stmts.items()):
            if n["k"] == "CStyleCastExpr" and n.get("castTo") and \
                    any(f.stmts[x]["k"] == "CallExpr" and (f.stmts[x].get("callee") or "") == "dlsym" for x in f.walk(s_)):
                casts.append(n["castTo"])
        if casts and "(" not in casts[0]:
            res[f.qname] = casts[0].replace(" ", "")
        # wrappers that append a suffix themselves: strncat(myname, "<literal>", n)
        for s_, n in sorted(f.stmts.items()):
            if n["k"] == "CallExpr" and (n.get("callee") or "") == "strncat" and len(n.get("args", [])) == 3:
                lit = [f.stmts[x].get("value") for x in f.walk(n["args"][1]) if f.stmts[x]["k"] == "StringLiteral"]
                cnt = [f.stmts[x].get("value") for x in f.walk(n["args"][2]) if f.stmts[x]["k"] == "IntegerLiteral"]
                if lit:
                    SUFFIX[f.qname] = (lit[0], int(cnt[0]) if cnt else None, f.short_loc(s_))
    return res


class Shapes:
    def __init__(self, funcs):
        self.funcs = {}
        for f in funcs:
            if f.parent is None:
                self.funcs.setdefault(f.qname, []).append(f)
        self.memo = {}

    def parts(self, f, sid, env, depth=0):
        """list of tokens: ('lit', text) | ('var', name)."""
        if sid is None or depth > 25:
            return [("var", "?")]
        sid = f.strip(sid)
        n = f.stmts.get(sid)
        if n is None:
            return [("var", "?")]
        k = n["k"]
        if k == "StringLiteral":
            return [("lit", n.get("value") or "")]
        if k == "CharacterLiteral":
            return [("lit", chr(int(n.get("value"))))]
        if k == "CXXOperatorCallExpr" and n.get("op") == "+" and len(n.get("args", [])) == 2:
            return self.parts(f, n["args"][0], env, depth + 1) + self.parts(f, n["args"][1], env, depth + 1)
        if k == "CXXMemberCallExpr" and (n.get("callee") or "").rsplit("::", 1)[-1] in ("c_str", "data"):
            return self.parts(f, n.get("obj"), env, depth + 1)
        if k in ("CXXConstructExpr", "CXXBindTemporaryExpr", "MaterializeTemporaryExpr", "CXXFunctionalCastExpr", "CXXTemporaryObjectExpr"):
            ks = [c for c in f.kids(sid)] or n.get("args", [])
            if len(ks) >= 1:
                return self.parts(f, ks[0], env, depth + 1)
        if k == "DeclRefExpr":
            if n.get("parm"):
                nm = n["name"]
                return list(env.get(nm, [("var", nm)]))
            for s2, m in f.stmts.items():
                if m["k"] == "DeclStmt":
                    for d in m["decls"]:
                        if d.get("declId") == n.get("declId") and "init" in d:
                            return self.parts(f, d["init"], env, depth + 1)
            return [("var", n["name"])]
        if k == "CallExpr" and (n.get("callee") or "").endswith("decomposeVariableName"):
            return [("var", "vn")]
        return [("var", "?")]

    def collect(self, helpers, wrappers):
        """[(shape tuple, helper, where)] over all ELM methods, wrapper methods expanded at call sites."""
        out = []

        def visit(f, env, stack, origin=None):
            for s, n in sorted(f.stmts.items()):
                if n["k"] not in ("CallExpr", "CXXMemberCallExpr"):
                    continue
                c = n.get("callee") or ""
                a = n.get("args", [])
                if c in helpers and len(a) >= 2:
                    out.append((norm(self.parts(f, a[1], env) + ([("lit", SUFFIX[c][0])] if c in SUFFIX else [])), c,
                                origin or (f.qname.replace(ELM, "") + "@" + f.short_loc(s).rsplit("/", 1)[-1])))
                elif c == "dlsym" and len(a) >= 2:
                    out.append((norm(self.parts(f, a[1], env)), "dlsym", origin or (f.qname.replace(ELM, "") + "@" + f.short_loc(s).rsplit("/", 1)[-1])))
                elif c in wrappers and c not in stack:
                    for g in self.funcs.get(c, []):
                        if len(g.params) != len(a):
                            continue
                        env2 = {}
                        for p_, x in zip(g.params, a):
                            if "basic_string" in p_["type"] or "char" in p_["type"]:
                                env2[p_["name"]] = self.parts(f, x, env)
                        visit(g, env2, stack + (c,), origin or (f.qname.replace(ELM, "") + "@" + f.short_loc(s).rsplit("/", 1)[-1] + ">" + c.replace(ELM, "")))
        for q, fs in sorted(self.funcs.items()):
            if q in wrappers:
                continue
            for f in fs:
                visit(f, {}, (q,))
        return out


def norm(parts):
    res = []
    for kind, v in parts:
        if kind == "lit" and res and res[-1][0] == "lit":
            res[-1] = ("lit", res[-1][1] + v)
        else:
            res.append((kind, v))
    return tuple(res)


def shape_text(sh):
    return " ".join(('"%s"' % v) if k == "lit" else v for k, v in sh)


def shape_regex(sh):
    """regex on the part of the symbol name that follows the entry name (shape must start with a variable)."""
    rx = ""
    for k, v in sh[1:]:
        rx += re.escape(v) if k == "lit" else r"[A-Za-z0-9_]+?"
    return re.compile("^" + rx + "$")


# ------------------------------------------------------------------ B: writer
def literal_values(f, sid):
    """flattened scalar values of an initialiser: strings, numbers (sign applied), 'nullptr'."""
    vals = []
    for x in f.walk(sid):
        n = f.stmts[x]
        if n["k"] == "StringLiteral":
            vals.append(n.get("value"))
        elif n["k"] in ("IntegerLiteral", "FloatingLiteral"):
            v = float(n.get("value"))
            pm = f.parent_map()
            p = pm.get(x)
            while p is not None and f.stmts[p]["k"] in ("ImplicitCastExpr", "ParenExpr"):
                p = pm.get(p)
            if p is not None and f.stmts[p]["k"] == "UnaryOperator" and f.stmts[p].get("op") == "-":
                v = -v
            vals.append(v)
        elif n["k"] == "CXXNullPtrLiteralExpr":
            vals.append("nullptr")
    return vals


def writer_symbols(src, inc, prefix):
    units = sorted(os.path.join(src, u) for u in os.listdir(src) if u.endswith(".cxx"))
    d = cfgdump(units, os.path.join(OUT, "C45", "wdump_" + prefix), vars=r"^%s" % prefix, flags_for=gencheck.gen_flags(inc))
    res = {}
    for u in d:
        for x in d[u].get("vars", []):
            if x["file"].startswith(src):
                f = Func(x, u)
                res[x["name"]] = (x["type"], literal_values(f, f.body) if getattr(f, "body", None) is not None else literal_values(f, x["body"]), x["loc"])
    return res


# ---------------------------------------------------------- corpus declarations
TYPECODE = {"real": 0, "stress": 0, "strain": 0, "temperature": 0, "StrainStensor": 1, "StressStensor": 1, "Stensor": 1}


def parse_corpus(path):
    txt = open(path).read()
    c = {"name": re.search(r"@Behaviour\s+(\w+)", txt).group(1), "mps": [], "isvs": [], "esvs": [], "params": [], "bounds": {}, "pbounds": {},
         "glossary": {}, "entry": {}, "unit": (re.search(r"@UnitSystem\s+(\w+)", txt) or [None, None])[1],
         "hyps": sorted(re.findall(r"\w+", (re.search(r"@ModellingHypotheses\s*\{([^}]*)\}", txt) or [None, ""])[1]))}
    for kw, key in (("MaterialProperty", "mps"), ("StateVariable", "isvs"), ("AuxiliaryStateVariable", "isvs"), ("ExternalStateVariable", "esvs")):
        pass
    for m in re.finditer(r"@(MaterialProperty|StateVariable|AuxiliaryStateVariable|ExternalStateVariable|Parameter)\s+(\w+)\s+(\w+)(?:\[(\d+)\])?(?:\s*=\s*([-+.\deE]+))?\s*;", txt):
        kw, ty, nm, arr, val = m.groups()
        ent = {"name": nm, "type": ty, "size": int(arr) if arr else 1, "default": float(val) if val else None, "pos": m.start()}
        c[{"MaterialProperty": "mps", "StateVariable": "isvs", "AuxiliaryStateVariable": "aux", "ExternalStateVariable": "esvs", "Parameter": "params"}[kw]] = \
            c.get({"MaterialProperty": "mps", "StateVariable": "isvs", "AuxiliaryStateVariable": "aux", "ExternalStateVariable": "esvs", "Parameter": "params"}[kw], []) + [ent]
    for m in re.finditer(r"(\w+)\.set(Glossary|Entry)Name\(\"(\w+)\"\)", txt):
        c["glossary" if m.group(2) == "Glossary" else "entry"][m.group(1)] = m.group(3)
    for m in re.finditer(r"@(Physical)?Bounds\s+(\w+)\s+in\s+([\[\]])\s*([-+.\deE*]+)\s*:\s*([-+.\deE*]+)\s*([\[\]])\s*;", txt):
        lo = None if m.group(4) == "*" else float(m.group(4))
        up = None if m.group(5) == "*" else float(m.group(5))
        c["pbounds" if m.group(1) else "bounds"][m.group(2)] = (lo, up)
    return c


def ext(c, v):
    return c["glossary"].get(v) or c["entry"].get(v) or v


def expand(c, ents, sep="[%d]"):
    out = []
    for e in ents:
        nm = ext(c, e["name"])
        if e["size"] == 1:
            out.append((nm, e))
        else:
            out += [(nm + sep % i, e) for i in range(e["size"])]
    return out


def glossary_bounds(unit):
    """glossary entry -> (lower, upper) physical bounds for the unit system, from the table of src/Glossary/Glossary.cxx."""
    txt = open(os.path.join(REPO, "src/Glossary/Glossary.cxx")).read()
    res = {}
    for m in re.finditer(r"const GlossaryEntry Glossary::(\w+)\(\s*\"(\w+)\",(.*?)\);", txt, re.S):
        lits = re.findall(r'"((?:[^"\\]|\\.)*)"', m.group(3))
        lo = up = None
        if len(lits) >= 2:
            for tag, val in re.findall(r"(\w+):([-+.\deE]+)", lits[-2]):
                if tag == unit:
                    lo = float(val)
            for tag, val in re.findall(r"(\w+):([-+.\deE]+)", lits[-1]):
                if tag == unit:
                    up = float(val)
        res[m.group(2)] = (lo, up)
    return res


def run(tier):
    rep = Report("C45", tier, "other", RULE)
    # ---------------- A
    ht = helper_types()
    rep.count("dlsym wrappers with their cast type", len(ht))
    for h_, (lit, cnt, loc) in sorted(SUFFIX.items()):
        if cnt is not None and cnt < len(lit):
            rep.fail("SUFFIX-TRUNCATED@%s" % h_, "%s: %s appends at most %d characters of the %d-character suffix '%s': the symbol looked up is never the "
                     "exported one" % (rel(loc), h_, cnt, len(lit), lit))
        else:
            rep.ok("%s appends the whole suffix '%s'" % (h_, lit))
    if len(ht) < 6:
        raise AnalysisBroken("getFunction.c: only %d typed dlsym wrappers found" % len(ht))
    d = cfgdump([os.path.join(REPO, "src/System/ExternalLibraryManager.cxx")], os.path.join(OUT, "C45", "elm"),
                funcs=r"^tfel::system::ExternalLibraryManager::")
    funcs = load_functions(d)
    wrappers = {ELM + w for w in ("getString", "getStringIfDefined", "getArrayOfStrings", "getUMATNames", "getUMATTypes", "getUMATNamesIfDefined",
                                  "getUMATTypesIfDefined", "contains")}
    # getString's own read: const char* const* (read from its body)
    sh = Shapes(funcs)
    helpers = set(ht) | {"tfel_getArrayOfStrings", "tfel_getArrayOfInts"}
    shapes = sh.collect(helpers, wrappers)
    shapes = [(s, h, w) for s, h, w in shapes if len(s) >= 2 and s[0][0] == "var"]
    rep.count("reader symbol-name shapes", len(set((s, h) for s, h, w in shapes)))
    READ_TYPE = dict(ht)
    table = {}
    for s, h, w in shapes:
        if h == "dlsym":
            # the raw dlsym of getString / getStringIfDefined / contains: a string object, or existence only
            t = "constchar*const*" if ">getString" in w else None
        else:
            t = READ_TYPE.get(h)
        table.setdefault((s, t), []).append(w)
    # R4: a getter that first looks up the hypothesis-specific symbol and then falls back to the general one must spell both alike
    byfn = {}
    for s_, h_, w in shapes:
        byfn.setdefault(w.split("@")[0], set()).add(s_)

    def strip_h(sh_):
        out, i = [], 0
        sh_ = list(sh_)
        while i < len(sh_):
            if sh_[i] == ("var", "h") and out and out[-1][0] == "lit" and out[-1][1].endswith("_"):
                i += 1
                continue
            out.append(sh_[i])
            i += 1
        return norm([(k_, v_) for k_, v_ in out])

    def squeeze(sh_):
        return tuple((k_, re.sub(r"_+", "_", v_)) if k_ == "lit" else (k_, v_) for k_, v_ in sh_)
    for fn, ss in sorted(byfn.items()):
        with_h = set(squeeze(strip_h(x)) for x in ss if ("var", "h") in x)
        without = set(squeeze(x) for x in ss if ("var", "h") not in x)
        if not with_h or not without:
            continue
        rep.count("getters with a hypothesis-specific name and a fallback")
        if with_h == without:
            rep.ok("%s: the hypothesis-specific names and their fallbacks are spelled alike (%d)" % (fn, len(without)), sample=False)
        else:
            d1 = sorted(shape_text(x) for x in with_h ^ without)
            rep.fail("FALLBACK@%s" % fn, "ExternalLibraryManager::%s looks up hypothesis-specific names and fallbacks that differ by more than the "
                     "hypothesis: %s" % (fn, "; ".join(d1)))
    rep.extra["reader_shapes"] = sorted("%s : %s" % (shape_text(s), t) for (s, t) in table)[:200]
    compiled = [(shape_regex(s), s, t) for (s, t) in table if any(k == "lit" and len(v) > 1 for k, v in s)]
    # ---------------- B
    corpus = [("VerifMeta", os.path.join(VERIF, "corpus/meta/VerifMeta.mfront")), ("VerifBounds", os.path.join(VERIF, "corpus/bounds/VerifBounds.mfront"))]
    src, inc = gencheck.generate([p for _n, p in corpus], os.path.join(OUT, "C45", "gen"))
    COMPAT = {"unsignedshort*": ("unsigned short",), "int*": ("int", "int[", "const int *"), "double*": ("double",), "longdouble*": ("long double",),
              "char**": ("const char *[", "const char *const *"), "constchar*const*": ("const char *",)}
    for entry, path in corpus:
        W = writer_symbols(src, inc, entry + "_")
        rep.count("exported objects in generated sources", len(W))
        if len(W) < 30:
            raise AnalysisBroken("%s: only %d exported objects found in the generated sources" % (entry, len(W)))
        unread = []
        for name, (ty, vals, loc) in sorted(W.items()):
            tail = name[len(entry):]
            ms = [(s, t) for rx, s, t in compiled if rx.match(tail)]
            if not ms:
                unread.append(name)
                continue
            rep.count("exported objects matched by a reader shape")
            wants = sorted(set(t for s, t in ms if t))
            okt = [t for t in wants if any(ty == c_ or (c_.endswith("[") and ty.startswith(c_)) for c_ in COMPAT.get(t, ()))]
            if wants and not okt:
                rep.fail("TYPE@%s" % re.sub(r"^%s_" % entry, "<entry>_", name), "%s: the generated sources define %s as '%s' but ExternalLibraryManager reads it "
                         "through %s (shape %s, %s): the value read is not the value exported"
                         % (rel(loc), name, ty, " / ".join(wants), shape_text(ms[0][0]), table[(ms[0][0], ms[0][1])][0]))
            else:
                rep.ok("%s: '%s' as read" % (name, ty), sample=False)
        rep.extra["exported_not_read_" + entry] = unread
        # ---------------- R3 values
        c = parse_corpus(path)
        glo = glossary_bounds(c["unit"]) if c["unit"] else {}

        def want(sym, expect, what):
            rep.count("declared values compared")
            got = W.get(entry + "_" + sym)
            if expect is None:
                if got is None:
                    rep.ok("%s_%s is not exported (%s)" % (entry, sym, what), sample=False)
                else:
                    rep.fail("VALUE@%s_%s" % (entry, sym), "%s_%s is exported with %s although %s" % (entry, sym, got[1], what))
                return
            if got is None:
                rep.fail("VALUE@%s_%s" % (entry, sym), "%s_%s is not exported; the declarations give %s (%s)" % (entry, sym, expect, what))
                return
            gv = got[1]
            if isinstance(expect, list):
                # array objects: the first literals are the size macro arguments' values
                gvv = [v for v in gv]
                if gvv != expect:
                    rep.fail("VALUE@%s_%s" % (entry, sym), "%s: %s_%s = %s; the declarations give %s (%s)" % (rel(got[2]), entry, sym, gvv, expect, what))
                else:
                    rep.ok("%s_%s = %s" % (entry, sym, expect), sample=(sym == "InternalStateVariables"))
            else:
                if len(gv) != 1 or (gv[0] != expect and not (isinstance(expect, float) and isinstance(gv[0], float) and abs(gv[0] - expect) <= 1e-12 * abs(expect))):
                    rep.fail("VALUE@%s_%s" % (entry, sym), "%s: %s_%s = %s; the declarations give %s (%s)" % (rel(got[2]), entry, sym, gv, expect, what))
                else:
                    rep.ok("%s_%s = %s" % (entry, sym, expect), sample=False)
        mps = expand(c, c.get("mps", []))
        isvs = expand(c, c.get("isvs", []) + c.get("aux", []))
        esvs = expand(c, c.get("esvs", []))
        want("nMaterialProperties", float(len(mps)), "number of declared material properties, arrays expanded")
        if mps:
            want("MaterialProperties", [n_ for n_, _e in mps], "external names in declaration order")
        if isvs:
            names, types = [], []
            for e in c.get("isvs", []) + c.get("aux", []):
                names.append(ext(c, e["name"]))
                types.append(float(TYPECODE[e["type"]]))
            # the generic interface exports one name per variable for scalars and expands arrays
            names2, types2 = [], []
            for e in c.get("isvs", []) + c.get("aux", []):
                if e["size"] == 1:
                    names2.append(ext(c, e["name"])); types2.append(float(TYPECODE[e["type"]]))
                else:
                    for i in range(e["size"]):
                        names2.append("%s[%d]" % (ext(c, e["name"]), i)); types2.append(float(TYPECODE[e["type"]]))
            want("nInternalStateVariables", float(len(names2)), "number of declared (auxiliary) state variables, arrays expanded")
            want("InternalStateVariables", names2, "external names in declaration order, state variables then auxiliary ones")
            want("InternalStateVariablesTypes", types2, "0 scalar, 1 symmetric tensor")
        if esvs:
            want("nExternalStateVariables", float(len(esvs)), "declared external state variables (the temperature is removed: see TemperatureRemovedFromExternalStateVariables)")
            want("ExternalStateVariables", [n_ for n_, _e in esvs], "external names")
        if c["hyps"]:
            want("nModellingHypotheses", float(len(c["hyps"])), "@ModellingHypotheses")
            want("ModellingHypotheses", sorted(c["hyps"]), "@ModellingHypotheses (exported sorted)")
        if c["unit"]:
            want("unit_system", c["unit"], "@UnitSystem")
        for e in c.get("params", []):
            want(ext(c, e["name"]) + "_ParameterDefaultValue", e["default"], "@Parameter %s = %s" % (e["name"], e["default"]))
        allv = c.get("mps", []) + c.get("isvs", []) + c.get("aux", []) + c.get("esvs", []) + c.get("params", [])
        # the temperature is declared implicitly (and removed from the exported list of external state variables), but its bounds - declared
        # on 'T' or inherited from the glossary once a unit system is given - are part of the metadata like any other
        if "T" in c["bounds"] or "T" in c["pbounds"] or c["unit"]:
            c["glossary"].setdefault("T", "Temperature")
            allv = allv + [{"name": "T", "type": "temperature", "size": 1, "default": None}]
        for e in allv:
            v = e["name"]
            # the name ExternalLibraryManager builds for element i of an array: decomposeVariableName("v[i]") = v_mfront_index_i
            xs = [ext(c, v)] if e["size"] == 1 else ["%s_mfront_index_%d" % (ext(c, v), i) for i in range(e["size"])]
            b = c["bounds"].get(v, (None, None))
            pb = c["pbounds"].get(v)
            inherited = False
            if pb is None and v in c["glossary"] and c["unit"]:
                g = glo.get(c["glossary"][v])
                if g is None:
                    raise AnalysisBroken("glossary entry %s not found in src/Glossary/Glossary.cxx" % c["glossary"][v])
                pb, inherited = g, True
            pb = pb or (None, None)
            for x in xs:
                want(x + "_LowerBound", b[0], "@Bounds of %s" % v if b[0] is not None else "no lower bound is declared for %s" % v)
                want(x + "_UpperBound", b[1], "@Bounds of %s" % v if b[1] is not None else "no upper bound is declared for %s" % v)
                src_ = ("glossary entry %s (%s)" % (c["glossary"].get(v), c["unit"])) if inherited else "@PhysicalBounds of %s" % v
                want(x + "_LowerPhysicalBound", pb[0], src_ if pb[0] is not None else "no lower physical bound for %s" % v)
                want(x + "_UpperPhysicalBound", pb[1], src_ if pb[1] is not None else "no upper physical bound for %s" % v)
        # ---------------- R2 presence of what the loaders read unconditionally
        for sym in ("mfront_ept", "mfront_mkt", "mfront_interface", "tfel_version", "src", "BehaviourType", "BehaviourKinematic", "SymmetryType",
                    "ElasticSymmetryType", "nModellingHypotheses", "ModellingHypotheses", "nMaterialProperties", "nInternalStateVariables",
                    "nExternalStateVariables", "nParameters", "Parameters", "ParametersTypes", "requiresStiffnessTensor",
                    "requiresThermalExpansionCoefficientTensor", "nGradients", "Gradients", "GradientsTypes", "nThermodynamicForces",
                    "ThermodynamicForces", "ThermodynamicForcesTypes", "nTangentOperatorBlocks", "TangentOperatorBlocks"):
            rep.count("mandatory symbols")
            if entry + "_" + sym not in W:
                rep.fail("MISSING@<entry>_%s" % sym, "%s_%s is read by the metadata loaders but not defined by the generated sources" % (entry, sym))
            elif sym == "mfront_ept":
                # entry points are discovered by scanning the symbol table for this suffix, not by name
                lits = [n.get("value") for f_ in funcs for n in f_.stmts.values() if n["k"] == "StringLiteral"]
                if "_mfront_ept" in lits:
                    rep.ok("<entry>_mfront_ept is exported; entry points are found by scanning for the suffix '_mfront_ept'", sample=False)
                else:
                    rep.fail("UNREAD@<entry>_mfront_ept", "ExternalLibraryManager no longer scans for the suffix '_mfront_ept'")
            elif not any(rx.match("_" + sym) for rx, s, t in compiled):
                rep.fail("UNREAD@<entry>_%s" % sym, "no symbol-name expression of ExternalLibraryManager has the shape <entry>_%s any more: the exported "
                         "metadata is not read under that name" % sym)
            else:
                rep.ok("<entry>_%s is exported and read" % sym, sample=False)
    # ---------------- R4 every listed parameter has a default value the reader can find
    HYPS = ("AxisymmetricalGeneralisedPlaneStrain", "AxisymmetricalGeneralisedPlaneStress", "Axisymmetrical", "PlaneStress", "PlaneStrain",
            "GeneralisedPlaneStrain", "Tridimensional")
    spec_path = os.path.join(VERIF, "corpus/meta/VerifMetaSpec.mfront")
    src3, inc3 = gencheck.generate([spec_path], os.path.join(OUT, "C45", "genspec"))
    # the reader tries <entry>_<hypothesis>_<p>_ParameterDefaultValue, then <entry>_<p>_ParameterDefaultValue: both shapes must be in its table
    for tail in ("_Tridimensional_x_ParameterDefaultValue", "_x_ParameterDefaultValue"):
        if not any(rx.match(tail) for rx, s_, t_ in compiled):
            rep.fail("UNREAD@<entry>%s" % tail, "no symbol-name expression of ExternalLibraryManager has the shape <entry>%s any more" % tail)
    for entry, S, I in [(e_, src, inc) for e_, _p in corpus] + [("VerifMetaSpec", src3, inc3)]:
        W = writer_symbols(S, I, entry + "_")
        lists = [(k, v) for k, v in sorted(W.items()) if re.match(r"^%s(_(%s))?_Parameters$" % (entry, "|".join(HYPS)), k)]
        if not lists:
            raise AnalysisBroken("%s: no exported list of parameters" % entry)
        for k, (ty, names, loc) in lists:
            h = k[len(entry) + 1:-len("_Parameters")].rstrip("_")
            for nm in names:
                rep.count("listed parameters with a default value to find")
                x = re.sub(r"\[(\d+)\]$", r"_mfront_index_\1", nm)
                cands = (["%s_%s_%s_ParameterDefaultValue" % (entry, h, x)] if h else []) + ["%s_%s_ParameterDefaultValue" % (entry, x)]
                if any(c_ in W for c_ in cands):
                    rep.ok("%s lists '%s' and %s is exported" % (k, nm, [c_ for c_ in cands if c_ in W][0]), sample=False)
                else:
                    rep.fail("NO-DEFAULT-VALUE@%s#%s" % (k.replace(entry, "<entry>"), nm), "%s: %s lists the parameter '%s' but neither %s is exported: "
                             "ExternalLibraryManager::get*ParameterDefaultValue fails for it (the parameter cannot be queried or reset)"
                             % (rel(loc), k, nm, " nor ".join(cands)))
    # declared values of the fully specialised behaviour, per hypothesis
    stxt = open(spec_path).read()
    W = writer_symbols(src3, inc3, "VerifMetaSpec_")
    shyps = sorted(re.findall(r"\w+", re.search(r"@ModellingHypotheses\s*\{([^}]*)\}", stxt).group(1)))
    for m in re.finditer(r"@Parameter(?:<(\w+)>)?\s+\w+\s+(\w+)(?:\[(\d+)\])?\s*=\s*(\{[^}]*\}|[-+.\deE]+)\s*;", stxt):
        hh, nm, arr, val = m.groups()
        vals = [float(v) for v in re.findall(r"[-+.\deE]+", val)]
        for h in shyps:
            if hh and hh != h:
                continue
            for i, v in enumerate(vals):
                x = nm if not arr else "%s_mfront_index_%d" % (nm, i)
                rep.count("declared values compared")
                got = W.get("VerifMetaSpec_%s_%s_ParameterDefaultValue" % (h, x)) or W.get("VerifMetaSpec_%s_ParameterDefaultValue" % x)
                if got is None or got[1] != [v]:
                    rep.fail("VALUE@VerifMetaSpec_%s_%s_ParameterDefaultValue" % (h, x), "the default value of '%s' for %s is %s in the generated sources; "
                             "the declaration gives %s" % (x, h, got and got[1], v))
                else:
                    rep.ok("VerifMetaSpec %s %s = %s" % (h, x, v), sample=False)
    rep.floor("listed parameters with a default value to find", 15)
    # ---------------- material property (generic material-property interface): bounds of the inputs
    mp_path = os.path.join(VERIF, "corpus/meta/VerifMetaMP.mfront")
    txt = open(mp_path).read()
    entry = "%s_%s" % (re.search(r"@Material\s+(\w+)", txt).group(1), re.search(r"@Law\s+(\w+)", txt).group(1))
    unit = re.search(r"@UnitSystem\s+(\w+)", txt).group(1)
    src2, inc2 = gencheck.generate([mp_path], os.path.join(OUT, "C45", "genmp"))
    W = writer_symbols(src2, inc2, entry + "_")
    rep.count("exported objects in generated sources", len(W))
    if len(W) < 8:
        raise AnalysisBroken("%s: only %d exported objects found" % (entry, len(W)))
    glo = glossary_bounds(unit)
    inputs = re.findall(r"@Input\s+\w+\s+(\w+)\s*;", txt)
    outputs = re.findall(r"@Output\s+\w+\s+(\w+)\s*;", txt)       # its bounds are metadata like those of the inputs
    gl = dict(re.findall(r"(\w+)\.setGlossaryName\(\"(\w+)\"\)", txt))
    bnd, pbnd = {}, {}
    for m in re.finditer(r"@(Physical)?Bounds\s+(\w+)\s+in\s+[\[\]]\s*([-+.\deE*]+)\s*:\s*([-+.\deE*]+)\s*[\[\]]\s*;", txt):
        (pbnd if m.group(1) else bnd)[m.group(2)] = (None if m.group(3) == "*" else float(m.group(3)), None if m.group(4) == "*" else float(m.group(4)))

    def wantmp(sym, expect, what):
        rep.count("declared values compared")
        got = W.get(entry + "_" + sym)
        if expect is None and got is None:
            rep.ok("%s_%s is not exported (%s)" % (entry, sym, what), sample=False)
        elif expect is None:
            rep.fail("VALUE@%s_%s" % (entry, sym), "%s_%s is exported with %s although %s" % (entry, sym, got[1], what))
        elif got is None:
            rep.fail("VALUE@%s_%s" % (entry, sym), "%s_%s is not exported; the declarations give %s (%s)" % (entry, sym, expect, what))
        elif got[1] == expect or (len(got[1]) == 1 and isinstance(expect, float) and abs(got[1][0] - expect) <= 1e-12 * abs(expect)):
            rep.ok("%s_%s = %s" % (entry, sym, expect), sample=False)
        else:
            rep.fail("VALUE@%s_%s" % (entry, sym), "%s: %s_%s = %s; the declarations give %s (%s)" % (rel(got[2]), entry, sym, got[1], expect, what))
    wantmp("nargs", float(len(inputs)), "number of @Input")
    wantmp("args", [gl.get(v, v) for v in inputs], "external names of the inputs in declaration order")
    for v in inputs + outputs:
        x = gl.get(v, v)
        b = bnd.get(v, (None, None))
        pb = pbnd.get(v)
        inh = False
        if pb is None and v in gl:
            pb, inh = glo.get(gl[v], (None, None)), True
        pb = pb or (None, None)
        src_ = "glossary entry %s (%s)" % (gl.get(v), unit) if inh else "@PhysicalBounds of %s" % v
        wantmp(x + "_LowerBound", b[0], "@Bounds of %s" % v if b[0] is not None else "no lower bound is declared for %s" % v)
        wantmp(x + "_UpperBound", b[1], "@Bounds of %s" % v if b[1] is not None else "no upper bound is declared for %s" % v)
        wantmp(x + "_LowerPhysicalBound", pb[0], src_ if pb[0] is not None else "no lower physical bound for %s" % v)
        wantmp(x + "_UpperPhysicalBound", pb[1], src_ if pb[1] is not None else "no upper physical bound for %s" % v)
    for name, (ty, vals, loc) in sorted(W.items()):
        tail = name[len(entry):]
        ms = [(s_, t) for rx, s_, t in compiled if rx.match(tail)]
        wants = sorted(set(t for s_, t in ms if t))
        if ms:
            rep.count("exported objects matched by a reader shape")
        if wants and not [t for t in wants if any(ty == c_ or (c_.endswith("[") and ty.startswith(c_)) for c_ in COMPAT.get(t, ()))]:
            rep.fail("TYPE@<law>%s" % tail, "%s: the generated sources define %s as '%s' but ExternalLibraryManager reads it through %s"
                     % (rel(loc), name, ty, " / ".join(wants)))
    rep.floor("reader symbol-name shapes", 60)
    rep.floor("getters with a hypothesis-specific name and a fallback", 25)
    rep.floor("exported objects matched by a reader shape", 120)
    rep.floor("declared values compared", 115)
    rep.assumptions += ["corpus: the three behaviours of corpus/meta and corpus/bounds (one of them with every modelling hypothesis specialised) and the material property of corpus/meta through the generic "
                        "interfaces; other interfaces are not covered", "setParameter versus recompilation is not decided",
                        "shapes are compared up to the entry name prefix; a variable part matches any identifier characters"]
    # ---- R5 mfront-query prints numbers with the precision they are exported with
    qd = cfgdump([os.path.join(REPO, "mfront-query/src/mfront-query.cxx")], os.path.join(OUT, "C45", "dumpq"), funcs=r"^main$", root=REPO)
    qm = [f for f in load_functions(qd) if f.qname == "main" and f.parent is None]
    if len(qm) != 1:
        raise AnalysisBroken("main of mfront-query not found")
    precs = []
    for n in qm[0].stmts.values():
        if n["k"] == "CXXMemberCallExpr" and (n.get("callee") or "").endswith("::precision") and n.get("args") and \
                "cout" in qm[0].text(n.get("obj")):
            v = qm[0].stmts.get(qm[0].strip(n["args"][0]))
            if v is not None and v["k"] == "IntegerLiteral":
                precs.append(int(v["value"]))
    rep.count("precision settings of mfront-query's output", len(precs))
    if precs and min(precs) >= 14:
        rep.ok("mfront-query prints numbers with %d significant digits, the precision of the exported symbols" % min(precs))
    else:
        rep.fail("QUERY-PRECISION@mfront-query main", "mfront-query prints default values and bounds with %s significant digits while the generated "
                 "library exports them with 14: '@Parameter real pa = 1.23456789' is reported as 1.23457, which is not the declared value"
                 % (min(precs) if precs else "the default 6"))
    return rep
