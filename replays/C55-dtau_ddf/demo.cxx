// replay: the DTAU_DDF operator returned by a Hencky behaviour through the generic interface versus centred finite differences of the
// Kirchhoff stress with respect to the deformation gradient increment DF = F1.F0^-1 (F0 != identity, F1 != F0)
#include <cmath>
#include <cstdio>
#include <cstring>
#include "TFEL/Math/tensor.hxx"
#include "TFEL/Math/stensor.hxx"
#include "MFront/GenericBehaviour/BehaviourData.h"
extern "C" int VerifHencky_Tridimensional(mfront_gb_BehaviourData* const);
using tensor = tfel::math::tensor<3u, double>;
using stensor = tfel::math::stensor<3u, double>;
static const double mp[2] = {150e9, 0.3};
static const double esv[1] = {293.15};
static const double rho = 7800;
static int call(stensor& sig, double* K, const tensor& F0, const tensor& F1, const double k0, const double k2) {
  char msg[512];
  mfront_gb_BehaviourData d;
  std::memset(&d, 0, sizeof(d));
  double rdt = 1, sos = 0, isv0[1] = {0}, isv1[1] = {0}, se0 = 0, se1 = 0, de0 = 0, de1 = 0;
  double s0[6] = {0, 0, 0, 0, 0, 0};
  d.error_message = msg; d.dt = 1; d.K = K; d.rdt = &rdt; d.speed_of_sound = &sos;
  K[0] = k0; K[1] = 0; K[2] = k2;
  d.s0.gradients = F0.begin(); d.s1.gradients = F1.begin();
  d.s0.thermodynamic_forces = s0; d.s1.thermodynamic_forces = sig.begin();
  d.s0.mass_density = &rho; d.s1.mass_density = &rho;
  d.s0.material_properties = mp; d.s1.material_properties = mp;
  d.s0.internal_state_variables = isv0; d.s1.internal_state_variables = isv1;
  d.s0.stored_energy = &se0; d.s1.stored_energy = &se1; d.s0.dissipated_energy = &de0; d.s1.dissipated_energy = &de1;
  d.s0.external_state_variables = esv; d.s1.external_state_variables = esv;
  return VerifHencky_Tridimensional(&d);
}
int main() {
  tensor F0 = tensor::Id(), F1;
  F0(0) = 1.10; F0(1) = 0.95; F0(2) = 1.02; F0(3) = 0.08; F0(4) = -0.03; F0(5) = 0.02; F0(7) = 0.05;
  tensor DF = tensor::Id();
  DF(0) = 1.04; DF(1) = 0.97; DF(2) = 1.01; DF(3) = 0.05; DF(4) = 0.02; DF(6) = -0.03; DF(8) = 0.04;
  F1 = DF * F0;
  double K[81];
  stensor sig;
  if (call(sig, K, F0, F1, 4, 3) != 1) { std::printf("integration failed\n"); return 2; }
  double Kr[6][9];
  for (int i = 0; i != 6; ++i) for (int j = 0; j != 9; ++j) Kr[i][j] = K[i * 9 + j];
  const double h = 1e-6;
  double worst = 0, scale = 0;
  for (int j = 0; j != 9; ++j) {
    stensor tp, tm;
    for (int sgn = -1; sgn <= 1; sgn += 2) {
      tensor DFp = DF; DFp(j) += sgn * h;
      const tensor F1p = DFp * F0;
      double K2[81]; stensor s;
      if (call(s, K2, F0, F1p, 0, 3) != 1) { std::printf("integration failed\n"); return 2; }
      const stensor tau = tfel::math::det(F1p) * s;
      (sgn > 0 ? tp : tm) = tau;
    }
    for (int i = 0; i != 6; ++i) {
      const double num = (tp(i) - tm(i)) / (2 * h);
      worst = std::max(worst, std::abs(num - Kr[i][j]));
      scale = std::max(scale, std::abs(num));
    }
  }
  std::printf("max |DTAU_DDF returned - finite difference| = %g (largest entry %g, relative %g)\n", worst, scale, worst / scale);
  return worst / scale < 1e-5 ? 0 : 1;
}
