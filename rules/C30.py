"""C30 — child-process exit status: discipline rules on ProcessManager."""
import re
from common import *
from cfg import *
from lockset import *

RULE = ("UNCHECKED-RESULT(waitpid -> status): a status written by waitpid is decoded only where the call's result "
        "was compared with the awaited pid (or != -1 for a blocking call); LOCKSET(processes -> processesAccess) for "
        "every function that can run concurrently with the SIGCHLD handler; DECISION-TABLE(setProcessExitStatus): "
        "WIFEXITED -> (true, WEXITSTATUS), WIFSIGNALED -> (false, .), only these clear isRunning; execute() returns "
        "normally only under exitStatus && exitValue == EXIT_SUCCESS and after wait(pid); the C wrappers of the wait "
        "macros are the macros of that name")
PM = "tfel::system::ProcessManager"
DECODERS = {"processManager_wifexited": "WIFEXITED", "processManager_wifsignaled": "WIFSIGNALED",
            "processManager_wifstopped": "WIFSTOPPED", "processManager_wexitstatus": "WEXITSTATUS",
            "processManager_wtermsig": "WTERMSIG"}
LOCK_EXEMPT = {
    PM + "::~ProcessManager": "all signals are blocked (sigprocmask(SIG_BLOCK, all)) before the loop; premise checked",
    PM + "::cleanUp": "only called in the forked child (call sites must be dominated by fork() == 0; checked)",
    PM + "::ProcessManager": "constructor: the object is not yet shared",
}


def rel(loc):
    return loc.replace(REPO + "/", "")


def run(tier):
    rep = Report("C30", tier, "other", RULE)
    cxx = os.path.join(REPO, "src/System/ProcessManager.cxx")
    cc = os.path.join(REPO, "src/System/ProcessManager-c.c")
    ref = os.path.join(VERIF, "controls", "C30_waitmacros.c")
    dumps = cfgdump([cxx], os.path.join(OUT, "C30", "dump"), funcs=r"^tfel::system::", root=REPO)
    funcs = load_functions(dumps)
    rep.count("functions analysed", len(funcs))
    cg = custom_guards(funcs)
    if cg:
        rep.extra["guard_classes"] = cg

    # ------------------------------------------- R1 UNCHECKED-RESULT(waitpid)
    for f in funcs:
        status_vars = {}
        for n in f.stmts.values():
            if n["k"] == "DeclStmt":
                for d in n["decls"]:
                    if d.get("type") == "int" and "init" not in d:
                        status_vars[d["declId"]] = d["name"]
        wsites = [s for s, n in f.stmts.items() if n["k"] == "CallExpr" and n.get("callee") == "waitpid"]
        if not wsites:
            continue
        pm = f.parent_map()

        def status_of(sid):
            a = f.stmts[sid]["args"]
            s = f.strip(a[1])
            n = f.stmts[s]
            if n["k"] == "UnaryOperator" and n["op"] == "&":
                v = f.stmts[f.strip(f.kids(s)[0])]
                if v["k"] == "DeclRefExpr":
                    return v["declId"]
            return None

        def blocking(sid):
            fl = f.stmts[f.strip(f.stmts[sid]["args"][2])]
            return fl["k"] == "IntegerLiteral" and fl["value"] == 0

        def ret_var(sid):
            p = sid
            while p in pm and f.stmts[pm[p]]["k"] in TRANSPARENT:
                p = pm[p]
            par = pm.get(p)
            if par and f.stmts[par]["k"] == "DeclStmt":
                for d in f.stmts[par]["decls"]:
                    if "init" in d and f.strip(d["init"]) == sid:
                        return d["declId"]
            if par and f.stmts[par]["k"] == "BinaryOperator" and f.stmts[par]["op"] == "=":
                l = f.stmts[f.strip(f.kids(par)[0])]
                if l["k"] == "DeclRefExpr":
                    return l["declId"]
            return None

        def cmp_info(cond, pol, st):
            """does the edge establish that the call returned the awaited pid?"""
            s = f.strip(cond)
            n = f.stmts[s]
            if n["k"] == "UnaryOperator" and n["op"] == "!":
                return cmp_info(f.kids(s)[0], not pol, st)
            if n["k"] != "BinaryOperator" or n["op"] not in ("==", "!=", ">", "<", ">=", "<="):
                return None
            l, r = [f.strip(x) for x in f.kids(s)[:2]]
            for a, b, flip in ((l, r, False), (r, l, True)):
                an = f.stmts[a]
                is_ret = (an["k"] == "DeclRefExpr" and an.get("declId") == st["ret"]) or \
                         (an["k"] == "CallExpr" and a == st["site"])
                if not is_ret:
                    continue
                bt = f.text(b)
                op = n["op"]
                if flip:
                    op = {"<": ">", ">": "<", "<=": ">=", ">=": "<="}.get(op, op)
                truth = pol
                if bt == st["pid"]:
                    if (op == "==" and truth) or (op == "!=" and not truth):
                        return True
                if bt in ("-1", "0"):
                    ok = (op == "!=" and truth and bt == "-1") or (op == "==" and not truth and bt == "-1") or \
                         (op == ">" and truth and bt == "0") or (op == "<=" and not truth and bt == "0")
                    if ok and (st["blocking"] or bt == "0"):
                        return True
            return None

        def el(stt, b, i, e):
            st = dict(stt)
            if "s" in e:
                sid = e["s"]
                n = f.stmts[sid]
                if sid in wsites:
                    v = status_of(sid)
                    if v is not None:
                        st[v] = (("site", sid), ("ret", None), ("pid", f.text(f.stmts[sid]["args"][0])),
                                 ("blocking", blocking(sid)), ("valid", False))
                rv = None
                if n["k"] == "DeclStmt" or (n["k"] == "BinaryOperator" and n.get("op") == "="):
                    for w in wsites:
                        if ret_var(w) is not None and w in set(f.walk(sid)):
                            v = status_of(w)
                            if v in st:
                                d = dict(st[v])
                                d["ret"] = ret_var(w)
                                st[v] = tuple(d.items())
                if n["k"] in ("CallExpr", "CXXMemberCallExpr"):
                    cal = (n.get("callee") or "")
                    if cal in DECODERS or cal.endswith("::setProcessExitStatus"):
                        for a in n["args"]:
                            an = f.stmts[f.strip(a)]
                            if an["k"] == "DeclRefExpr" and an.get("declId") in status_vars:
                                rep.count("uses of a waitpid status")
                                info = dict(st.get(an["declId"], ()))
                                if not info:
                                    rep.fail("UNINIT-STATUS@%s" % f.qname,
                                             "%s: status decoded before any waitpid wrote it" % rel(f.short_loc(sid)))
                                elif not info["valid"]:
                                    rep.fail("UNCHECKED-RESULT@%s#waitpid->%s" % (f.qname, cal.rsplit("::", 1)[-1]),
                                             "%s: the status written by waitpid (%s) is passed to %s although the result of "
                                             "waitpid was not compared with the awaited pid on this path: if the SIGCHLD "
                                             "handler reaped the child first, waitpid fails and an uninitialised status is "
                                             "decoded" % (rel(f.short_loc(sid)), rel(f.short_loc(info["site"])), cal))
                                else:
                                    rep.ok("%s: status decoded only where waitpid returned the awaited pid"
                                           % rel(f.short_loc(sid)))
            return (tuple(sorted(st.items())),)

        def ed(stt, b, succ, pol):
            if pol is None or b.cond is None:
                return (stt,)
            st = dict(stt)
            for v, info in list(st.items()):
                d = dict(info)
                if cmp_info(b.cond, pol, d):
                    d["valid"] = True
                    st[v] = tuple(d.items())
            return (tuple(sorted(st.items())),)
        forward(f, [()], el, ed)
        rep.count("waitpid call sites", len(wsites))

    # --------------------------------------------------- R2 LOCKSET(processes)
    for f in funcs:
        if f.parent is not None:
            continue
        g = guard_decls(f)
        step = lock_transfer(f, g)
        acc = []

        def el2(held, b, i, e):
            if "s" in e:
                n = f.stmts[e["s"]]
                if n["k"] == "MemberExpr" and n.get("member") == "processes" and n.get("fieldClass") == PM:
                    acc.append((e["s"], "processesAccess" in held_mutexes(held)))
            return (step(held, e),)
        forward(f, [frozenset()], el2)
        for sid, ok in acc:
            rep.count("accesses to ProcessManager::processes")
            if ok:
                rep.ok("%s: processes accessed under processesAccess in %s" % (rel(f.short_loc(sid)), f.qname), sample=False)
            elif f.qname in LOCK_EXEMPT:
                rep.ok("%s: unlocked access in %s accepted: %s" % (rel(f.short_loc(sid)), f.qname, LOCK_EXEMPT[f.qname]),
                       sample=False)
            else:
                rep.fail("LOCKSET@%s#processes" % f.qname,
                         "%s: the process table is accessed without processesAccess in %s while the SIGCHLD handler "
                         "may iterate over it" % (rel(f.short_loc(sid)), f.qname))
    # R2b: the record of a reaped status is published to the reader either by program order (the waiting thread's own
    # call in wait(), followed by its own read in execute) or through processesAccess (any other reaper: the reader
    # re-acquires processesAccess after wait() returned on ECHILD, see STATUS-READ below) -- so every call of
    # setProcessExitStatus outside wait() must hold processesAccess.
    for f in funcs:
        calls = [s_ for s_, n in f.stmts.items() if n["k"] == "CXXMemberCallExpr"
                 and (n.get("callee") or "") == PM + "::setProcessExitStatus"]
        if not calls:
            continue
        g = guard_decls(f)
        step = lock_transfer(f, g)
        seen_ = {}

        def el2b(held, b, i, e):
            if e.get("s") in calls:
                seen_.setdefault(e["s"], []).append("processesAccess" in held_mutexes(held))
            return (step(held, e),)
        forward(f, [frozenset()], el2b)
        for sid in calls:
            rep.count("call sites of setProcessExitStatus")
            if f.qname == PM + "::wait" and f.parent is None:
                rep.ok("%s: wait() records the status in the waiting thread itself (program order with the read in execute)"
                       % rel(f.short_loc(sid)))
                continue
            v = seen_.get(sid)
            if v and all(v):
                rep.ok("%s: %s records the reaped status while holding processesAccess" % (rel(f.short_loc(sid)), f.qname))
            else:
                rep.fail("RECORD-OUTSIDE-LOCK@%s" % f.qname,
                         "%s: %s records the exit status without holding processesAccess: after the handler reaped the child "
                         "and released the lock, wait() returns on ECHILD and execute() can read the not-yet-recorded (default) "
                         "status" % (rel(f.short_loc(sid)), f.qname))
    # premises of the exemptions
    for f in funcs:
        for sid, n in f.stmts.items():
            if n["k"] == "CXXMemberCallExpr" and (n.get("callee") or "") == PM + "::cleanUp":
                rep.count("call sites of cleanUp")
                # dominated by the true edge of pid == 0
                okdom = []

                def el3(st, b, i, e):
                    if e.get("s") == sid:
                        okdom.append(st)
                    return (st,)

                def ed3(st, b, succ, pol):
                    if pol and b.cond is not None and re.match(r"^\(pid == 0\)$", f.text(b.cond)):
                        return (True,)
                    return (st,)
                forward(f, [False], el3, ed3)
                if okdom and all(okdom):
                    rep.ok("%s: cleanUp() is only reached in the forked child (pid == 0)" % rel(f.short_loc(sid)))
                else:
                    rep.fail("CLEANUP-IN-PARENT@%s" % f.qname, "%s: cleanUp() clears the process table without the lock outside "
                             "the forked child" % rel(f.short_loc(sid)))
    dt = [f for f in funcs if f.qname == PM + "::~ProcessManager"]
    if dt and any(n.get("callee") == "sigprocmask" for n in dt[0].stmts.values()):
        rep.ok("~ProcessManager blocks all signals before touching the process table")
    else:
        rep.fail("DTOR-SIGNALS@" + PM + "::~ProcessManager", "the destructor no longer blocks signals while iterating")

    # ----------------------------------------- R3 decision table of the decoder
    sp = [f for f in funcs if f.qname == PM + "::setProcessExitStatus"]
    if not sp:
        raise AnalysisBroken("setProcessExitStatus not found")
    f = sp[0]

    def atom(f_, s):
        n = f_.stmts[s]
        if n["k"] == "CallExpr" and n.get("callee") in DECODERS:
            return ({"processManager_wifexited": "exited", "processManager_wifsignaled": "signaled",
                     "processManager_wifstopped": "stopped"}.get(n["callee"]), False) \
                if n["callee"] != "processManager_wexitstatus" else None
        return None
    writes = []

    def el4(st, b, i, e):
        if "s" in e:
            sid = e["s"]
            n = f.stmts[sid]
            if n["k"] == "BinaryOperator" and n["op"] == "=":
                l, r = f.kids(sid)[:2]
                ln = f.stmts[f.strip(l)]
                if ln["k"] == "MemberExpr" and ln.get("member") in ("exitStatus", "exitValue", "isRunning"):
                    writes.append((ln["member"], f.text(r), dict(st), sid))
        return (st,)

    def ed4(st, b, succ, pol):
        fx = branch(f, b, pol, dict(st), atom)
        if fx is None:
            return ()
        return (tuple(sorted(fx.items())),)
    forward(f, [()], el4, ed4)
    seen = set()
    for mem, rhs, facts, sid in writes:
        rep.count("decoder table rows")
        good = False
        if mem == "exitStatus" and rhs == "true":
            good = facts.get("exited") is True
        elif mem == "exitStatus" and rhs == "false":
            good = facts.get("exited") is False and facts.get("signaled") is True
        elif mem == "exitValue" and "wexitstatus" in rhs:
            good = facts.get("exited") is True
        elif mem == "exitValue":
            good = facts.get("exited") is False and facts.get("signaled") is True
        elif mem == "isRunning" and rhs == "false":
            good = facts.get("exited") is True or facts.get("signaled") is True
        seen.add((mem, rhs if len(rhs) < 12 else "WEXITSTATUS"))
        if good:
            rep.ok("setProcessExitStatus: %s = %s under %s" % (mem, rhs[:40], facts), sample=True)
        else:
            rep.fail("DECISION-TABLE@setProcessExitStatus#%s=%s" % (mem, rhs[:30]),
                     "%s: %s = %s is reached under %s" % (rel(f.short_loc(sid)), mem, rhs, facts))
    for need in (("exitStatus", "true"), ("exitStatus", "false"), ("exitValue", "WEXITSTATUS"), ("isRunning", "false")):
        if need not in seen:
            rep.fail("DECISION-TABLE@setProcessExitStatus#missing-%s=%s" % need,
                     "setProcessExitStatus never performs %s = %s" % need)

    # ----------------------------------------------------------- R4 execute
    ex = [f for f in funcs if f.qname == PM + "::execute" and len(f.params) == 5]
    if not ex:
        raise AnalysisBroken("execute(directory, cmd, in, out, env) not found")
    f = ex[0]

    def atom5(f_, s):
        n = f_.stmts[s]
        if n["k"] == "MemberExpr" and n.get("member") == "exitStatus":
            return ("exitStatus", False)
        if n["k"] == "BinaryOperator" and n["op"] in ("!=", "=="):
            l, r = [f_.strip(x) for x in f_.kids(s)[:2]]
            ln, rn = f_.stmts[l], f_.stmts[r]
            if ln["k"] == "MemberExpr" and ln.get("member") == "exitValue" and rn["k"] == "IntegerLiteral" \
                    and rn["value"] == 0:
                return ("exitValueZero", n["op"] == "!=")
        return None

    # functions of ProcessManager whose body takes processesAccess (synchronise with the SIGCHLD handler)
    lockers = set()
    for g_ in funcs:
        if "processesAccess" in set(guard_decls(g_).values()):
            lockers.add(g_.qname)
    unsync = []

    def el5(st, b, i, e):
        facts, waited = st
        if "s" in e:
            n = f.stmts[e["s"]]
            if n["k"] == "CXXMemberCallExpr" and (n.get("callee") or "") == PM + "::wait":
                waited = "waited"
            elif n["k"] == "CXXMemberCallExpr" and (n.get("callee") or "") in lockers and waited:
                waited = "synced"
            elif n["k"] == "DeclStmt" and any(d.get("cls") in GUARDS for d in n["decls"]) and waited:
                waited = "synced"
            if n["k"] == "MemberExpr" and n.get("member") in ("exitStatus", "exitValue") and waited != "synced":
                unsync.append((e["s"], waited))
        return ((facts, waited),)

    def ed5(st, b, succ, pol):
        facts, waited = st
        fx = branch(f, b, pol, dict(facts), atom5)
        if fx is None:
            return ()
        return ((tuple(sorted(fx.items())), waited),)
    IN, _o = forward(f, [((), False)], el5, ed5)
    exits = IN.get(f.exit, set())
    if not exits:
        raise AnalysisBroken("execute has no normal exit")
    if unsync:
        sid_, w_ = unsync[0]
        rep.fail("STATUS-READ-UNSYNCHRONISED@" + PM + "::execute",
                 "%s: the exit status is read %s: when the SIGCHLD handler reaps the child in another thread, wait() returns on "
                 "ECHILD and only a later acquisition of processesAccess (held by the handler until the status is recorded) "
                 "orders this read after the handler's write" % (rel(f.short_loc(sid_)),
                 "before wait(pid)" if not w_ else "after wait(pid) but with no acquisition of processesAccess in between"))
    else:
        rep.ok("execute reads exitStatus/exitValue only after wait(pid) followed by an acquisition of processesAccess (%s)"
               % ", ".join(sorted(x.rsplit("::", 1)[-1] for x in lockers)))
    for facts, waited in exits:
        fx = dict(facts)
        rep.count("normal exits of execute")
        if fx.get("exitStatus") is True and fx.get("exitValueZero") is True and waited:
            rep.ok("execute returns normally only after wait(pid) with exitStatus && exitValue == EXIT_SUCCESS")
        else:
            rep.fail("EXECUTE-SUCCESS@" + PM + "::execute",
                     "execute can return normally with facts %s (waited=%s): a failing or signalled child is reported "
                     "as success" % (fx, waited))

    # -------------------------------------------- wait-macro wrappers (C unit)
    d2 = cfgdump([cc, ref], os.path.join(OUT, "C30", "dumpc"), funcs=r"^(processManager_|verif_ref_)",
                 flags_for=lambda u: (clang_c_flags(cc), os.path.dirname(cc)))
    byname = {}
    for u, d in d2.items():
        for fd in d["functions"]:
            ff = Func(fd, u)
            rets = [s for s, n in ff.stmts.items() if n["k"] == "ReturnStmt"]
            byname[ff.qname] = ff.text(ff.kids(rets[0])[0]) if rets else None
    for w, macro in DECODERS.items():
        refn = "verif_ref_" + macro
        if w not in byname:
            if w == "processManager_wtermsig":
                continue
            raise AnalysisBroken("wrapper %s not found" % w)
        rep.count("wait-macro wrappers compared")
        if byname[w] == byname.get(refn):
            rep.ok("%s expands to %s(status): %s" % (w, macro, byname[w]))
        else:
            rep.fail("WAIT-MACRO@%s" % w, "%s is '%s' but %s(status) is '%s'" % (w, byname[w], macro, byname.get(refn)))
    # ------------------------------------------- R7 HANDLER-MUTEX: no self-deadlock of the handler
    # a mutex taken by a function that runs as a signal handler is taken elsewhere only while signals are blocked in the calling
    # thread (sigprocmask/pthread_sigmask(SIG_BLOCK, all) ... (SIG_SETMASK, old)), directly or through a guard class whose
    # constructor blocks them before it locks: a SIGCHLD delivered to a thread that holds the mutex would otherwise block for ever on it

    def handler_mutex_rule(funcs, HANDLERS):
        def mutex_of(f_, sid):
            for x in f_.walk(sid):
                m = f_.stmts[x]
                if m["k"] == "DeclRefExpr" and "mutex" in (m.get("declType") or "") and m.get("globalStorage"):
                    return m.get("name")
            return None

        def ctor_blocks(cls):
            for g in funcs:
                if g.qname == "%s::%s" % (cls, cls.rsplit("::", 1)[-1]) and g.parent is None:
                    calls = sorted((x, m) for x, m in g.stmts.items() if m["k"] in ("CallExpr", "CXXMemberCallExpr"))
                    blk = [x for x, m in calls if (m.get("callee") or "") in ("sigprocmask", "pthread_sigmask")]
                    lck = [(x, mutex_of(g, m.get("obj") or x)) for x, m in calls if (m.get("callee") or "").endswith("mutex::lock")]
                    if blk and lck and min(blk) < lck[0][0]:
                        return lck[0][1]
            return None

        def lock_sites(f_):
            out = []
            for sid, n in f_.stmts.items():
                if n["k"] != "DeclStmt":
                    continue
                for d in n["decls"]:
                    ty = d.get("type") or ""
                    if re.search(r"(lock_guard|unique_lock|scoped_lock)<", ty) and "init" in d:
                        m = mutex_of(f_, d["init"])
                        if m:
                            out.append((sid, m, False))
                    elif "init" in d:
                        ce = f_.stmts.get(f_.strip(d["init"]))
                        if ce is not None and ce["k"] == "CXXConstructExpr":
                            m = ctor_blocks(ce.get("ctorClass") or "")
                            if m:
                                out.append((sid, m, True))
            return out
        hm = set()
        for f in funcs:
            if f.qname.split("(")[0] in HANDLERS or (f.parent is not None and any(f.qname.startswith(h) for h in HANDLERS)):
                hm |= set(m for _s, m, _b in lock_sites(f))
        if not hm:
            raise AnalysisBroken("the signal handlers of ProcessManager take no mutex any more: R7 has no instance")
        for f in funcs:
            if f.parent is not None or f.qname.split("(")[0] in HANDLERS or f.entry is None:
                continue
            ls = [(sid, m, b) for sid, m, b in lock_sites(f) if m in hm]
            if not ls:
                continue
            site = {sid: (m, b) for sid, m, b in ls}
            bad7 = []

            def el7(st, b, i, e):
                if "s" not in e:
                    return (st,)
                s_ = e["s"]
                n_ = f.stmts[s_]
                if n_["k"] == "CallExpr" and (n_.get("callee") or "") in ("sigprocmask", "pthread_sigmask") and n_.get("args"):
                    how = f.stmts[f.strip(n_["args"][0])]
                    v = how.get("value")
                    if v == 0:          # SIG_BLOCK
                        return (True,)
                    if v in (1, 2):     # SIG_UNBLOCK, SIG_SETMASK
                        return (False,)
                if s_ in site and not site[s_][1] and not st:
                    bad7.append(s_)
                return (st,)
            forward(f, (False,), el7)
            for sid, m, b in ls:
                rep.count("acquisitions of a handler mutex outside the handlers")
            if bad7:
                rep.fail("HANDLER-MUTEX@%s#%s" % (f.qname, site[bad7[0]][0]), "%s: %s locks %s, which the SIGCHLD handler also locks, without blocking signals first: "
                         "a SIGCHLD (of any child of any manager) delivered to this thread while it holds the mutex runs the handler, which blocks for "
                         "ever on the mutex its own thread holds - execute() never reports the status" % (rel(f.short_loc(bad7[0])), f.qname, site[bad7[0]][0]))
            else:
                rep.ok("%s takes %s only while signals are blocked" % (f.qname, ", ".join(sorted(set(m for _s, m, _b in ls)))))
    handler_mutex_rule(funcs, (PM + "::sigChildHandler", PM + "::terminateHandler"))
    # the dispatcher installed by sigaction for every signal: SignalManager::treatAction (it locks callbacksAccess in a closure)
    dsm = cfgdump([os.path.join(REPO, "src/System/SignalManager.cxx")], os.path.join(OUT, "C30", "dumpsm"), funcs=r"^tfel::system::", root=REPO)
    handler_mutex_rule(load_functions(dsm), ("tfel::system::SignalManager::treatAction",))
    # ------------------------------------------- R8 FD-CLOSED-ONCE: who closes the redirection descriptors when exec fails
    # premise: every caller of the createProcess overload that receives the descriptors (int* in / int* out) calls it in a try block
    # whose catch-all handler closes them; rule: that overload never closes them (closeProcessFiles, or close on in/out/ins/outs) on a
    # path that ends in a throw - the number would be closed twice, and between the two closes another thread may have been given it
    low = [f for f in funcs if f.qname == PM + "::createProcess" and f.parent is None and sum(1 for p_ in f.params if p_["type"].replace("const ", "").strip() in ("int *", "int *const")) >= 2]
    if len(low) != 1:
        raise AnalysisBroken("the createProcess overload taking the redirection descriptors was not identified (%d)" % len(low))
    g = low[0]
    ncs = 0
    for f in funcs:
        if f is g or f.parent is not None:
            continue
        pm_ = f.parent_map()
        for s_, n_ in f.stmts.items():
            if n_["k"] == "CXXMemberCallExpr" and (n_.get("callee") or "") == PM + "::createProcess" and len(n_.get("args") or []) == len(g.params):
                ncs += 1
                q, ok_ = s_, False
                while q in pm_:
                    q = pm_[q]
                    if f.stmts[q]["k"] == "CXXTryStmt":
                        for h in f.kids(q)[1:]:
                            if any(f.stmts[x]["k"] == "CallExpr" and (f.stmts[x].get("callee") or "") == "close" for x in f.walk(h)):
                                ok_ = True
                        break
                if ok_:
                    rep.ok("%s: the descriptors handed to createProcess are closed by the caller's handler when it throws" % rel(f.short_loc(s_)), sample=False)
                else:
                    rep.fail("FD-OWNER@%s" % f.qname, "%s: %s hands descriptors to createProcess outside a try block whose handler closes them: they leak "
                             "when the command cannot be executed" % (rel(f.short_loc(s_)), f.qname))
    rep.count("callers handing descriptors to createProcess", ncs)
    bad8 = []

    def el8(st, b, i, e):
        if "s" not in e:
            return (st,)
        n_ = g.stmts[e["s"]]
        if n_["k"] == "CXXMemberCallExpr" and (n_.get("callee") or "").endswith("::closeProcessFiles"):
            return (e["s"],)
        if n_["k"] == "CallExpr" and (n_.get("callee") or "") == "close" and n_.get("args"):
            t = g.text(g.strip(n_["args"][0]))
            if re.search(r"\b(in|out|ins|outs)\b", t):
                return (e["s"],)
        if n_["k"] == "CXXThrowExpr" and st is not None:
            bad8.append((e["s"], st))
        return (st,)
    forward(g, (None,), el8)
    if bad8:
        t_, c_ = bad8[0]
        rep.fail("FD-CLOSED-ONCE@%s" % g.qname, "%s: createProcess closes the redirection descriptors (%s) and then throws (%s): its callers close them "
                 "again in their handlers; between the two closes another thread may have been given the same number, and loses its file"
                 % (rel(g.short_loc(c_)), g.text(c_)[:60], rel(g.short_loc(t_))))
    else:
        rep.ok("createProcess does not close the caller's descriptors on the paths where it throws")
    # ------------------------------------------- R9 HANDLER-LIFETIME: a handler is not destroyed while the dispatcher may still call it
    # treatAction copies the handler pointers out of callBacks under callbacksAccess and calls them after the guard is gone; removeHandler
    # (called by ~ProcessManager in another thread) deletes the pointee: the two are only compatible if the copy shares ownership
    smf = load_functions(dsm)
    ta = [f for f in smf if f.qname.split("(")[0] == "tfel::system::SignalManager::treatAction" and f.parent is None]
    rh = [f for f in smf if f.qname.split("(")[0] == "tfel::system::SignalManager::removeHandler" and f.parent is None]
    if len(ta) != 1 or not rh:
        raise AnalysisBroken("SignalManager::treatAction / removeHandler not found")
    t_ = ta[0]
    calls_exec = [s_ for s_, n in t_.stmts.items() if n["k"] == "CXXMemberCallExpr" and (n.get("callee") or "").endswith("SignalHandler::execute")]
    guards_top = [d_ for n in t_.stmts.values() if n["k"] == "DeclStmt" for d_ in n["decls"] if re.search(r"(lock_guard|unique_lock|scoped_lock)<", d_.get("type") or "") or
                  (d_.get("cls") or "").endswith("CallbacksAccessGuard")]
    deletes = [s_ for g_ in rh for s_, n in g_.stmts.items() if n["k"] == "CXXDeleteExpr"]
    raw = any("SignalHandler *" in (n.get("t") or "") for n in t_.stmts.values())
    rep.count("handler invocations of the dispatcher", len(calls_exec))
    if calls_exec and not guards_top and deletes and raw:
        rep.fail("HANDLER-LIFETIME@tfel::system::SignalManager::treatAction", "%s: SignalManager::treatAction calls the handlers through raw pointers copied out of callBacks, "
                 "after callbacksAccess has been released, while removeHandler (%s) deletes the pointee: a SIGCHLD dispatched on one thread while another "
                 "worker destroys its ProcessManager calls a freed handler bound to a destroyed manager (tfel-check -j N crashes or hangs on checks that all pass)"
                 % (rel(t_.short_loc(calls_exec[0])), rel(rh[0].short_loc(deletes[0]))))
    else:
        rep.ok("the dispatcher does not call handlers that another thread may have deleted")
    rep.floor("handler invocations of the dispatcher", 1)
    rep.floor("callers handing descriptors to createProcess", 2)
    rep.floor("acquisitions of a handler mutex outside the handlers", 3)
    rep.floor("waitpid call sites", 3)
    rep.floor("uses of a waitpid status", 2)
    rep.floor("accesses to ProcessManager::processes", 8)
    rep.floor("decoder table rows", 5)
    rep.floor("call sites of setProcessExitStatus", 2)
    rep.floor("wait-macro wrappers compared", 4)
    rep.assumptions += [
        "the per-process fields isRunning/exitStatus/exitValue are written by the unique reaper (the caller whose waitpid "
        "returned the pid): with R1 a stale read of isRunning only leads to a tolerated ECHILD, so they are not in the lock set",
        "async-signal-safety of what the SIGCHLD handler calls (mutex, allocation, exceptions) is not decided beyond R7 (no self-deadlock on its mutex)",
        "glibc's <sys/wait.h> macros are the reference for the wrappers"]
    return rep


def clang_c_flags(cc):
    fl, _ = clang_flags(cc)
    return [x for x in fl if not x.startswith("-std=")]
