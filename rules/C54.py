"""C54 — mtest / ptest inputs never crash the driver: end-check discipline of the
token iterators (necessary condition: no dereference of an iterator that may
be the end of the token vector) + ownership.

 R1 TYPESTATE (lib/itstate.py) over the parser units of mtest/src and the
    tokenizer: a tokens_iterator is dereferenced only where it is known to
    differ from the end (branch, raise_if / throw_if, or a helper whose
    summary establishes it: checkNotEndOfLine, readSpecifiedToken ...);
    ++ / assignment / helpers that advance it reset that knowledge.  Keyword
    handlers are called through a table right after the keyword was consumed:
    their entry state is the dispatcher's state at the indirect call.
 R2 OWNERSHIP (lib/ownership.py) over the same units.
A file that ends in the middle of a construct must produce an error message,
not a read past the end of the token vector.
"""
import os, re
from common import *
from cfg import *
from itstate import Tracker
from ownership import check_ownership

RULE = ("typestate dataflow on the clang CFG: token iterators dereferenced only in state CHECKED; helper summaries "
        "computed from bodies; handler entry state = dispatcher state at the indirect call; ownership rule")
ITER = re.compile(r"__normal_iterator<const tfel::utilities::Token \*")


def rel(loc):
    return loc.replace(REPO + "/", "")


def units_for(tier):
    us = [u for u in units_under("mtest/src") if re.search(r"(Parser|Scheme|MTestMain|PipeTest|^MTest\.cxx$)", os.path.basename(u))]
    us += [os.path.join(REPO, "src/Utilities/CxxTokenizer.cxx")]
    return sorted(set(us))


def analyse_units(rep, units, funcs_re, member=None, check_increment=False, check_singular=False):
    d = cfgdump(units, os.path.join(OUT, rep.pid, "dump"), funcs=funcs_re, root=REPO)
    funcs = load_functions(d)
    # one definition per (qname, signature): headers are seen from several units
    uniq = {}
    for f in funcs:
        uniq.setdefault((f.qname, tuple(p["type"] for p in f.params), f.loc, f.parent is not None and f.display), f)
    funcs = list(uniq.values())
    rep.count("units analysed", len(units))
    rep.count("functions analysed", len(funcs))
    tr = Tracker(funcs, lambda t: bool(ITER.search(t or "")), member=member)
    tr.check_increment = check_increment
    tr.check_singular = check_singular
    tr.compute_summaries()
    nreq = sum(1 for k, s in tr.summ.items() for v, e in s.items() if e[0])
    nens = sum(1 for k, s in tr.summ.items() for v, e in s.items() if e[1] == "C")
    rep.count("summaries: parameters required CHECKED", nreq)
    rep.count("summaries: helpers establishing CHECKED", nens)
    found = []

    def report(kind, f, sid, var, why):
        found.append((f, sid, var, why))
    nderef = 0
    for f in funcs:
        if f.parent is not None:
            continue
        has = any(n["k"] == "CXXOperatorCallExpr" and n.get("op") in ("*", "->") and tr.var_of(f, n["args"][0]) is not None
                  for n in f.stmts.values() if n.get("args"))
        if not has and not tr.tracked_params(f):
            continue
        nderef += sum(1 for n in f.stmts.values() if n["k"] == "CXXOperatorCallExpr" and n.get("op") in ("*", "->")
                      and n.get("args") and tr.var_of(f, n["args"][0]) is not None)
        try:
            tr.analyse(f, report=report)
        except RuntimeError as e:
            raise AnalysisBroken("%s: %s" % (f.qname, e))
    rep.count("iterator dereference sites", nderef)
    # handlers: address-taken methods
    taken = set()
    for f in funcs:
        for s, n in f.stmts.items():
            if n["k"] == "UnaryOperator" and n.get("op") == "&":
                k = f.stmts[f.strip(f.kids(s)[0])]
                if k["k"] == "DeclRefExpr" and k.get("declKind") == "CXXMethod":
                    taken.add(k["qname"])
    rep.count("handlers registered in tables", len(taken))
    unchecked_sites = [(f, sid, i) for f, sid, i, ok in tr.indirect if not ok]
    for f in funcs:
        if f.qname not in taken or f.parent is not None:
            continue
        summ = tr.summ.get(tr.key(f), {})
        for v, ent in summ.items():
            req = ent[0]
            if req and v == "M" and member is not None:
                found.append((f, f.body, member, "dereferenced by the keyword handler before any end check: the dispatcher advances it past the "
                              "keyword and calls the handler at once, so a file that ends with the keyword is read past its end"))
            if req and v != "M":
                # is there a dispatcher that calls handlers with an unchecked iterator?
                disp = [(g, s_) for g, s_, i in unchecked_sites if g.cls == f.cls or True]
                if disp:
                    g, s_ = disp[0]
                    found.append((f, f.body, [p["name"] for p in f.params if p["declId"] == v][0],
                                  "dereferenced by the handler before any end check, while the dispatcher %s calls its handlers "
                                  "with an iterator it has just advanced (%s)" % (g.qname, rel(g.short_loc(s_)))))
    return funcs, found


RECURSION_EXCEPTIONS = {
    "mtest::OxidationStatusEvolution::operator()": "evaluates the evolution registered under the fixed name 'r' by PipeTest itself (a constant "
                                                   "evolution that an input file cannot redefine: addEvolution refuses an existing name); it cannot be part of a cycle",
}


def recursion_rule(rep):
    """BOUNDED-RECURSION: a method of an evolution class that calls the method of the same name on another evolution taken from the
    evolution manager recurses through user data (an evolution may name itself, directly or through others: the input decides).
    Such a method must hold a re-entrancy guard while it does so: a local object whose constructor tests a boolean member of *this
    (raising when it is set) and sets it, constructed before the recursive call; otherwise a cyclic definition in the input file
    exhausts the stack."""
    us = [u for u in units_under("mtest/src") if re.search(r"Evolution", os.path.basename(u))]
    d = cfgdump(us, os.path.join(OUT, "C54", "evol"), funcs=r"^mtest::", root=os.path.join(REPO, "mtest"))
    funcs = load_functions(d)
    byq = {}
    for f in funcs:
        if f.parent is None:
            byq.setdefault(f.qname, []).append(f)
    n_ = 0
    for f in funcs:
        if f.parent is not None or f.cls is None or f.entry is None:
            continue
        me = f.qname.rsplit("::", 1)[-1]
        rec = []
        for s_, n in sorted(f.stmts.items()):
            if n["k"] in ("CXXMemberCallExpr", "CXXOperatorCallExpr") and n.get("virtual") and (n.get("callee") or "").rsplit("::", 1)[-1] == me:
                obj = n.get("obj") if n["k"] == "CXXMemberCallExpr" else (n.get("args") or [None])[0]
                o = f.stmts.get(f.strip(obj)) if obj is not None else None
                if o is not None and o["k"] == "CXXThisExpr":
                    continue
                rec.append(s_)
        if not rec:
            continue
        if f.qname in RECURSION_EXCEPTIONS:
            rep.ok("%s: %s" % (f.qname, RECURSION_EXCEPTIONS[f.qname]))
            continue
        n_ += 1
        # a guard: local of class type constructed from a member of *this; its constructor raises when the flag is set and sets it
        guarded = False
        for s_, n in sorted(f.stmts.items()):
            if n["k"] != "DeclStmt" or s_ > min(rec):
                continue
            for dd in n["decls"]:
                if "init" not in dd:
                    continue
                ce = f.stmts.get(f.strip(dd["init"]))
                if ce is None or ce["k"] != "CXXConstructExpr" or not ce.get("args"):
                    continue
                a0 = f.stmts.get(f.strip(ce["args"][0]))
                if a0 is None or a0["k"] != "MemberExpr" or "bool" not in (a0.get("fieldType") or ""):
                    continue
                for g in byq.get(ce.get("callee") or "", []):
                    tests = any(m_["k"] == "CallExpr" and (m_.get("callee") or "").endswith("raise_if") for m_ in g.stmts.values()) or \
                        any(m_["k"] == "CXXThrowExpr" for m_ in g.stmts.values())
                    sets = any(m_["k"] == "BinaryOperator" and m_.get("op") == "=" and
                               any(g.stmts[x]["k"] == "CXXBoolLiteralExpr" and str(g.stmts[x].get("value")).lower() in ("true", "1")
                                   for x in g.walk(g.kids(y)[1])) for y, m_ in g.stmts.items())
                    if tests and sets:
                        guarded = True
        if guarded:
            rep.ok("%s recurses through the evolution manager under a re-entrancy guard" % f.qname)
        else:
            rep.fail("BOUNDED-RECURSION@%s" % f.qname, "%s: %s calls %s on an evolution taken from the evolution manager without a re-entrancy guard: "
                     "an input file in which an evolution depends on itself (e.g. @Evolution<function> 'x' 't*x';) recurses until the stack "
                     "is exhausted" % (rel(f.short_loc(rec[0])), f.qname, me))
    rep.count("methods recursing through the evolution manager", n_)
    rep.floor("methods recursing through the evolution manager", 2)


SMART = re.compile(r"^(const )?std::(shared_ptr|unique_ptr)<")


def smart_pointer_rule(rep, funcs, scope_re=r"::(set|handle|add|register)[A-Z]\w*$", accepted=None, what="mtest"):
    """NULL-GUARD (contradiction rule): a smart-pointer *member* that the code itself treats as possibly null - it is compared with nullptr
    or reset somewhere in the analysed functions - is dereferenced only where it is known not to be null on the path: after
    raise_if(p == nullptr, ...), inside 'if (p != nullptr)' / 'if (p)', or after an assignment of a new object.  Keyword handlers run in
    any order the input file chooses, so a member set by one keyword is not known to be set when another one runs."""
    def ptr_path(f, sid):
        s_ = f.strip(sid)
        n = f.stmts.get(s_)
        if n is not None and n["k"] == "MemberExpr" and SMART.match(n.get("fieldType") or ""):
            return f.path(s_)
        return None

    def null_lit(f, sid):
        n = f.stmts.get(f.strip(sid))
        return n is not None and n["k"] in ("CXXNullPtrLiteralExpr", "GNUNullExpr")
    maybe_null = set()
    for f in funcs:
        for s_, n in f.stmts.items():
            bo = f.binop(s_)
            if bo and bo[0] in ("==", "!="):
                for a, b in ((bo[1], bo[2]), (bo[2], bo[1])):
                    p = ptr_path(f, a)
                    if p and null_lit(f, b):
                        maybe_null.add(p.rsplit(".", 1)[-1].replace("this->", ""))
            if n["k"] == "CXXMemberCallExpr" and (n.get("callee") or "").endswith("::reset") and not n.get("args") and n.get("obj") is not None:
                p = ptr_path(f, n["obj"])
                if p:
                    maybe_null.add(p.rsplit(".", 1)[-1].replace("this->", ""))
    rep.count("smart-pointer members treated as possibly null", len(maybe_null))
    nd = 0
    for f in funcs:
        if f.entry is None or f.parent is not None:
            continue
        # the parsing phase only: setters and keyword handlers, which an input file calls in the order it likes; the functions of the
        # resolution run after completeInitialisation has validated the scheme and are not concerned
        if not re.search(scope_re, f.qname.split("(")[0]):
            continue
        sites = {}
        for s_, n in f.stmts.items():
            if n["k"] == "CXXOperatorCallExpr" and n.get("op") in ("->", "*") and n.get("args"):
                p = ptr_path(f, n["args"][0])
                if p and p.rsplit(".", 1)[-1].replace("this->", "") in maybe_null:
                    sites[s_] = p
        if not sites:
            continue
        nd += len(sites)

        def atom(f_, s):
            bo = f_.binop(s)
            if bo and bo[0] in ("==", "!="):
                for a, b in ((bo[1], bo[2]), (bo[2], bo[1])):
                    p = ptr_path(f_, a)
                    if p and null_lit(f_, b):
                        return (("null", p), bo[0] == "!=")
            n_ = f_.stmts.get(s)
            if n_ is not None and n_["k"] == "CXXMemberCallExpr" and (n_.get("callee") or "").endswith("operator bool") and n_.get("obj") is not None:
                p = ptr_path(f_, n_["obj"])
                if p:
                    return (("null", p), True)
            return None
        bad = {}

        def el(st, b, i, e):
            if "s" not in e:
                return (st,)
            s_ = e["s"]
            n = f.stmts[s_]
            fx = dict(st)
            if n["k"] == "CallExpr" and (n.get("callee") or "").split("<")[0].endswith("raise_if") and n.get("args"):
                if eval3(f, n["args"][0], fx, atom) is True:
                    return ()
                return (tuple(sorted(refine(f, f.strip(n["args"][0]), False, fx, atom).items(), key=repr)),)
            if n["k"] == "CXXOperatorCallExpr" and n.get("op") == "=" and n.get("args"):
                p = ptr_path(f, n["args"][0])
                if p:
                    fx[("null", p)] = bool(null_lit(f, n["args"][1])) if null_lit(f, n["args"][1]) else False
                    return (tuple(sorted(fx.items(), key=repr)),)
            if n["k"] == "CXXMemberCallExpr" and (n.get("callee") or "").endswith("::reset") and n.get("obj") is not None:
                p = ptr_path(f, n["obj"])
                if p:
                    fx[("null", p)] = not n.get("args")
                    return (tuple(sorted(fx.items(), key=repr)),)
            if s_ in sites and fx.get(("null", sites[s_])) is not False:
                bad.setdefault(sites[s_], s_)
            return (st,)

        def ed(st, b, succ, pol):
            fx = branch(f, b, pol, dict(st), atom)
            return () if fx is None else (tuple(sorted(fx.items(), key=repr)),)
        forward(f, ((),), el, ed)
        for p, s_ in sorted(bad.items()):
            key = "NULL-GUARD@%s#%s" % (f.qname.split("(")[0], p)
            if key in (accepted if accepted is not None else NULL_ACCEPTED):
                rep.ok("accepted %s: %s" % (key, (accepted if accepted is not None else NULL_ACCEPTED)[key]))
                continue
            rep.fail(key, "%s: %s dereferences '%s' on a path where it may be null (the member is compared with nullptr or reset elsewhere, and the "
                     "keywords of an input file come in any order): a null dereference kills %s with SIGSEGV" % (rel(f.short_loc(s_)), f.qname.split("(")[0], p, what))
        for p in set(sites.values()) - set(bad):
            rep.ok("%s: '%s' is dereferenced only where it is known not to be null" % (f.qname.split("(")[0], p), sample=False)
    rep.count("dereferences of possibly-null smart-pointer members", nd)


NULL_ACCEPTED = {
    "NULL-GUARD@mtest::MTest::setGradientsInitialValues#this->b": "reached from an input file only through MTestParser::handleStrain (and its aliases), which calls getBehaviourType() first: it raises 'no behaviour defined' (replayed: '@Strain {...};' alone exits with that message); the python API can still call it on a scheme without behaviour",
    "NULL-GUARD@mtest::MTest::setThermodynamicForcesInitialValues#this->b": "same as setGradientsInitialValues (handleStress calls getBehaviour() first; replayed)",
}


def erase_rule(rep, funcs):
    """ERASE-THEN-USE: after 'c.erase(it)' whose result is not assigned back to 'it', the local iterator 'it' is invalid: it is neither
    incremented, dereferenced nor compared before it is assigned again (maps and vectors alike)."""
    ns = 0
    for f in funcs:
        if f.entry is None or f.parent is not None:
            continue
        pm = None
        sites = {}
        for s_, n in f.stmts.items():
            if n["k"] == "CXXMemberCallExpr" and (n.get("callee") or "").endswith("::erase") and len(n.get("args") or []) == 1:
                a = f.stmts.get(f.strip(n["args"][0]))
                if a is not None and a["k"] == "DeclRefExpr" and a.get("local") and "iterator" in (a.get("declType") or ""):
                    pm = pm or f.parent_map()
                    q, assigned = s_, False
                    for _ in range(4):
                        q = pm.get(q)
                        if q is None:
                            break
                        bo = f.binop(q)
                        if bo and bo[0] == "=":
                            l = f.stmts.get(f.strip(bo[1]))
                            assigned = l is not None and l["k"] == "DeclRefExpr" and l.get("declId") == a.get("declId")
                            break
                    if not assigned:
                        sites[s_] = (a["declId"], a["name"])
        if not sites:
            continue
        ns += len(sites)
        pm = pm or f.parent_map()
        bad = []

        def lhs_of_assignment(s_):
            q = pm.get(s_)
            while q is not None and f.stmts[q]["k"] in ("ImplicitCastExpr", "ParenExpr"):
                s_, q = q, pm.get(q)
            if q is None:
                return False
            bo = f.binop(q)
            return bool(bo and bo[0] == "=" and f.strip(bo[1]) == f.strip(s_))

        def el(st, b, i, e):
            if "s" not in e:
                return (st,)
            s_ = e["s"]
            n = f.stmts[s_]
            if s_ in sites:
                return (st | frozenset([sites[s_][0]]),)
            if n["k"] == "DeclRefExpr" and n.get("declId") in st:
                if lhs_of_assignment(s_):
                    return (st - frozenset([n["declId"]]),)
                bad.append((s_, n.get("name")))
                return (st - frozenset([n["declId"]]),)
            return (st,)
        forward(f, (frozenset(),), el)
        if bad:
            s_, nm = bad[0]
            rep.fail("ERASE-THEN-USE@%s#%s" % (f.qname.split("(")[0], nm), "%s: in %s the iterator '%s' is used after 'erase(%s)' whose result was not assigned "
                     "back to it: it designates a freed node (SIGSEGV as soon as an element is erased)" % (rel(f.short_loc(s_)), f.qname.split("(")[0], nm, nm))
        else:
            rep.ok("%s: iterators passed to erase() are not used again before being assigned" % f.qname.split("(")[0], sample=False)
    rep.count("erase(iterator) calls whose result is not assigned back", ns)


def unsigned_reader_rule(rep, funcs):
    """UNSIGNED-READER: a function of the analysed units that extracts an unsigned int from a stream built on a token ('is >> res') tests
    the text for a minus sign first (the extraction accepts '-1' and wraps to 4294967295: an interval count, a size) and tests that the
    whole token was consumed (eof())."""
    n_ = 0
    for f in funcs:
        if f.parent is not None:
            continue
        ext = [s_ for s_, n in f.stmts.items() if n["k"] == "CXXOperatorCallExpr" and n.get("op") == ">>" and len(n.get("args", [])) == 2
               and re.match(r"^(const )?unsigned int$", (f.stmts.get(f.strip(n["args"][1])) or {}).get("declType") or "")]
        if not ext:
            continue
        n_ += 1
        minus = any(n["k"] == "CharacterLiteral" and n.get("value") == ord("-") for g in [f] + [x for x in funcs if x.parent == f.id and x.unit == f.unit] for n in g.stmts.values())
        eof = any(n["k"] == "CXXMemberCallExpr" and (n.get("callee") or "").endswith("::eof") for n in f.stmts.values())
        if minus and eof:
            rep.ok("%s rejects a minus sign and a partly read token before it returns an unsigned int" % f.qname.split("(")[0])
        else:
            rep.fail("UNSIGNED-READER@%s" % f.qname.split("(")[0], "%s: %s extracts an unsigned int from the text of a token %s: '-1' is accepted and wraps to "
                     "4294967295 (an interval count of @Times: gigabytes of memory and minutes of run time for a one-line input)"
                     % (rel(f.short_loc(ext[0])), f.qname.split("(")[0], "without testing it for a minus sign" if not minus else "without testing that it was read entirely"))
    rep.count("functions extracting an unsigned int from a token", n_)
    rep.floor("functions extracting an unsigned int from a token", 1)


def main_catches_rule(rep):
    """MAIN-CATCHES: errors of the input file are reported by exceptions; in the compiled configuration main calls MTestMain::execute inside a
    try block with handlers, so that an invalid file ends in a failure status and not in std::terminate (SIGABRT)."""
    d = cfgdump([os.path.join(REPO, "mtest/src/MTestMain.cxx")], os.path.join(OUT, "C54", "dumpmain"), funcs=r"^main$", root=REPO)
    ms = [f for f in load_functions(d) if f.qname == "main" and f.parent is None]
    if len(ms) != 1:
        raise AnalysisBroken("main of mtest not found")
    m = ms[0]
    sites = [s_ for s_, n in m.stmts.items() if n["k"] == "CXXMemberCallExpr" and (n.get("callee") or "").endswith("MTestMain::execute")]
    if not sites:
        raise AnalysisBroken("main of mtest: the call of MTestMain::execute was not found")
    pm = m.parent_map()
    for s_ in sites:
        rep.count("calls of MTestMain::execute in main")
        q, ok = s_, False
        while q in pm:
            c = q
            q = pm[q]
            if m.stmts[q]["k"] == "CXXTryStmt" and m.kids(q) and m.kids(q)[0] == c and len(m.kids(q)) >= 2:
                ok = True
        if ok:
            rep.ok("main of mtest runs MTestMain::execute in a try block")
        else:
            rep.fail("MAIN-CATCHES@mtest main", "%s: main of mtest calls MTestMain::execute outside any try block (in the configuration that is compiled): "
                     "every error reported by an exception - any invalid input file - ends in std::terminate and mtest is killed by SIGABRT instead "
                     "of exiting with a failure status" % rel(m.short_loc(s_)))


def run(tier):
    rep = Report("C54", tier, "other", RULE)
    recursion_rule(rep)
    units = units_for(tier)
    funcs, found = analyse_units(rep, units, r"^(mtest::|tfel::utilities::CxxTokenizer)", check_increment=True)
    seen = set()
    for f, sid, var, why in found:
        if not f.qname.startswith("mtest::"):
            continue        # the tokenizer's own local iterators belong to C35; its helpers reach mtest through summaries
        loc = rel(f.short_loc(sid)) if sid in f.stmts else rel(f.loc)
        if why.startswith("assigned to"):
            key = "SINGULAR-ITERATOR@%s#%s" % (f.qname, var)
            if key not in seen:
                seen.add(key)
                rep.fail(key, "%s: in %s the iterator '%s', declared without a value, is %s: the parser then continues from a singular iterator "
                         "(the next read is a null or wild dereference)" % (loc, f.qname, var, why))
            continue
        if why == "incremented":
            # UNCHECKED-INCREMENT: '++p' where p may already be the end (typically after a helper that consumed a token): the iterator
            # goes past end(), the next 'p == end' test does not fire and the following read is out of the vector
            key = "UNCHECKED-INCREMENT@%s#%s" % (f.qname, var)
            if key not in seen:
                seen.add(key)
                rep.fail(key, "%s: in %s the token iterator '%s' is incremented on a path where it may already be the end of the token vector "
                         "(a helper has just consumed a token): it moves past end(), later end tests do not fire and the next read is out of "
                         "the vector" % (loc, f.qname, var))
            continue
        key = "UNCHECKED-DEREF@%s#%s" % (f.qname, var)
        if key in seen:
            continue
        seen.add(key)
        rep.fail(key, "%s: in %s the token iterator '%s' is %s on a path where it may be the end of the token vector (an input that "
                 "stops there reads past the end instead of raising)" % (loc, f.qname, var, why))
    n = rep.analysed.get("iterator dereference sites", 0)
    for _ in range(max(0, n - len(seen))):
        rep.ok("dereference in state CHECKED", sample=False)
    check_ownership(rep, funcs, rel)
    import borrow
    borrow.rule(rep, funcs, lambda t: bool(ITER.search(t or "")), rel, 0)
    smart_pointer_rule(rep, funcs)
    erase_rule(rep, funcs)
    main_catches_rule(rep)
    unsigned_reader_rule(rep, funcs)
    import progress
    progress.rule(rep, funcs, rel, {})
    more = [u for u in units_under("mtest/src") if u not in units] if tier == "thorough" else []
    more += units_under("src/Utilities")
    if tier == "thorough":
        more += [u for u in units_under("src/Math") if re.search(r"(Evaluator|Parser|parser)", u)]
    progress.scan(rep, sorted(set(more)), r"^(mtest|tfel)::", rel, {}, "libraries")
    rep.floor("loops examined for progress", 30)
    rep.floor("iterator dereference sites", 150)
    rep.floor("summaries: helpers establishing CHECKED", 2)
    rep.assumptions += ["a necessary condition only: other sources of undefined behaviour and termination are not decided",
                        "iterators compared with any expression of iterator type are taken to be compared with the end of their sequence",
                        "public entry points are analysed with their iterator parameters as given by their in-tree callers"]
    return rep
