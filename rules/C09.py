"""C09 — scalar Newton-bisection root finder: soundness, budget and bracket
discipline decided on the clang CFG (instantiation in drivers/c08_solvers.cxx
with opaque function, derivative and criterion).

 R1 every return of scalarNewtonRaphson carries, as first tuple element, the
    literal false or the variable 'converged'; 'converged' is only defined as
    false or as a conjunction that contains isfinite(x), isfinite(fv) and the
    user criterion c(fv, dx, x, i) evaluated on the *current* x and fv;
 R2 at that definition fv is synchronised with x: on every path, after the
    last write to x that is not undone by a save/restore pair (xold = x ...
    x = xold), fv was reassigned from f(x);
 R3 budget: i is written only by ++i; every ++i happens where i != p.im is
    known; the function returns before any evaluation when i >= p.im;
 R4 every evaluation f(x) inside the loop is immediately preceded by
    b.iterate(x) with no write to x in between (bracket confinement of every
    evaluated estimate);
 R5 BissectionAlgorithmBase decision tables (all paths, three-valued facts):
    iterate(x) calls getNextRootEstimate(x) whenever the bracket is valid and x
    is non-finite or outside it; getNextRootEstimate returns false exactly on
    an invalid bracket and, on its true paths, leaves in x either the midpoint
    or the secant value tested to be inside [xmin, xmax]; updateBounds ignores
    non-finite arguments and, once a sign-changing bracket exists, only moves
    a bound to a point strictly inside it.
"""
import os, re
from common import *
from cfg import *

RULE = ("typestate automata with three-valued branch facts over scalarNewtonRaphson (success definition, fv/x "
        "synchronisation, budget, iterate-before-evaluate) and decision tables of BissectionAlgorithmBase")


def rel(loc):
    return loc.replace(REPO + "/", "")


def run(tier):
    rep = Report("C09", tier, "other", RULE)
    drv = os.path.join(VERIF, "drivers", "c08_solvers.cxx")
    d = cfgdump([drv], os.path.join(OUT, "C09", "dump"), funcs=r"^tfel::math::(scalarNewtonRaphson|BissectionAlgorithmBase)",
                flags_for=lambda u: (header_flags(), VERIF))
    funcs = load_functions(d)
    kids = children_of(funcs)
    snr = [f for f in funcs if f.qname == "tfel::math::scalarNewtonRaphson" and len(f.params) == 3]
    if not snr:
        raise AnalysisBroken("scalarNewtonRaphson(f, c, p) not instantiated")
    f = snr[0]
    rep.count("functions analysed", len(funcs))
    # ---- variables by role
    P = {p["name"]: p["declId"] for p in f.params}
    if sorted(P) != ["c", "f", "p"]:
        raise AnalysisBroken("parameters of scalarNewtonRaphson changed: %s" % sorted(P))
    loc = {}
    for s, n in f.stmts.items():
        if n["k"] == "DeclStmt":
            for dd in n["decls"]:
                if dd.get("name"):
                    loc.setdefault(dd["name"], dd["declId"])
    for need in ("i", "x", "b", "dx", "converged"):
        if need not in loc:
            raise AnalysisBroken("local '%s' of scalarNewtonRaphson not found (roles must be re-confirmed)" % need)
    # fv / dfv are structured bindings
    def is_var(sid, name):
        n = f.stmts[f.strip(sid)]
        return n["k"] == "DeclRefExpr" and n.get("name") == name

    def writes_x(sid):
        """does statement sid write x (assignment, compound assignment, or passing x by non-const reference)?"""
        n = f.stmts[sid]
        if n["k"] in ("BinaryOperator", "CompoundAssignOperator") and n["op"] in ("=", "+=", "-=", "*=", "/=") \
                and is_var(f.kids(sid)[0], "x"):
            return "assign"
        if n["k"] == "CXXMemberCallExpr":
            pts = n.get("calleeParamTypesW") or []
            for a, t in zip(n.get("args", []), pts):
                if is_var(a, "x") and t.endswith("&") and not t.startswith("const"):
                    return "ref:" + (n.get("callee") or "").rsplit("::", 1)[-1]
        return None

    def is_feval(sid):
        """call of the user function f on x (or p.x0 / bounds)."""
        n = f.stmts[sid]
        if n["k"] == "CXXOperatorCallExpr" and n.get("op") == "()" and n.get("args"):
            a0 = f.stmts[f.strip(n["args"][0])]
            if a0["k"] == "DeclRefExpr" and a0.get("declId") == P["f"]:
                return f.text(n["args"][1])
        return None

    def assigns(sid, name):
        n = f.stmts[sid]
        if n["k"] == "BinaryOperator" and n["op"] == "=" and is_var(f.kids(sid)[0], name):
            return f.kids(sid)[1]
        return None

    # ---- R1: returns and definition of converged
    conv_defs = []
    for s, n in f.stmts.items():
        if n["k"] == "DeclStmt":
            for dd in n["decls"]:
                if dd.get("name") == "converged" and "init" in dd:
                    conv_defs.append((s, dd["init"]))
        r = assigns(s, "converged")
        if r is not None:
            conv_defs.append((s, r))
    main_defs = []
    for s, e in conv_defs:
        en = f.stmts[f.strip(e)]
        rep.count("definitions of converged")
        if en["k"] == "CXXBoolLiteralExpr" and en["value"] is False:
            rep.ok("%s: converged = false" % rel(f.short_loc(s)), sample=False)
            continue
        # flatten the conjunction
        conj = []

        def flat(x):
            x = f.strip(x)
            bo = f.binop(x)
            if bo and bo[0] == "&&":
                flat(bo[1])
                flat(bo[2])
            else:
                conj.append(x)
        flat(e)
        txt = [f.text(x).replace(" ", "") for x in conj]
        need = {"isfinite(x)": any(re.search(r"isfinite\(x\)$", t) for t in txt),
                "isfinite(fv)": any(re.search(r"isfinite\(fv\)$", t) for t in txt),
                "c(fv,dx,x,i)": any(t == "c(fv,dx,x,i)" for t in txt)}
        miss = [k for k, v in need.items() if not v]
        if miss:
            rep.fail("SUCCESS-DEFINITION@scalarNewtonRaphson", "%s: 'converged' is defined as %s, which does not require %s"
                     % (rel(f.short_loc(s)), f.text(e), ", ".join(miss)))
        else:
            rep.ok("%s: converged = ... && isfinite(x) && isfinite(fv) && c(fv, dx, x, i)" % rel(f.short_loc(s)))
            main_defs.append(s)
    for s, n in f.stmts.items():
        if n["k"] != "ReturnStmt":
            continue
        rep.count("return statements")
        call = [x for x in f.walk(s) if f.stmts[x]["k"] == "CallExpr" and (f.stmts[x].get("callee") or "").endswith("make_tuple")]
        first = None
        if call:
            first = f.strip(f.stmts[call[0]]["args"][0])
        else:
            il = [x for x in f.walk(s) if f.stmts[x]["k"] in ("InitListExpr", "CXXConstructExpr") and f.stmts[x].get("args", f.kids(x))]
            if il:
                a = f.stmts[il[0]].get("args") or f.kids(il[0])
                first = f.strip(a[0])
        if first is None:
            raise AnalysisBroken("return at %s is not make_tuple(...)/{...}" % f.short_loc(s))
        fn = f.stmts[first]
        if (fn["k"] == "CXXBoolLiteralExpr" and fn["value"] is False) or (fn["k"] == "DeclRefExpr" and fn.get("name") == "converged"):
            rep.ok("%s: returns %s as status" % (rel(f.short_loc(s)), f.text(first)), sample=False)
        else:
            rep.fail("SUCCESS-RETURN@scalarNewtonRaphson", "%s: the status returned is %s, neither false nor 'converged'"
                     % (rel(f.short_loc(s)), f.text(first)))
    # ---- R2 / R4 : synchronisation of fv with x, iterate before evaluate
    # state: (sync, saved, rvalid, iterated)
    #  sync    : fv == f(x) for the current x
    #  saved   : sync state captured by 'xold = x' (None if no pending save)
    #  rvalid  : local 'r' holds f(x) for the current x
    #  iterated: b.iterate(x) was called since the last write to x
    r2bad, r4bad = [], []
    in_loop = set()
    loops = [s for s, n in f.stmts.items() if n["k"] == "WhileStmt"]
    if len(loops) != 1:
        raise AnalysisBroken("scalarNewtonRaphson: %d while loops" % len(loops))
    in_loop = set(f.walk(f.kids(loops[0])[-1]))

    def el(st, b, i, e):
        sync, saved, rvalid, iterated = st
        if "s" not in e:
            return (st,)
        s = e["s"]
        n = f.stmts[s]
        if n["k"] == "DeclStmt":
            for dd in n["decls"]:
                if dd.get("declKind") == "Decomposition" or (dd.get("name") == "" and "init" in dd):
                    arg = None
                    for x in f.walk(dd.get("init", -1)) if dd.get("init") else []:
                        a = is_feval(x)
                        if a is not None:
                            arg = a
                    if arg is not None:
                        sync = arg.replace(" ", "") in ("x", "p.x0")     # x == p.x0 at this point
                if dd.get("name") == "xold" and "init" in dd and is_var(dd["init"], "x"):
                    saved = sync
                if dd.get("name") == "r" and "init" in dd:
                    rvalid = False
                    for x in f.walk(dd["init"]):
                        if is_feval(x) == "x":
                            rvalid = True
        w = writes_x(s)
        if w:
            # restore of a saved value?
            r = assigns(s, "x")
            if r is not None and is_var(r, "xold") and saved is not None:
                sync, saved = saved, None
            else:
                sync = False
            rvalid = False
            iterated = (w == "ref:iterate")
        a = is_feval(s)
        if a is not None and s in in_loop:
            if a == "x" and not iterated:
                r4bad.append(s)
        r = assigns(s, "fv")
        if r is not None:
            t = f.text(r).replace(" ", "")
            sync = rvalid and t in ("std::get(r)", "get(r)", "std::get<0>(r)") or (rvalid and "get" in t and "(r)" in t)
        if s in main_defs and not sync:
            r2bad.append(s)
        return ((sync, saved, rvalid, iterated),)
    forward(f, [(False, None, False, False)], el)
    if r2bad:
        rep.fail("STALE-VALUE@scalarNewtonRaphson", "%s: convergence is decided with a function value fv that was not evaluated at the "
                 "current x on some path (x written after the last fv = f(x))" % rel(f.short_loc(r2bad[0])))
    elif main_defs:
        rep.ok("the criterion is evaluated with fv = f(x) at the current x on every path (save/restore of x recognised)")
    nev = len([s for s in in_loop if is_feval(s) == "x"])
    rep.count("evaluations f(x) in the loop", nev)
    if r4bad:
        rep.fail("EVALUATE-OUTSIDE-BRACKET@scalarNewtonRaphson", "%s: f(x) is evaluated without b.iterate(x) after the last write "
                 "to x: the estimate may lie outside a valid bracket" % rel(f.short_loc(r4bad[0])))
    elif nev:
        rep.ok("every f(x) in the loop is preceded by b.iterate(x) with no write to x in between (%d sites)" % nev)
    # ---- R3 budget
    incs = [s for s, n in f.stmts.items() if n["k"] == "UnaryOperator" and n["op"] in ("++", "--") and is_var(f.kids(s)[0], "i")]
    other = [s for s, n in f.stmts.items() if n["k"] in ("BinaryOperator", "CompoundAssignOperator")
             and n["op"] in ("=", "+=", "-=") and is_var(f.kids(s)[0], "i")]
    for s in other:
        rep.fail("BUDGET@scalarNewtonRaphson#write", "%s: the iteration counter is written by %s" % (rel(f.short_loc(s)), f.text(s)))

    def atom3(f_, s):
        bo = f_.binop(s)
        if bo and bo[0] in ("==", "!=", ">=", "<"):
            l, r = f_.text(bo[1]).replace(" ", ""), f_.text(bo[2]).replace(" ", "")
            if (l, r) == ("i", "p.im"):
                if bo[0] in ("==", "!="):
                    return ("i==im", bo[0] == "!=")
                return ("i>=im", bo[0] == "<")
        return None
    bad3, evalbad = [], []

    def el3(st, b, i, e):
        fx = dict(st)
        if "s" not in e:
            return (st,)
        s = e["s"]
        if s in incs:
            if not (fx.get("i==im") is False or fx.get("i>=im") is False):
                bad3.append(s)
            fx.pop("i==im", None)
            fx.pop("i>=im", None)
        if is_feval(s) is not None and fx.get("i>=im") is not False and fx.get("i==im") is not False:
            evalbad.append(s)
        return (tuple(sorted(fx.items())),)

    def ed3(st, b, succ, pol):
        fx = branch(f, b, pol, dict(st), atom3)
        if fx is None:
            return ()
        if fx.get("i>=im") is False:
            fx["i==im"] = False
        return (tuple(sorted(fx.items())),)
    forward(f, [()], el3, ed3)
    rep.count("increments of i", len(incs))
    if bad3:
        rep.fail("BUDGET@scalarNewtonRaphson", "%s: ++i where 'i != p.im' is not established: more than im iterations possible"
                 % rel(f.short_loc(bad3[0])))
    elif incs:
        rep.ok("every ++i happens where i != p.im is known; i is written nowhere else")
    # ---- R6 the user bracket is registered before any other point
    # (BissectionAlgorithmBase::updateBounds builds its range from the first two points it is given: a point registered
    #  before the user bounds can displace one of them, after which estimates are confined to another interval)
    def atom6(f_, s):
        n = f_.stmts[s]
        if n["k"] == "CallExpr" and (n.get("callee") or "").endswith("isfinite") and n.get("args"):
            t = f_.text(n["args"][0]).replace(" ", "")
            if t in ("p.xmin0", "p.xmax0"):
                return ("finite:" + t, False)
        return None
    bad6 = []
    nub = [0]

    def el6(st, b, i, e):
        fx, reg = st
        if "s" not in e:
            return (st,)
        s = e["s"]
        n = f.stmts[s]
        if n["k"] == "CXXMemberCallExpr" and (n.get("callee") or "").endswith("::updateBounds"):
            a0 = f.text(n["args"][0]).replace(" ", "")
            if a0 in ("p.xmin0", "p.xmax0"):
                reg = tuple(sorted(set(reg) | {a0}))
            else:
                fxd = dict(fx)
                for bnd in ("p.xmin0", "p.xmax0"):
                    if bnd not in reg and fxd.get("finite:" + bnd) is not False:
                        bad6.append((s, bnd))
        return ((fx, reg),)

    def ed6(st, b, succ, pol):
        fx, reg = st
        f2 = branch(f, b, pol, dict(fx), atom6)
        if f2 is None:
            return ()
        return ((tuple(sorted(f2.items())), reg),)
    forward(f, [((), ())], el6, ed6)
    nub = len([1 for s_, n_ in f.stmts.items() if n_["k"] == "CXXMemberCallExpr" and (n_.get("callee") or "").endswith("::updateBounds")])
    rep.count("updateBounds call sites", nub)
    if bad6:
        s_, bnd = bad6[0]
        rep.fail("USER-BRACKET-FIRST@scalarNewtonRaphson", "%s: updateBounds(%s, ...) can run before the user bound %s has been "
                 "registered: the bisection range is built from the first two points, so an initial guess outside the user bracket can "
                 "displace a user bound and later estimates leave [xmin0, xmax0]"
                 % (rel(f.short_loc(s_)), f.text(f.stmts[s_]["args"][0]), bnd))
    else:
        rep.ok("every updateBounds(x, fv) follows the registration of each finite user bound (p.xmin0, p.xmax0)")
    # ---- R5 decision tables
    bis = {g.qname.rsplit("::", 1)[-1]: g for g in funcs if g.parent is None and "BissectionAlgorithmBase" in g.qname}
    for need in ("iterate", "getNextRootEstimate", "updateBounds"):
        if need not in bis:
            raise AnalysisBroken("BissectionAlgorithmBase::%s not instantiated" % need)

    def atoms_b(g):
        def atom(f_, s):
            n = f_.stmts[s]
            if n["k"] == "CallExpr":
                nm = (n.get("callee") or "").rsplit("::", 1)[-1]
                if nm in ("isfinite", "isnan", "haveSameSign", "fpclassify"):
                    return ("%s(%s)" % (nm, ",".join(f_.text(a).replace("this->", "") for a in n["args"])), False)
            bo = f_.binop(s)
            if bo and bo[0] in ("<", ">"):
                l, r = f_.text(bo[1]).replace("this->", ""), f_.text(bo[2]).replace("this->", "")
                if bo[0] == ">":
                    return ("%s<%s" % (r, l), False)
                return ("%s<%s" % (l, r), False)
            if bo and bo[0] in (">=", "<="):
                # 'a >= b' true establishes not (a < b) (and that neither is a NaN); false is treated as 'a < b', which the table
                # counts as outside the bracket: the conservative reading for the NaN case
                l, r = f_.text(bo[1]).replace("this->", ""), f_.text(bo[2]).replace("this->", "")
                if bo[0] == "<=":
                    return ("%s<%s" % (r, l), True)
                return ("%s<%s" % (l, r), True)
            if bo and bo[0] in ("!=", "==") and "fpclassify" in f_.text(bo[1]):
                return ("zero(%s)" % f_.text(f_.stmts[f_.strip(bo[1])]["args"][0]).replace("this->", ""), bo[0] == "!=")
            return None
        return atom

    def paths(g, track):
        """all (facts, events) at exits; track(g, sid) -> event or None."""
        at = atoms_b(g)
        outs = []

        def el_(st, b, i, e):
            fx, ev = st
            if "s" in e:
                t = track(g, e["s"])
                if t is not None:
                    ev = ev + (t,)
                n = g.stmts[e["s"]]
                if n["k"] == "ReturnStmt":
                    ks = g.kids(e["s"])
                    ev = ev + (("ret", g.text(ks[0]) if ks else ""),)
            return ((fx, ev),)

        def ed_(st, b, succ, pol):
            fx, ev = st
            f2 = branch(g, b, pol, dict(fx), at)
            if f2 is None:
                return ()
            return ((tuple(sorted(f2.items())), ev),)
        IN, OUT = forward(g, [((), ())], el_, ed_)
        return [(dict(fx), ev) for fx, ev in IN.get(g.exit, ())]

    def valid_bracket(fx):
        """True / False / None from the facts."""
        a, b_, c = fx.get("isfinite(xmin)"), fx.get("isfinite(xmax)"), fx.get("haveSameSign(fmin,fmax)")
        if a is False or b_ is False or c is True:
            return False
        if a is True and b_ is True and c is False:
            return True
        return None
    # iterate
    g = bis["iterate"]
    res = paths(g, lambda g_, s: ("call", "getNextRootEstimate") if g_.stmts[s]["k"] == "CXXMemberCallExpr"
                and (g_.stmts[s].get("callee") or "").endswith("::getNextRootEstimate") else None)
    rep.count("decision-table rows", len(res))
    for fx, ev in res:
        called = ("call", "getNextRootEstimate") in ev
        vb = valid_bracket(fx)
        outside = fx.get("isfinite(x)") is False or fx.get("x<xmin") is True or fx.get("xmax<x") is True
        inside = fx.get("isfinite(x)") is True and fx.get("x<xmin") is False and fx.get("xmax<x") is False
        if vb is True and outside and not called:
            rep.fail("BRACKET@iterate", "iterate(x) leaves x unchanged although the bracket is valid and x is non-finite or outside it (%s)" % fx)
        elif vb is True and not called and not inside:
            rep.fail("BRACKET@iterate", "iterate(x) returns without establishing that x is finite and inside the valid bracket (%s)" % fx)
        elif called and vb is not True:
            rep.fail("BRACKET@iterate", "iterate(x) replaces x although the bracket is not known to be valid (%s)" % fx)
        else:
            rep.ok("iterate: %s -> %s" % (fx, "x replaced by the bracket's estimate" if called else "x kept"), sample=called)
    # getNextRootEstimate
    g = bis["getNextRootEstimate"]

    def track_g(g_, s):
        n = g_.stmts[s]
        if n["k"] == "BinaryOperator" and n["op"] == "=" and g_.text(g_.kids(s)[0]) == "x":
            return ("x=", g_.text(g_.kids(s)[1]).replace("this->", "").replace(" ", ""))
        return None
    res = paths(g, track_g)
    rep.count("decision-table rows", len(res))
    MID = ("((xmin+xmax)/2)", "((xmax+xmin)/2)")
    for fx, ev in res:
        ret = [e[1] for e in ev if e[0] == "ret"]
        vb = valid_bracket(fx)
        asg = [e[1] for e in ev if e[0] == "x="]
        if ret == ["false"]:
            if vb is False and not asg:
                rep.ok("getNextRootEstimate: invalid bracket -> false, x untouched", sample=False)
            else:
                rep.fail("BRACKET@getNextRootEstimate", "returns false with a bracket not known invalid, or after writing x (%s, %s)" % (fx, asg))
        elif ret == ["true"]:
            last = asg[-1] if asg else None
            okk = vb is True and last is not None and (last in MID or (fx.get("x<xmin") is False and fx.get("xmax<x") is False))
            if okk:
                rep.ok("getNextRootEstimate: valid bracket -> x = %s" % ("midpoint" if last in MID else "secant value tested inside the bracket"),
                       sample=True)
            else:
                rep.fail("BRACKET@getNextRootEstimate", "returns true with x = %s not established inside a valid bracket (%s)" % (last, fx))
        else:
            rep.fail("BRACKET@getNextRootEstimate", "unexpected return %s" % ret)
    # updateBounds (with its local closure update_range inlined as an event)
    g = bis["updateBounds"]

    def track_u(g_, s):
        n = g_.stmts[s]
        if n["k"] == "BinaryOperator" and n["op"] == "=":
            l = g_.path(g_.kids(s)[0]) or ""
            if l.startswith("this->"):
                return ("w", l[6:], g_.text(g_.kids(s)[1]).replace("this->", ""))
        if n["k"] == "CXXOperatorCallExpr" and n.get("op") == "()":
            return ("update_range", tuple(g_.text(a).replace("this->", "") for a in n["args"][1:]))
        return None
    res = paths(g, track_u)
    rep.count("decision-table rows", len(res))
    for fx, ev in res:
        writes = [e for e in ev if e[0] in ("w", "update_range")]
        if fx.get("isfinite(x)") is False or fx.get("isfinite(f)") is False:
            if writes:
                rep.fail("BRACKET@updateBounds#nonfinite", "updateBounds modifies the bracket for a non-finite argument (%s)" % fx)
            else:
                rep.ok("updateBounds: non-finite argument ignored", sample=False)
            continue
        if fx.get("haveSameSign(fmin,fmax)") is False and fx.get("isnan(xmin)") is False and fx.get("isnan(xmax)") is False:
            # sign-changing bracket: only strictly interior moves that keep the sign change
            same = fx.get("haveSameSign(fmin,f)")
            inside = fx.get("xmin<x") is True and fx.get("x<xmax") is True
            ws = [(e[1], e[2]) for e in writes if e[0] == "w"]
            ur = [e for e in writes if e[0] == "update_range"]
            good = not ur
            if ws:
                good = good and inside and ((same is True and sorted(ws) == [("fmin", "f"), ("xmin", "x")]) or
                                            (same is False and sorted(ws) == [("fmax", "f"), ("xmax", "x")]))
            if good:
                rep.ok("updateBounds (sign-changing bracket): %s" % ("bound moved to an interior point keeping the sign change" if ws else "bracket kept"),
                       sample=bool(ws))
            else:
                rep.fail("BRACKET@updateBounds", "with a sign-changing bracket, updateBounds performs %s under %s: the bracket may grow or lose "
                         "its sign change" % (writes, fx))
    rep.floor("decision-table rows", 15)
    rep.floor("definitions of converged", 2)
    rep.floor("return statements", 3)
    rep.floor("evaluations f(x) in the loop", 2)
    rep.floor("increments of i", 1)
    rep.floor("updateBounds call sites", 3)
    rep.assumptions += ["the secant/midpoint values are inside the bracket in exact arithmetic only (rounding and NaN produced by the "
                        "secant formula itself are not decided)", "convergence of the iteration is not decided",
                        "observation (not a finding of the claimed clauses): a Newton step is taken when isfinite(fv) || dfv == 0"]
    # R6 exactness of the sign test on IEEE classes (abstract interpretation of the -O2 IR, rules/ieeeclass.py)
    import ieeeclass
    ieeeclass.same_sign_rule(rep)
    ieeeclass.estimate_rule(rep)
    if tier == "thorough":
        ieeeclass.same_sign_rule(rep, "-O1")
        ieeeclass.estimate_rule(rep, "-O1")
    return rep
