"""C34 — glossary lookups consistent and unambiguous: exhaustive table lint.

Everything is read from the AST of the current tree (initialisers of the
static members of tfel::glossary::Glossary, the names[] array, the
constructor of Glossary, GlossaryEntry's constructor and accessors); nothing
is executed.

 G0 roles: which constructor parameter of GlossaryEntry feeds key, names
    (through vector_from_range(b, e), which inserts [b, e)), lower and upper
    physical bounds is read from the member-initialiser list;
 G1 every slice names+i .. names+j has 0 <= i < j <= |names|, slices are
    pairwise disjoint (a name belongs to one entry);
 G2 keys pairwise distinct; names pairwise distinct; a string that is the key
    of one entry is not a name of another entry  => findGlossaryEntry, which
    accepts either, resolves every key and every name to exactly one entry,
    and the entry resolved from a key has that key;
 G3 the identifier of each static member equals its key;
 G4 the constructor of Glossary inserts every static GlossaryEntry member,
    each exactly once, unconditionally;
 G5 every bound literal parses as 'system:number' items (C-locale number,
    whole string), systems distinct per literal, lower <= upper per system;
 G6 lookup structure: findGlossaryEntry walks entries from begin() to end()
    with ++ only, returns the iterator under a test key == n or n in names
    and entries.end() otherwise; contains() is find != end;
    getGlossaryEntry raises on end and returns *p; getKey/getNames return
    the members the constructor filled.
"""
import os, re
from fractions import Fraction
from common import *
from cfg import *

RULE = ("glossary table (exhaustive): slices in range, non-empty, disjoint; keys/names "
        "injective, no key is another entry's name; member identifier = key; every member "
        "inserted once; bounds parse and lower<=upper per unit system; lookup functions "
        "scan the whole set and test key and names")
G = "tfel::glossary::Glossary"
GE = "tfel::glossary::GlossaryEntry"
NUM = re.compile(r"[+-]?(\d+\.?\d*|\.\d+)([eE][+-]?\d+)?$")


def lit(f, sid):
    s = f.strip(sid)
    n = f.stmts[s]
    return n["value"] if n["k"] == "StringLiteral" else None


def offset(f, sid, arrname):
    """names -> 0 ; names + k -> k ; else None"""
    s = f.strip(sid)
    n = f.stmts[s]
    if n["k"] == "DeclRefExpr" and n["name"] == arrname:
        return 0
    if n["k"] == "BinaryOperator" and n["op"] == "+":
        a, b = [f.strip(x) for x in f.kids(s)]
        for u, v in ((a, b), (b, a)):
            if f.stmts[u]["k"] == "DeclRefExpr" and f.stmts[u]["name"] == arrname \
                    and f.stmts[v]["k"] == "IntegerLiteral":
                return f.stmts[v]["value"]
    if n["k"] == "UnaryOperator" and n["op"] == "&":
        k = f.strip(f.kids(s)[0])
        kn = f.stmts[k]
        if kn["k"] == "ArraySubscriptExpr":
            a, b = [f.strip(x) for x in f.kids(k)]
            if f.stmts[a].get("name") == arrname and f.stmts[b]["k"] == "IntegerLiteral":
                return f.stmts[b]["value"]
    return None


def parse_bounds(s, sep):
    """literal -> {system: Fraction} or raises ValueError(reason)"""
    res = {}
    if s == "":
        return res
    for item in [x for x in s.split(sep) if x != ""]:
        kv = [x for x in item.split(":") if x != ""]
        if len(kv) != 2:
            raise ValueError("item %r is not 'system:value'" % item)
        k, v = kv
        if k in res:
            raise ValueError("unit system %r given twice" % k)
        if not NUM.match(v):
            raise ValueError("value %r of system %r is not a number" % (v, k))
        m = re.match(r"([+-]?)(\d*)\.?(\d*)(?:[eE]([+-]?\d+))?$", v)
        sign, ip, fp, ex = m.groups()
        val = Fraction(int((ip or "0") + (fp or "")), 10 ** len(fp or "")) * Fraction(10) ** int(ex or 0)
        res[k] = -val if sign == "-" else val
    return res


def check_entries(rep, ents, nnames, names, sep, control=False):
    """ents: list of dict(member, key, b, e, lbs, ubs, loc)."""
    nv = 0

    def fail(key, msg):
        nonlocal nv
        nv += 1
        if not control:
            rep.fail(key, msg)

    def ok(msg, sample=False):
        if not control:
            rep.ok(msg, sample=sample)

    owner = {}
    bykey = {}
    for e in ents:
        m = e["member"]
        # G3
        if e["key"] == m:
            ok("static member %s has key '%s'" % (m, e["key"]), sample=len(rep.samples) < 2)
        else:
            fail("MEMBER-KEY@%s" % m, "%s: static member Glossary::%s is built with key '%s'" % (e["loc"], m, e["key"]))
        # G2 keys
        if e["key"] in bykey:
            fail("DUP-KEY@%s" % e["key"], "%s: key '%s' used by members %s and %s" % (e["loc"], e["key"], bykey[e["key"]], m))
        else:
            ok("key '%s' is unique" % e["key"])
        bykey.setdefault(e["key"], m)
        # G1
        b, en = e["b"], e["e"]
        if b is None or en is None:
            raise AnalysisBroken("%s: names range of %s is not of the form names + k" % (e["loc"], m))
        if 0 <= b < en <= nnames:
            ok("%s: slice [%d,%d) in range and non-empty" % (m, b, en))
        else:
            fail("SLICE-RANGE@%s" % m, "%s: names slice [%d,%d) of %s is empty or outside names[%d]" % (e["loc"], b, en, m, nnames))
            continue
        clash = [i for i in range(b, en) if i in owner]
        if clash:
            fail("SLICE-OVERLAP@%s" % m, "%s: names[%d] ('%s') belongs to both %s and %s"
                 % (e["loc"], clash[0], names[clash[0]], owner[clash[0]], m))
        else:
            ok("%s: slice disjoint from all others" % m)
        for i in range(b, en):
            owner.setdefault(i, m)
    # G2 names
    seen = {}
    for i, n in enumerate(names):
        if i not in owner:
            continue
        if n in seen and owner[seen[n]] != owner[i]:
            fail("DUP-NAME@%s" % n, "name '%s' is listed for %s and for %s: the lookup by name is ambiguous"
                 % (n, owner[seen[n]], owner[i]))
        else:
            ok("name '%s' resolves to one entry" % n)
        seen.setdefault(n, i)
        if n in bykey and bykey[n] != owner[i]:
            fail("KEY-IS-FOREIGN-NAME@%s" % n, "'%s' is the key of %s and a name of %s: the lookup depends on iteration order"
                 % (n, bykey[n], owner[i]))
        else:
            ok("name '%s' is not the key of another entry" % n)
    # G5
    for e in ents:
        try:
            lb = parse_bounds(e["lbs"], sep)
            ub = parse_bounds(e["ubs"], sep)
        except ValueError as x:
            fail("BOUND-PARSE@%s" % e["member"], "%s: physical bound of %s does not parse: %s" % (e["loc"], e["member"], x))
            continue
        ok("bounds of %s parse (%d lower, %d upper)" % (e["member"], len(lb), len(ub)))
        for k in lb:
            if k in ub:
                if lb[k] <= ub[k]:
                    ok("%s/%s: lower <= upper" % (e["member"], k), sample=len(rep.samples) < 6)
                else:
                    fail("BOUND-ORDER@%s#%s" % (e["member"], k),
                         "%s: %s: lower physical bound %s exceeds upper bound %s in unit system %s"
                         % (e["loc"], e["member"], lb[k], ub[k], k))
    return nv


def run(tier):
    rep = Report("C34", tier, "proof", RULE)
    u1 = os.path.join(REPO, "src/Glossary/Glossary.cxx")
    u2 = os.path.join(REPO, "src/Glossary/GlossaryEntry.cxx")
    d = cfgdump([u1, u2], os.path.join(OUT, "C34", "dump"),
                funcs=r"^tfel::glossary::(Glossary::|GlossaryEntry::(GlossaryEntry|getKey|getNames)$|vector_from_range$)",
                vars=r"^tfel::glossary::(Glossary::|GlossaryEntry::separator$)",
                records=r"^tfel::glossary::Glossary$")
    funcs = load_functions(d)
    fq = by_qname(funcs)
    # ---- G0 roles
    ctors = [f for f in fq.get(GE + "::GlossaryEntry", []) if len(f.params) >= 6 and f.d.get("inits")]
    if len(ctors) != 1:
        raise AnalysisBroken("GlossaryEntry's table constructor not found (%d candidates)" % len(ctors))
    ct = ctors[0]
    pidx = {p["declId"]: i for i, p in enumerate(ct.params)}
    role = {}
    for ini in ct.d["inits"]:
        mem = ini.get("member")
        used = [pidx[ct.stmts[x]["declId"]] for x in ct.walk(ini["init"])
                if ct.stmts[x]["k"] == "DeclRefExpr" and ct.stmts[x].get("declId") in pidx]
        cal = [ct.stmts[x].get("callee") for x in ct.walk(ini["init"]) if ct.stmts[x]["k"] == "CallExpr"]
        role[mem] = (used, cal)
    need = {"key": 1, "names": 2, "lower_physical_bounds": 1, "upper_physical_bounds": 1}
    for m, k in need.items():
        if m not in role or len(role[m][0]) != k:
            raise AnalysisBroken("member %s of GlossaryEntry is not initialised from %d constructor parameter(s)" % (m, k))
    ik = role["key"][0][0]
    ib, ie = role["names"][0]
    il, iu = role["lower_physical_bounds"][0][0], role["upper_physical_bounds"][0][0]
    if role["names"][1] != ["tfel::glossary::vector_from_range"]:
        raise AnalysisBroken("names is not built by vector_from_range: %s" % role["names"][1])
    vfr = fq.get("tfel::glossary::vector_from_range", [])
    if not vfr:
        raise AnalysisBroken("vector_from_range vanished")
    v = vfr[0]
    ins = [s for s, n in v.stmts.items() if n["k"] == "CXXMemberCallExpr" and (n.get("callee") or "").endswith("::insert")]
    good = False
    if len(ins) == 1:
        a = [v.stmts[v.strip(x)] for x in v.stmts[ins[0]]["args"]]
        good = len(a) == 3 and [x.get("declId") for x in a[1:]] == [p["declId"] for p in v.params]
    if good:
        rep.ok("vector_from_range(b, e) inserts the range [b, e) (arguments forwarded in order)")
    else:
        rep.fail("ROLE@vector_from_range", "vector_from_range does not insert [first parameter, second parameter)")
    for q, mem in ((GE + "::getKey", "key"), (GE + "::getNames", "names")):
        fs = fq.get(q, [])
        if not fs:
            raise AnalysisBroken("%s vanished" % q)
        f = fs[0]
        rets = [s for s, n in f.stmts.items() if n["k"] == "ReturnStmt"]
        okr = len(rets) == 1 and f.path(f.kids(rets[0])[0]) == "this->" + mem
        if okr:
            rep.ok("%s returns this->%s" % (q, mem))
        else:
            rep.fail("ROLE@%s" % q, "%s does not return the member %s filled by the constructor" % (q, mem))
    # ---- tables
    vars_ = {x["qname"]: Func(x, u) for u in d for x in d[u].get("vars", [])}
    sepv = vars_.get(GE + "::separator")
    if sepv is None or lit(sepv, sepv.body) is None:
        raise AnalysisBroken("GlossaryEntry::separator not found")
    sep = lit(sepv, sepv.body)
    nv = vars_.get(G + "::names")
    if nv is None:
        raise AnalysisBroken("Glossary::names not found")
    il_ = nv.strip(nv.body)
    if nv.stmts[il_]["k"] != "InitListExpr":
        raise AnalysisBroken("Glossary::names is not initialised by a brace list")
    names = [lit(nv, c) for c in nv.kids(il_)]
    if any(x is None for x in names):
        raise AnalysisBroken("Glossary::names contains a non-literal")
    m = re.search(r"\[(\d+)\]", nv.d["type"])
    nnames = int(m.group(1)) if m else len(names)
    if nnames != len(names):
        rep.fail("NAMES-SIZE", "names is declared with %d elements but %d initialisers are given (trailing null pointers)" % (nnames, len(names)))
    else:
        rep.ok("names[%d] has %d literal initialisers" % (nnames, len(names)))
    ents = []
    for q, f in sorted(vars_.items()):
        if not f.d["type"].endswith("GlossaryEntry") or not q.startswith(G + "::"):
            continue
        c = f.strip(f.body)
        n = f.stmts[c]
        if n["k"] != "CXXConstructExpr" or n.get("callee") != GE + "::GlossaryEntry":
            raise AnalysisBroken("%s is not built by the table constructor" % q)
        a = n["args"]
        ents.append(dict(member=f.d["name"], key=lit(f, a[ik]), b=offset(f, a[ib], "names"),
                         e=offset(f, a[ie], "names"), lbs=lit(f, a[il]), ubs=lit(f, a[iu]), loc=f.d["loc"]))
        if ents[-1]["key"] is None or ents[-1]["lbs"] is None or ents[-1]["ubs"] is None:
            raise AnalysisBroken("%s: key or bounds are not string literals" % q)
        rep.count("glossary entries")
    rep.floor("glossary entries", 100)
    check_entries(rep, ents, len(names), names, sep)
    unused = [names[i] for i in range(len(names))
              if not any(e["b"] is not None and e["b"] <= i < e["e"] for e in ents)]
    rep.extra["names_in_no_slice"] = unused
    # ---- G4
    gc = [f for f in fq.get(G + "::Glossary", []) if not f.params]
    if not gc:
        raise AnalysisBroken("Glossary::Glossary() vanished")
    g = gc[0]
    inserted = {}
    ctl = [x for x in g.walk(g.body) if g.stmts[x]["k"] in ("IfStmt", "ReturnStmt", "SwitchStmt", "ConditionalOperator",
                                                             "ForStmt", "WhileStmt", "CXXForRangeStmt", "GotoStmt", "CXXTryStmt")]
    for s, n in g.stmts.items():
        if n["k"] == "CXXMemberCallExpr" and n.get("callee") == G + "::insert":
            a = g.strip(n["args"][0])
            an = g.stmts[a]
            nm = an.get("name") if an["k"] == "DeclRefExpr" else (an.get("member") if an["k"] == "MemberExpr" else None)
            if nm is None:
                raise AnalysisBroken("insert argument at %s is not a static member" % g.short_loc(s))
            inserted[nm] = inserted.get(nm, 0) + 1
    if ctl:
        rep.fail("INSERT@Glossary::Glossary#conditional", "%s: control flow (%s) in the constructor of Glossary: insertions may be skipped"
                 % (g.short_loc(ctl[0]), g.stmts[ctl[0]]["k"]))
    for e in ents:
        c = inserted.get(e["member"], 0)
        if c == 1:
            rep.ok("Glossary() inserts %s once" % e["member"], sample=False)
        else:
            rep.fail("INSERT@%s" % e["member"], "static member Glossary::%s is inserted %d times by the constructor of Glossary" % (e["member"], c))
    for nm in inserted:
        if nm not in set(e["member"] for e in ents):
            rep.fail("INSERT@%s#unknown" % nm, "Glossary() inserts %s, which is not a static GlossaryEntry member defined in Glossary.cxx" % nm)
    ins = fq.get(G + "::insert", [None])[0]
    if ins is None:
        raise AnalysisBroken("Glossary::insert vanished")
    cal = [n.get("callee") or "" for n in ins.stmts.values() if n["k"] in ("CXXMemberCallExpr",)]
    if any(c.endswith("set<tfel::glossary::GlossaryEntry>::insert") or re.search(r"std::set<.*GlossaryEntry.*>::insert$", c) for c in cal):
        rep.ok("Glossary::insert stores the entry in the entries set")
    else:
        rep.fail("INSERT@Glossary::insert", "Glossary::insert does not insert into the entries set (calls: %s)" % cal)
    # ---- G6
    lookup_rules(rep, fq)
    # ---- positive controls
    bad = [dict(member="A", key="A", b=0, e=2, lbs="SI:3", ubs="SI:2", loc="ctl"),
           dict(member="B", key="C", b=1, e=3, lbs="", ubs="SI:x", loc="ctl")]
    if check_entries(rep, bad, 3, ["A", "B", "A"], sep, control=True) < 4:
        raise AnalysisBroken("positive control of the table rules is silent")
    rep.assumptions.append("std::set/std::find/std::vector::insert behave as specified; istream number parsing modelled by the C-locale floating literal grammar")
    return rep


def lookup_rules(rep, fq):
    fs = fq.get(G + "::findGlossaryEntry", [])
    if not fs:
        raise AnalysisBroken("findGlossaryEntry vanished")
    f = fs[0]
    nparm = f.params[0]["declId"]
    loops = [s for s, n in f.stmts.items() if n["k"] in ("ForStmt", "WhileStmt", "CXXForRangeStmt", "DoStmt")]
    if len(loops) != 1:
        raise AnalysisBroken("findGlossaryEntry: %d loops (unrecognised idiom)" % len(loops))
    L = loops[0]
    txt = " ".join(f.text(c) for c in f.kids(L)[:-1] if c)
    ln = f.stmts[L]
    whole = False
    if ln["k"] == "CXXForRangeStmt":
        whole = f.path(ln.get("rangeInit")) == "this->entries"
    else:
        whole = "this->entries.begin()" in txt and "this->entries.end()" in txt and "++p" in txt.replace(" ", "")
    if whole:
        rep.ok("findGlossaryEntry scans entries from begin() to end() (%s)" % txt[:80])
    else:
        rep.fail("LOOKUP@findGlossaryEntry#range", "findGlossaryEntry does not scan the whole entries set: %s" % txt)
    body = f.kids(L)[-1]
    esc = [x for x in f.walk(body) if f.stmts[x]["k"] in ("BreakStmt", "ContinueStmt", "GotoStmt")]
    if esc:
        rep.fail("LOOKUP@findGlossaryEntry#early-exit", "%s: %s in the lookup loop" % (f.short_loc(esc[0]), f.stmts[esc[0]]["k"]))
    # returns inside the loop: each under an if whose condition mentions n
    pm = f.parent_map()
    kinds = set()
    for x in f.walk(body):
        if f.stmts[x]["k"] != "ReturnStmt":
            continue
        p = x
        cond = None
        while p in pm and p != body:
            p = pm[p]
            if f.stmts[p]["k"] == "IfStmt":
                cond = f.stmts[p]["cond"]
                break
        if cond is None:
            rep.fail("LOOKUP@findGlossaryEntry#unconditional-return", "%s: return in the lookup loop is not guarded" % f.short_loc(x))
            continue
        mentions_n = any(f.stmts[y]["k"] == "DeclRefExpr" and f.stmts[y].get("declId") == nparm for y in f.walk(cond))
        calls = [f.stmts[y].get("callee") or "" for y in f.walk(cond) if f.is_call(y)]
        if not mentions_n:
            rep.fail("LOOKUP@findGlossaryEntry#guard", "%s: a match is returned under a condition that does not involve the searched string: %s"
                     % (f.short_loc(x), f.text(cond)))
            continue
        if any(c.endswith("getKey") for c in calls) or "key" in f.text(cond):
            if (f.binop(cond) or [None])[0] == "==":
                kinds.add("key")
        if any(c == "std::find" for c in calls):
            if (f.binop(cond) or [None])[0] == "!=":
                kinds.add("names")
    for k in ("key", "names"):
        if k in kinds:
            rep.ok("findGlossaryEntry returns the entry when the string equals its %s" % ("key" if k == "key" else "one of its names"))
        else:
            rep.fail("LOOKUP@findGlossaryEntry#%s" % k, "findGlossaryEntry has no 'return p' guarded by a test of the searched string against the entry's %s" % k)
    # std::find over the entry's names, whole range
    for y, n in f.stmts.items():
        if n["k"] == "CallExpr" and n.get("callee") == "std::find":
            a = n["args"]
            t = [f.text(x) for x in a]
            if t[0].endswith(".begin()") and t[1].endswith(".end()") and t[0][:-8] == t[1][:-6] and f.stmts[f.strip(a[2])].get("declId") == nparm:
                # the range must be getNames() of the current entry
                base = t[0][:-8]
                src = None
                for ds, dn in f.stmts.items():
                    if dn["k"] == "DeclStmt":
                        for dd in dn["decls"]:
                            if dd.get("name") == base and dd.get("init"):
                                src = f.text(dd["init"])
                if src and src.endswith("getNames()"):
                    rep.ok("names test searches [begin, end) of %s for n" % src)
                else:
                    rep.fail("LOOKUP@findGlossaryEntry#names-range", "std::find does not search the names of the current entry (%s = %s)" % (base, src))
            else:
                rep.fail("LOOKUP@findGlossaryEntry#names-range", "std::find(%s) is not a search of a whole names range for the parameter" % ", ".join(t))
    # a lookup is a function of its argument and of the table: no static / thread_local state
    for q in (G + "::findGlossaryEntry", G + "::contains", G + "::getGlossaryEntry"):
        g = fq.get(q, [None])[0]
        if g is None:
            continue
        st = [d["name"] for n_ in g.stmts.values() if n_["k"] == "DeclStmt" for d in n_["decls"] if d.get("static")]
        if st:
            rep.fail("LOOKUP@%s#stateful" % q.rsplit("::", 1)[-1],
                     "%s keeps state between calls in static/thread_local variable(s) %s: the result of a lookup can depend "
                     "on earlier lookups" % (q, ", ".join(st)))
        else:
            rep.ok("%s keeps no state between calls" % q, sample=False)
    # last return = end()
    rets = [x for x in f.walk(f.body) if f.stmts[x]["k"] == "ReturnStmt" and x not in set(f.walk(body))]
    if len(rets) == 1 and f.text(f.kids(rets[0])[0]).endswith("this->entries.end()"):
        rep.ok("findGlossaryEntry returns entries.end() when nothing matched")
    else:
        rep.fail("LOOKUP@findGlossaryEntry#miss", "findGlossaryEntry has %d return statement(s) outside the scan loop; expected exactly "
                 "one, 'return entries.end()': %s" % (len(rets), [f.text(x) for x in rets]))
    # contains
    c = fq.get(G + "::contains", [None])[0]
    ge = fq.get(G + "::getGlossaryEntry", [None])[0]
    if c is None or ge is None:
        raise AnalysisBroken("contains/getGlossaryEntry vanished")
    rets = [x for x, n in c.stmts.items() if n["k"] == "ReturnStmt"]
    t = c.text(c.kids(rets[0])[0]).replace(" ", "") if len(rets) == 1 else ""
    if t in ("(this->findGlossaryEntry(n)!=this->entries.end())", "(this->entries.end()!=this->findGlossaryEntry(n))"):
        rep.ok("contains(n) is findGlossaryEntry(n) != entries.end()")
    else:
        rep.fail("LOOKUP@contains", "contains is not 'findGlossaryEntry(n) != entries.end()': %s" % t)
    # getGlossaryEntry: p = find(n); raise_if(p == end); return *p
    t = " ".join(ge.text(x) for x in ge.kids(ge.body))
    t2 = t.replace(" ", "")
    okg = "this->findGlossaryEntry(n)" in t2 and "raise_if((p==this->entries.end())" in t2 and t2.rstrip().endswith("return*p")
    if okg:
        rep.ok("getGlossaryEntry(n) raises when findGlossaryEntry(n) is end() and returns *p otherwise")
    else:
        rep.fail("LOOKUP@getGlossaryEntry", "getGlossaryEntry is not 'p = findGlossaryEntry(n); raise_if(p == end); return *p': %s" % t[:200])
    rep.count("lookup functions", 3)
