"""C46 — the mfront inter-process lock: pairing / who-may-call / guard-liveness.

Decides (static, on the resolved program):
 R1 who-may-call: sem_post only from MFrontLock::unlock, sem_wait only from
    MFrontLock::lock, unlock only from ~MFrontLockGuard, lock only from
    MFrontLockGuard(); copy/move of both classes deleted.  Hence posts and
    waits are in bijection per process (every post is the destructor of an
    object whose constructor waited): the semaphore value never exceeds its
    creation value, which is what 'never admits more holders than it was
    created with' needs for every history of runs.
 R2 the semaphore is created with O_CREAT and initial value 1.
 R3 a failing sem_wait raises (no section entered without the token).
 R4 guards are automatic local variables (never temporaries / statics / heap)
    and every file-stream open or CxxTokenizer(file) in a function that owns a
    guard happens while the guard is live; the registry file name
    "targets.lst" is only named in functions that hold a guard.
"""
import os, re, subprocess
import re
from common import *
from cfg import *

RULE = ("WHO-MAY-CALL(sem_post<=MFrontLock::unlock<=~MFrontLockGuard; "
        "sem_wait<=MFrontLock::lock<=MFrontLockGuard()), deleted copy/move, "
        "sem_open(O_CREAT,1), sem_wait failure raises, guard is a live automatic "
        "local at every stream open of guard-owning functions")

ALLOWED = {
    "sem_post": {"mfront::MFrontLock::unlock"},
    "sem_wait": {"mfront::MFrontLock::lock"},
    "sem_trywait": set(), "sem_timedwait": set(), "sem_unlink": set(),
    "sem_init": set(), "sem_destroy": set(),
    "sem_open": {"mfront::MFrontLock::MFrontLock"},
    "sem_close": {"mfront::MFrontLock::~MFrontLock"},
    "mfront::MFrontLock::unlock": {"mfront::MFrontLockGuard::~MFrontLockGuard"},
    "mfront::MFrontLock::lock": {"mfront::MFrontLockGuard::MFrontLockGuard"},
}
TOKENS = re.compile(r"\b(sem_post|sem_wait|sem_open|sem_close|sem_trywait|sem_timedwait|sem_unlink|MFrontLock\w*|targets\.lst)\b")
STREAMS = ("std::basic_ofstream", "std::basic_ifstream", "std::basic_fstream",
           "tfel::utilities::CxxTokenizer")


def candidate_units(all_units, tier):
    if tier == "thorough":
        return all_units, "all units of the targets (no pre-filter)"
    # optimisation only: a function cannot be called without spelling its name
    hdr_hits = []
    for root in ("mfront/include", "include", "mtest/include", "mfront-query/include"):
        p = os.path.join(REPO, root)
        for dp, dn, fns in os.walk(p):
            for fn in fns:
                fp = os.path.join(dp, fn)
                if not fn.endswith((".hxx", ".ixx", ".h", ".hpp", ".cxx")):
                    continue
                try:
                    if TOKENS.search(open(fp, errors="replace").read()):
                        hdr_hits.append(fp)
                except OSError:
                    pass
    extra = [h for h in hdr_hits if not h.endswith("MFront/MFrontLock.hxx")]
    if extra:
        return all_units, "all units (a header other than MFrontLock.hxx names the lock API: %s)" % extra
    res = [u for u in all_units if TOKENS.search(open(u, errors="replace").read())]
    return res, "units spelling the lock API / registry name (textual pre-filter, sound because a callee must be named)"


def check_functions(rep, funcs, control=False):
    """all rules over a list of Func; returns number of violations found."""
    nviol = 0

    def fail(key, msg, **kw):
        nonlocal nviol
        nviol += 1
        if not control:
            rep.fail(key, msg, **kw)

    guard_ctor_sites = 0
    for f in funcs:
        caller = f.qname
        # R1 who-may-call
        for sid, n in f.stmts.items():
            cal = n.get("callee")
            if cal in ALLOWED and n["k"] in ("CallExpr", "CXXMemberCallExpr", "DeclRefExpr"):
                if n["k"] == "DeclRefExpr":
                    # a reference that is not the callee of a direct call:
                    # the primitive escapes as a function pointer
                    p = sid
                    pm = f.parent_map()
                    while p in pm and f.stmts[pm[p]]["k"] in TRANSPARENT:
                        p = pm[p]
                    par = pm.get(p)
                    if par and f.stmts[par]["k"] == "CallExpr" and f.strip(f.stmts[par].get("calleeExpr")) == sid:
                        continue
                    fail("WHO-MAY-CALL@%s#addr-of-%s" % (caller, cal),
                         "%s: address of %s taken in %s" % (f.short_loc(sid), cal, caller))
                    continue
                if not control:
                    rep.count("call sites of lock primitives")
                if caller not in ALLOWED[cal]:
                    fail("WHO-MAY-CALL@%s#%s" % (caller, cal),
                         "%s: %s is called by %s; allowed callers: %s"
                         % (f.short_loc(sid), cal, caller, sorted(ALLOWED[cal]) or "none"),
                         site=f.short_loc(sid), callee=cal, caller=caller)
                elif not control:
                    rep.ok("%s -> %s at %s is an allowed pairing site" % (caller, cal, f.short_loc(sid)))
        # R2 creation value
        for sid, n in f.stmts.items():
            if n.get("callee") == "sem_open" and n["k"] == "CallExpr":
                a = n["args"]
                ok = False
                if len(a) == 4:
                    v = f.stmts[f.strip(a[3])]
                    fl = f.stmts[f.strip(a[1])]
                    ok = v["k"] == "IntegerLiteral" and v["value"] == 1 and \
                        fl["k"] == "IntegerLiteral" and (fl["value"] & 0o100) and not (fl["value"] & 0o1000)
                if ok:
                    if not control:
                        rep.ok("sem_open(..., O_CREAT, mode, 1) at %s" % f.short_loc(sid))
                else:
                    fail("SEM-CREATE@%s" % caller,
                         "%s: sem_open is not (O_CREAT without O_TRUNC, initial value 1): %s"
                         % (f.short_loc(sid), f.text(sid)))
            # R3 sem_wait failure must raise
            if n.get("callee") == "sem_wait" and n["k"] == "CallExpr":
                pm = f.parent_map()
                p = sid
                cmp_seen = False
                raised = False
                while p in pm:
                    p = pm[p]
                    pn = f.stmts[p]
                    if pn["k"] == "BinaryOperator" and pn.get("op") in ("==", "!=", "<"):
                        cmp_seen = True
                    if pn.get("callee") in ("tfel::raise_if",) and cmp_seen:
                        raised = True
                        break
                    if pn["k"] == "IfStmt" and cmp_seen:
                        then = pn.get("then")
                        if any(f.stmts[x]["k"] == "CXXThrowExpr" or f.stmts[x].get("noreturn")
                               for x in f.walk(then)):
                            raised = True
                        break
                    if pn["k"] in ("CompoundStmt",):
                        break
                if raised:
                    if not control:
                        rep.ok("sem_wait failure raises at %s" % f.short_loc(sid))
                else:
                    fail("SEM-WAIT-UNCHECKED@%s" % caller,
                         "%s: result of sem_wait is not tested with a raising failure arm" % f.short_loc(sid))
        # R4 guards are automatic locals; streams opened under a live guard
        guard_vars = set()
        for sid, n in f.stmts.items():
            if n["k"] in ("CXXConstructExpr", "CXXTemporaryObjectExpr") and \
                    n.get("ctorClass") == "mfront::MFrontLockGuard":
                guard_ctor_sites += 1
                par = f.parent_map().get(sid)
                okdecl = False
                if par and f.stmts[par]["k"] == "DeclStmt":
                    for d in f.stmts[par]["decls"]:
                        if d.get("init") == sid and not d.get("static") and \
                                d.get("type") in ("mfront::MFrontLockGuard", "const mfront::MFrontLockGuard"):
                            okdecl = True
                            guard_vars.add(d["declId"])
                if okdecl:
                    if not control:
                        rep.ok("guard at %s is an automatic local of %s" % (f.short_loc(sid), caller))
                else:
                    fail("GUARD-NOT-AUTOMATIC@%s" % caller,
                         "%s: MFrontLockGuard constructed other than as an automatic local variable "
                         "(temporary/static/heap guards release at the wrong time)" % f.short_loc(sid))
            if n["k"] == "CallExpr" and re.search(r"^std::make_(unique|shared)<mfront::MFrontLockGuard", n.get("calleeDisplay") or n.get("callee") or ""):
                guard_ctor_sites += 1
                fail("GUARD-NOT-AUTOMATIC@%s#%s" % (caller, (n.get("callee") or "").split("<")[0]),
                     "%s: the guard is created on the heap (%s): it can be released before the end of the scope it is meant to protect - the "
                     "writes that follow are made outside the inter-process lock" % (f.short_loc(sid), (n.get("callee") or "").split("<")[0]))
            if n["k"] == "CXXNewExpr" and "MFrontLockGuard" in n.get("allocType", ""):
                fail("GUARD-NOT-AUTOMATIC@%s#new" % caller, "%s: heap-allocated guard" % f.short_loc(sid))
        names_registry = any(n["k"] == "StringLiteral" and "targets.lst" in str(n.get("value"))
                             for n in f.stmts.values())
        if names_registry and not guard_vars:
            fail("REGISTRY-WITHOUT-GUARD@%s" % caller,
                 "%s names the registry file targets.lst but owns no MFrontLockGuard" % caller)
        if guard_vars and f.entry is not None:
            def elem_fn(st, b, i, e):
                if "s" in e:
                    n = f.stmts[e["s"]]
                    if n["k"] == "DeclStmt":
                        for d in n["decls"]:
                            if d.get("declId") in guard_vars:
                                return (st | {d["declId"]},)
                    is_open = False
                    if n["k"] in ("CXXConstructExpr", "CXXTemporaryObjectExpr") and \
                            n.get("ctorClass") in STREAMS and len(n.get("args", [])) >= 1 and \
                            not n.get("copyOrMove"):
                        is_open = True
                    if n["k"] == "CXXMemberCallExpr" and (n.get("callee") or "").endswith("::open") and \
                            (n.get("calleeClass") or "").startswith("std::basic_"):
                        is_open = True
                    if n["k"] == "CXXOperatorCallExpr" and n.get("op") == "<<" and \
                            "ofstream" in (f.stmts[f.strip(n["args"][0])].get("t") or ""):
                        is_open = True
                    if is_open:
                        key = "OPEN-OUTSIDE-GUARD@%s" % caller
                        if not st:
                            if key not in seen_fail:
                                seen_fail.add(key)
                                fail(key, "%s: file stream opened/written in %s while no MFrontLockGuard is live"
                                     % (f.short_loc(e["s"]), caller))
                        else:
                            opens.add(e["s"])
                elif e.get("dtor") == "auto" and e.get("varId") in guard_vars:
                    return (st - {e["varId"]},)
                return (st,)
            seen_fail = set()
            opens = set()
            forward(f, [frozenset()], elem_fn)
            bad = {k for k in seen_fail}
            if not control:
                for s in sorted(opens):
                    rep.count("stream opens/writes under a live guard")
                    rep.ok("%s: %s under live guard in %s" % (f.short_loc(s), f.text(s)[:60], caller),
                           sample=False)
    return nviol, guard_ctor_sites


def run(tier):
    rep = Report("C46", tier, "other", RULE)
    dirs = ["mfront/src", "mfront-query/src", "mfront-doc/src", "mfront/mtest"]
    allu = units_under(*dirs)
    units, how = candidate_units(allu, tier)
    lockcxx = os.path.join(REPO, "mfront/src/MFrontLock.cxx")
    if lockcxx not in units:
        raise AnalysisBroken("anchor unit mfront/src/MFrontLock.cxx not in the build")
    rep.extra["units"] = [os.path.relpath(u, REPO) for u in units]
    rep.extra["unit_selection"] = how
    dumps = cfgdump(units, os.path.join(OUT, "C46", "dump"), funcs=".*",
                    records="mfront::MFrontLock.*", root=REPO)
    funcs = load_functions(dumps)
    rep.count("functions analysed", len(funcs))
    rep.count("units analysed", len(units))
    # deleted copy/move
    recs = {}
    for d in dumps.values():
        for r in d["records"]:
            recs[r["qname"]] = r
    for cls in ("mfront::MFrontLock", "mfront::MFrontLockGuard"):
        r = recs.get(cls)
        if r is None:
            raise AnalysisBroken("record %s not found" % cls)
        for kind in ("copy", "move", "copyAssign", "moveAssign"):
            ms = [m for m in r["methods"] if m.get(kind)]
            if ms and all(m.get("deleted") for m in ms):
                rep.ok("%s: %s is deleted" % (cls, kind))
            else:
                rep.fail("COPYABLE@%s#%s" % (cls, kind),
                         "%s: %s operation is not deleted; a copied lock object posts twice" % (cls, kind))
    nv, sites = check_functions(rep, funcs)
    rep.count("guard construction sites", sites)
    rep.floor("call sites of lock primitives", 5)
    rep.floor("guard construction sites", 5)
    rep.floor("stream opens/writes under a live guard", 4)
    # positive control
    ctl = os.path.join(VERIF, "controls", "C46_control.cxx")
    cd = cfgdump([ctl], os.path.join(OUT, "C46", "control"), funcs=".*",
                 flags_for=lambda u: (header_flags(), VERIF))
    cn, _ = check_functions(rep, load_functions(cd), control=True)
    if cn < 4:
        raise AnalysisBroken("positive control: expected >=4 reports, got %d" % cn)
    rep.extra["positive_control_reports"] = cn
    rep.assumptions += [
        "POSIX build (the _WIN32 branch is not compiled here)",
        "the monitor argument from the pairing rules to mutual exclusion (semaphore value <= 1 by induction "
        "over posts/waits) is the standard one and is stated in DESIGN.md, not machine-checked",
        "interfaces not enabled in /repo/_build (Abaqus, Ansys, ... ) are not parsed: a static tool sees what the build covers",
    ]
    return rep
