// replay: a signal handled by SignalManager::treatAction is delivered to a thread that is inside SignalManager::registerHandler
// (ProcessManager's constructor registers ten handlers): treatAction locks callbacksAccess, which that thread already holds.
#include <atomic>
#include <chrono>
#include <csignal>
#include <cstdio>
#include <thread>
#include <pthread.h>
#include "TFEL/System/SignalManager.hxx"
#include "TFEL/System/SignalHandler.hxx"
struct Nothing final : tfel::system::SignalHandler {
  void execute(const int) override {}
  ~Nothing() override = default;
};
int main() {
  auto& sm = tfel::system::SignalManager::getSignalManager();
  sm.registerHandler(SIGCHLD, new Nothing);
  std::atomic<long> n{0};
  std::atomic<bool> stop{false};
  std::thread worker([&] {
    while (!stop) {
      const auto id = sm.registerHandler(SIGUSR1, new Nothing);
      sm.removeHandler(id);
      ++n;
    }
  });
  const auto h = worker.native_handle();
  long last = -1;
  int stalled = 0;
  for (int i = 0; i != 3000 && stalled < 200; ++i) {
    for (int k = 0; k != 50; ++k) {
      pthread_kill(h, SIGCHLD);
    }
    std::this_thread::sleep_for(std::chrono::milliseconds(1));
    const long c = n.load();
    stalled = (c == last) ? stalled + 1 : 0;
    last = c;
  }
  if (stalled >= 200) {
    std::printf("FAIL: the worker made no progress for 200 ms after %ld registrations: it is blocked in the signal handler on the mutex it holds\n", last);
    std::fflush(stdout);
    std::_Exit(1);
  }
  stop = true;
  worker.join();
  std::printf("PASS: %ld registrations under a stream of SIGCHLD\n", n.load());
  return 0;
}
