// driver for the IEEE-class rules of C08 and C09 (lowered to IR and interpreted abstractly, never run)
#include "TFEL/Math/TinyNewtonRaphsonSolver.hxx"
#include "TFEL/Math/TinyBroydenSolver.hxx"
#include "TFEL/Math/TinyLevenbergMarquardtSolver.hxx"
#include "TFEL/Math/ScalarNewtonRaphson.hxx"

#define VERIF_NORM(NAME, BASE, N)                                                        \
  struct NAME : public tfel::math::BASE<N, double, NAME> {                               \
    bool computeResidual() noexcept { return true; }                                     \
    double rn() const noexcept { return this->computeResidualNorm(); }                   \
  };                                                                                     \
  extern "C" double verif_resnorm_##NAME(const double* f) {                              \
    NAME s;                                                                              \
    for (unsigned short i = 0; i != N; ++i) {                                            \
      s.fzeros[i] = f[i];                                                                \
    }                                                                                    \
    return s.rn();                                                                       \
  }

VERIF_NORM(NR3, TinyNewtonRaphsonSolver, 3u)
VERIF_NORM(NR2, TinyNewtonRaphsonSolver, 2u)
VERIF_NORM(BR3, TinyBroydenSolver, 3u)
VERIF_NORM(LM3, TinyLevenbergMarquardtSolver, 3u)

extern "C" bool verif_same_sign(const double a, const double b) {
  return tfel::math::BissectionAlgorithmBase<double>::haveSameSign(a, b);
}

// controls of the NORM-PROPAGATES rule (not repository code): a scaled norm whose maximum ignores NaN operands (must be reported)
// and one whose maximum keeps them (must not)
#include <algorithm>
#include <cmath>
extern "C" double verif_ctl_badnorm(const double* f) {
  auto fmax = std::abs(f[0]);
  for (unsigned short i = 1; i != 3; ++i) {
    fmax = std::max(fmax, std::abs(f[i]));
  }
  if (fmax == 0) {
    return 0;
  }
  auto n2 = 0.;
  for (unsigned short i = 0; i != 3; ++i) {
    const auto v = f[i] / fmax;
    n2 += v * v;
  }
  return fmax * std::sqrt(n2);
}
extern "C" double verif_ctl_goodnorm(const double* f) {
  auto fmax = std::abs(f[0]);
  for (unsigned short i = 1; i != 3; ++i) {
    const auto a = std::abs(f[i]);
    fmax = ((a > fmax) || (a != a)) ? a : fmax;
  }
  if (fmax == 0) {
    return 0;
  }
  auto n2 = 0.;
  for (unsigned short i = 0; i != 3; ++i) {
    const auto v = f[i] / fmax;
    n2 += v * v;
  }
  return fmax * std::sqrt(n2);
}

// C09 R7: the estimate produced from a valid bracket
extern "C" bool verif_next_estimate(double* x, const double xmin, const double xmax, const double fmin, const double fmax) {
  tfel::math::BissectionAlgorithmBase<double> b;
  b.xmin = xmin;
  b.xmax = xmax;
  b.fmin = fmin;
  b.fmax = fmax;
  return b.getNextRootEstimate(*x);
}
