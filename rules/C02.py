"""C02 — tensor and fourth-order tensor algebra matches index notation
(exact identities decided on the IR in the Poly domain)."""
from fractions import Fraction
from common import *
from absint import lower_driver, Unsupported
from tensoralg import *
from tensoralg import Specialiser
import poly as P

RULE = ("Poly-domain abstract interpretation of the -O2 IR of closed-form tensor<N>/st2tost2<N>/t2tot2<N> operations "
        "(N=1,2,3): extracted normal forms equal the 3x3 / Mandel-matrix definitions exactly")
CHANGE_BASIS_CONVENTION = "Rt.M.R"


def flat(M):
    return [x for r in M for x in r]


def run(tier):
    rep = Report("C02", tier, "proof", RULE)
    rep.trusted += ["clang 14 code generation and -O2 (thorough: cross-checked with -O1)", "bin/ir2json, lib/absint.py, lib/poly.py"]
    drv = os.path.join(VERIF, "drivers", "c02_tensor.cxx")
    for opt in ["-O2"] + (["-O1"] if tier == "thorough" else []):
        P.reset_registry()
        spz = Specialiser()
        syms = spz.syms
        sdesc = ""
        mod = lower_driver(drv, os.path.join(OUT, "C02"), "c02" + opt, opt=opt)

        def one(fname, inputs, outs):
            if fname not in mod["functions"]:
                raise AnalysisBroken("shim %s missing" % fname)
            try:
                r = run_shim(mod, fname, inputs, outs)
            except Unsupported as e:
                raise AnalysisBroken("%s (%s): outside the straight-line algebraic fragment: %s" % (fname, opt, e))
            try:
                r = [spz.select(fname, r)]
            except Unsupported as e:
                raise AnalysisBroken("%s (%s): %s" % (fname, opt, e))
            rep.count("shims interpreted (%s)" % opt)
            for v in r[0][1]:
                if any(x is None for x in v):
                    raise AnalysisBroken("%s leaves an output component unwritten" % fname)
            return r[0][1][0]

        import time as _t
        timings = rep.extra.setdefault("slowest_identities_s", {})

        def check(name, N, got, want, what):
            t0 = _t.time()
            _check(name, N, got, want, what)
            dt = _t.time() - t0
            if dt > 0.5:
                timings["%s<%d>" % (name, N)] = round(dt, 1)

        def _check(name, N, got, want, what):
            key = "IDENTITY@%s<%d>" % (name, N)
            if len(got) != len(want):
                rep.fail(key, "%s<%d>: arity mismatch %d/%d" % (name, N, len(got), len(want)))
                return
            d = first_diff(got, want)
            if d is None:
                rep.ok("%s<%d>: %s (%d components, %s)" % (name, N, what, len(got), opt), sample=(N == 3 and opt == "-O2"))
            else:
                i, x, y = d
                rep.fail(key, "%s<%d> component %d is  %r  but the definition (%s) gives  %r%s" % (name, N, i, x, what, y, sdesc),
                         component=i, optimisation=opt)
        half = Fraction(1, 2)
        for sdesc in spz.passes():
            for N in (1, 2, 3):
                ns, nt = SSZ[N], TSZ[N]
                a, b = syms("a", nt), syms("b", nt)
                A, B = tensor_matrix(a, N), tensor_matrix(b, N)
                s = syms("s", ns)
                S = stensor_matrix(s, N)
                I3 = ident()
                check("det(tensor)", N, one("verif_tdet_%d" % N, [a], [1]), [det3(A)], "det T")
                inv = one("verif_tinvert_%d" % N, [a], [nt])
                check("invert(tensor)", N, flat(matmul(tensor_matrix(inv, N), A)), flat(I3), "T^-1 . T = I")
                check("transpose(tensor)", N, one("verif_ttranspose_%d" % N, [a], [nt]), matrix_tensor(transpose(A), N), "T^t")
                check("tensor*tensor", N, one("verif_tprod_%d" % N, [a, b], [nt]), matrix_tensor(matmul(A, B), N), "A.B")
                check("trace(tensor)", N, one("verif_ttrace_%d" % N, [a], [1]), [trace3(A)], "tr T")
                sy = one("verif_syme_%d" % N, [a], [ns])
                check("syme", N, sy, matrix_stensor(A, N), "(T+T^t)/2 in Mandel form")
                us = one("verif_unsyme_%d" % N, [s], [nt])
                check("unsyme", N, us, matrix_tensor(S, N), "matrix of the Mandel vector")
                check("syme(unsyme(s)) = s", N, one("verif_syme_%d" % N, [us], [ns]), s, "round trip")
                FtF = matmul(transpose(A), A)
                FFt = matmul(A, transpose(A))
                check("computeRightCauchyGreenTensor", N, one("verif_rcg_%d" % N, [a], [ns]), matrix_stensor(FtF, N), "F^t F")
                check("computeLeftCauchyGreenTensor", N, one("verif_lcg_%d" % N, [a], [ns]), matrix_stensor(FFt, N), "F F^t")
                check("computeGreenLagrangeTensor", N, one("verif_egl_%d" % N, [a], [ns]),
                      matrix_stensor(mscale(madd(FtF, I3, 1, -1), half), N), "(F^t F - I)/2")
                pf = matrix_stensor(matmul(matmul(A, S), transpose(A)), N)
                check("push_forward", N, one("verif_pushforward_%d" % N, [s, a], [ns]), pf, "F S F^t")
                check("pushForward", N, one("verif_pushForward2_%d" % N, [s, a], [ns]), pf, "F S F^t")
                # stress conversions (det F kept as a factor)
                J = det3(A)
                pk2 = one("verif_cauchy2pk2_%d" % N, [s, a], [ns])
                pk2n, pk2d = clear_denominators(pk2)
                check("convertCauchyStressToSecondPiolaKirchhoffStress", N,
                      flat(matmul(matmul(A, stensor_matrix(pk2n, N)), transpose(A))), flat(mscale(S, J * pk2d)), "F S F^t = J sigma")
                sg = one("verif_pk22cauchy_%d" % N, [s, a], [ns])
                check("convertSecondPiolaKirchhoffStressToCauchyStress", N,
                      flat(mscale(stensor_matrix(sg, N), J)), flat(matmul(matmul(A, S), transpose(A))), "J sigma = F S F^t")
                pk1 = one("verif_cauchy2pk1_%d" % N, [s, a], [nt])
                check("convertCauchyStressToFirstPiolaKirchhoffStress", N,
                      flat(matmul(tensor_matrix(pk1, N), transpose(A))), flat(mscale(S, J)), "P F^t = J sigma")
                # PK1 -> Cauchy is only defined on admissible P (P F^t symmetric): checked as the inverse of Cauchy -> PK1
                sg1 = one("verif_pk12cauchy_%d" % N, [pk1, a], [ns])
                check("convertFirstPiolaKirchhoffStressToCauchyStress o convertCauchyStressToFirstPiolaKirchhoffStress", N,
                      sg1, s, "identity on symmetric stresses")
                check("PK2 -> Cauchy -> PK2 = id", N,
                      [x * J for x in one("verif_cauchy2pk2_%d" % N, [[x for x in sg], a], [ns])], [x * J for x in s], "round trip")
                # change of basis (tensor)
                if N > 1:
                    r = syms("r", 9)
                    R = [r[0:3], r[3:6], r[6:9]]
                    if N == 2:
                        for (i, j) in ((0, 2), (1, 2), (2, 0), (2, 1)):
                            R[i][j] = Rat(0)
                        R[2][2] = Rat(1)
                    rin = flat(R)
                    cb = one("verif_tchangebasis_%d" % N, [a, rin], [nt])
                    w1 = matrix_tensor(matmul(matmul(transpose(R), A), R), N)
                    w2 = matrix_tensor(matmul(matmul(R, A), transpose(R)), N)
                    m1, m2 = eq_list(cb, w1), eq_list(cb, w2)
                    conv = "Rt.M.R" if m1 and not m2 else ("R.M.Rt" if m2 and not m1 else "none/both")
                    if conv == CHANGE_BASIS_CONVENTION:
                        rep.ok("change_basis(tensor<%d>, r) = %s (%s)" % (N, conv, opt))
                    else:
                        rep.fail("IDENTITY@change_basis(tensor)<%d>" % N, "matches %s, expected %s" % (conv, CHANGE_BASIS_CONVENTION))
                # fourth order projectors
                Iv = [Rat(1)] * 3 + [Rat(0)] * (ns - 3)
                Ids = [[Rat(1 if i == j else 0) for j in range(ns)] for i in range(ns)]
                IxI = [[Iv[i] * Iv[j] for j in range(ns)] for i in range(ns)]
                Jm = mscale(IxI, Fraction(1, 3))
                Km = madd(Ids, Jm, 1, -1)
                gId = one("verif_ssId_%d" % N, [], [ns * ns])
                gIxI = one("verif_ssIxI_%d" % N, [], [ns * ns])
                gJ = one("verif_ssJ_%d" % N, [], [ns * ns])
                gK = one("verif_ssK_%d" % N, [], [ns * ns])
                gM = one("verif_ssM_%d" % N, [], [ns * ns])
                check("st2tost2::Id", N, gId, flat(Ids), "symmetric identity = identity matrix in the Mandel basis")
                check("st2tost2::IxI", N, gIxI, flat(IxI), "I (x) I")
                check("st2tost2::J", N, gJ, flat(Jm), "I (x) I / 3")
                check("st2tost2::K", N, gK, flat(Km), "Id - J")
                check("st2tost2::M", N, gM, flat(mscale(Km, Fraction(3, 2))), "3/2 K")
                check("J*J = J", N, one("verif_ssprod_%d" % N, [gJ, gJ], [ns * ns]), gJ, "projector")
                check("K*K = K", N, one("verif_ssprod_%d" % N, [gK, gK], [ns * ns]), gK, "projector")
                check("J*K = 0", N, one("verif_ssprod_%d" % N, [gJ, gK], [ns * ns]), [Rat(0)] * (ns * ns), "orthogonal projectors")
                Idt = [[Rat(1 if i == j else 0) for j in range(nt)] for i in range(nt)]
                Ivt = [Rat(1)] * 3 + [Rat(0)] * (nt - 3)
                IxIt = [[Ivt[i] * Ivt[j] for j in range(nt)] for i in range(nt)]
                check("t2tot2::Id", N, one("verif_ttId_%d" % N, [], [nt * nt]), flat(Idt), "identity on 9-vectors")
                check("t2tot2::IxI", N, one("verif_ttIxI_%d" % N, [], [nt * nt]), flat(IxIt), "I (x) I")
                check("t2tot2::K", N, one("verif_ttK_%d" % N, [], [nt * nt]), flat(madd(Idt, mscale(IxIt, Fraction(1, 3)), 1, -1)), "Id - IxI/3")
                # fourth order products
                c4, d4 = syms("c", ns * ns), syms("d", ns * ns)
                C4 = [c4[i * ns:(i + 1) * ns] for i in range(ns)]
                D4 = [d4[i * ns:(i + 1) * ns] for i in range(ns)]
                check("st2tost2*st2tost2", N, one("verif_ssprod_%d" % N, [c4, d4], [ns * ns]), flat(matmul(C4, D4)), "C_ijkl D_klmn")
                check("st2tost2*stensor", N, one("verif_ssapply_%d" % N, [c4, s], [ns]),
                      [sum((C4[i][j] * s[j] for j in range(ns)), Rat(0)) for i in range(ns)], "C_ijkl s_kl")
                check("transpose(st2tost2)", N, one("verif_sstranspose_%d" % N, [c4], [ns * ns]), flat(transpose(C4)), "C_klij")
                if N < 3 or tier == "thorough" or True:
                    e4, f4 = syms("e", nt * nt), syms("f", nt * nt)
                    E4 = [e4[i * nt:(i + 1) * nt] for i in range(nt)]
                    F4 = [f4[i * nt:(i + 1) * nt] for i in range(nt)]
                    check("t2tot2*t2tot2", N, one("verif_ttprod_%d" % N, [e4, f4], [nt * nt]), flat(matmul(E4, F4)), "A_ijkl B_klmn")
                    check("t2tot2*tensor", N, one("verif_ttapply_%d" % N, [e4, a], [nt]),
                          [sum((E4[i][j] * a[j] for j in range(nt)), Rat(0)) for i in range(nt)], "A_ijkl t_kl")
    rep.floor("shims interpreted (-O2)", 100)
    rep.assumptions += ["exact real arithmetic: nothing is decided about rounding or ill-conditioned inputs",
                        "storage conventions: tensor = (xx,yy,zz,xy,yx,xz,zx,yz,zy); fourth-order tensors are matrices in the "
                        "orthonormal Mandel / 9-component bases",
                        "polar decomposition (eigen-based) is not covered"]
    return rep
