// instantiates the public operator() overloads of GaussKronrodQuadrature (C12b)
#include "TFEL/Math/NumericalIntegration/GaussKronrodQuadrature.hxx"
extern "C" double verif_f(double);
double verif_gk_op(const double a, const double b) {
  const tfel::math::GaussKronrodQuadrature q;
  const auto r1 = q([](const double x) { return verif_f(x); }, a, b);
  const auto r2 = q([](const double x) { return verif_f(x); }, a, b,
                    tfel::math::GaussKronrodQuadrature::NumericalParameters<double>{});
  return (r1.has_value() ? std::get<0>(*r1) : 0) + (r2.has_value() ? *r2 : 0);
}
