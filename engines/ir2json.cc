// ir2json: lowers an LLVM IR module (text or bitcode) to a flat JSON SSA form
// for the python abstract interpreter (lib/absint.py).  GEP offsets are
// resolved through the DataLayout; no rule or domain logic lives here.
//
// usage: ir2json in.ll out.json
#include "llvm/IR/Constants.h"
#include "llvm/IR/DataLayout.h"
#include "llvm/IR/GlobalVariable.h"
#include "llvm/IR/Instructions.h"
#include "llvm/IR/IntrinsicInst.h"
#include "llvm/IR/LLVMContext.h"
#include "llvm/IR/Module.h"
#include "llvm/IR/Operator.h"
#include "llvm/IRReader/IRReader.h"
#include "llvm/Support/JSON.h"
#include "llvm/Support/SourceMgr.h"
#include "llvm/Support/raw_ostream.h"
#include <map>

using namespace llvm;

static std::string tyStr(Type *T) {
  std::string s;
  raw_string_ostream os(s);
  T->print(os);
  return os.str();
}

struct Lower {
  const DataLayout &DL;
  std::map<const Value *, std::string> ids;
  explicit Lower(const DataLayout &dl) : DL(dl) {}

  std::string idOf(const Value *V) {
    auto it = ids.find(V);
    if (it != ids.end()) return it->second;
    std::string s = "%" + std::to_string(ids.size());
    ids[V] = s;
    return s;
  }

  json::Value constant(const Constant *C) {
    json::Object o;
    if (auto *CF = dyn_cast<ConstantFP>(C)) {
      APInt bits = CF->getValueAPF().bitcastToAPInt();
      SmallString<40> hs;
      bits.toString(hs, 16, false);
      o["k"] = "f";
      o["bits"] = hs.str().str();
      o["w"] = (int64_t)bits.getBitWidth();
      SmallString<40> ds;
      CF->getValueAPF().toString(ds, 0, 0);
      o["repr"] = ds.str().str();
      return o;
    }
    if (auto *CI = dyn_cast<ConstantInt>(C)) {
      o["k"] = "i";
      o["w"] = (int64_t)CI->getBitWidth();
      if (CI->getBitWidth() <= 64) {
        o["v"] = (int64_t)CI->getSExtValue();
        o["u"] = std::to_string(CI->getZExtValue());
      } else {
        SmallString<40> hs;
        CI->getValue().toString(hs, 16, false);
        o["hex"] = hs.str().str();
      }
      return o;
    }
    if (isa<ConstantPointerNull>(C)) {
      o["k"] = "null";
      return o;
    }
    if (isa<UndefValue>(C)) {
      o["k"] = "undef";
      return o;
    }
    if (auto *F = dyn_cast<Function>(C)) {
      o["k"] = "fn";
      o["name"] = F->getName().str();
      return o;
    }
    if (auto *G = dyn_cast<GlobalVariable>(C)) {
      o["k"] = "g";
      o["name"] = G->getName().str();
      o["off"] = 0;
      return o;
    }
    if (auto *CE = dyn_cast<ConstantExpr>(C)) {
      if (auto *GEP = dyn_cast<GEPOperator>(CE)) {
        APInt off(DL.getIndexSizeInBits(GEP->getPointerAddressSpace()), 0);
        if (GEP->accumulateConstantOffset(DL, off)) {
          json::Value base = constant(cast<Constant>(GEP->getPointerOperand()));
          if (auto *bo = base.getAsObject()) {
            json::Object r = *bo;
            int64_t prev = 0;
            if (auto p = r.getInteger("off")) prev = *p;
            r["off"] = prev + off.getSExtValue();
            return r;
          }
        }
      }
      if (CE->isCast() && (CE->getOpcode() == Instruction::BitCast ||
                           CE->getOpcode() == Instruction::AddrSpaceCast))
        return constant(CE->getOperand(0));
      o["k"] = "cexpr";
      o["op"] = CE->getOpcodeName();
      return o;
    }
    if (auto *CA = dyn_cast<ConstantAggregateZero>(C)) {
      (void)CA;
      o["k"] = "zero";
      o["size"] = (int64_t)DL.getTypeAllocSize(C->getType());
      return o;
    }
    if (auto *CD = dyn_cast<ConstantDataSequential>(C)) {
      o["k"] = "agg";
      json::Array es;
      for (unsigned i = 0; i < CD->getNumElements(); ++i)
        es.push_back(constant(CD->getElementAsConstant(i)));
      o["elems"] = std::move(es);
      o["esize"] = (int64_t)DL.getTypeAllocSize(CD->getElementType());
      return o;
    }
    if (auto *CAg = dyn_cast<ConstantAggregate>(C)) {
      o["k"] = "agg";
      json::Array es;
      for (unsigned i = 0; i < CAg->getNumOperands(); ++i)
        es.push_back(constant(CAg->getOperand(i)));
      o["elems"] = std::move(es);
      if (auto *ST = dyn_cast<StructType>(C->getType())) {
        json::Array offs;
        const StructLayout *SL = DL.getStructLayout(ST);
        for (unsigned i = 0; i < ST->getNumElements(); ++i)
          offs.push_back((int64_t)SL->getElementOffset(i));
        o["offsets"] = std::move(offs);
      } else if (auto *AT = dyn_cast<ArrayType>(C->getType())) {
        o["esize"] = (int64_t)DL.getTypeAllocSize(AT->getElementType());
      } else if (auto *VT = dyn_cast<FixedVectorType>(C->getType())) {
        o["esize"] = (int64_t)DL.getTypeAllocSize(VT->getElementType());
      }
      return o;
    }
    o["k"] = "other";
    return o;
  }

  json::Value operand(const Value *V) {
    if (auto *C = dyn_cast<Constant>(V)) {
      json::Object o;
      o["c"] = constant(C);
      return o;
    }
    if (isa<BasicBlock>(V)) {
      json::Object o;
      o["b"] = idOf(V);
      return o;
    }
    if (isa<MetadataAsValue>(V)) {
      json::Object o;
      o["md"] = true;
      return o;
    }
    json::Object o;
    o["v"] = idOf(V);
    return o;
  }

  json::Object inst(const Instruction &I) {
    json::Object o;
    o["id"] = idOf(&I);
    o["op"] = I.getOpcodeName();
    o["ty"] = tyStr(I.getType());
    if (!I.getType()->isVoidTy() && I.getType()->isSized())
      o["size"] = (int64_t)DL.getTypeStoreSize(I.getType());
    json::Array ops;
    if (auto *GEP = dyn_cast<GetElementPtrInst>(&I)) {
      ops.push_back(operand(GEP->getPointerOperand()));
      APInt coff(DL.getIndexSizeInBits(GEP->getPointerAddressSpace()), 0);
      MapVector<Value *, APInt> var;
      if (GEP->collectOffset(DL, coff.getBitWidth(), var, coff)) {
        o["off"] = (int64_t)coff.getSExtValue();
        json::Array terms;
        for (auto &kv : var) {
          json::Object t;
          t["v"] = operand(kv.first);
          t["scale"] = (int64_t)kv.second.getSExtValue();
          terms.push_back(std::move(t));
        }
        o["terms"] = std::move(terms);
      } else {
        o["unsupported"] = true;
      }
    } else if (auto *PN = dyn_cast<PHINode>(&I)) {
      json::Array inc;
      for (unsigned i = 0; i < PN->getNumIncomingValues(); ++i) {
        json::Object e;
        e["val"] = operand(PN->getIncomingValue(i));
        e["from"] = idOf(PN->getIncomingBlock(i));
        inc.push_back(std::move(e));
      }
      o["incoming"] = std::move(inc);
    } else if (auto *CB = dyn_cast<CallBase>(&I)) {
      if (const Function *F = CB->getCalledFunction()) {
        o["callee"] = F->getName().str();
        if (F->isIntrinsic()) o["intrinsic"] = true;
        if (F->isDeclaration()) o["external"] = true;
      } else {
        o["callee"] = "";
        o["calleeOp"] = operand(CB->getCalledOperand());
      }
      for (auto &A : CB->args()) ops.push_back(operand(A.get()));
      if (auto *II = dyn_cast<InvokeInst>(&I)) {
        o["normal"] = idOf(II->getNormalDest());
        o["unwind"] = idOf(II->getUnwindDest());
      }
      for (unsigned i = 0; i < CB->arg_size(); ++i)
        if (CB->paramHasAttr(i, Attribute::StructRet)) o["sret"] = (int64_t)i;
    } else if (auto *BI = dyn_cast<BranchInst>(&I)) {
      if (BI->isConditional()) {
        ops.push_back(operand(BI->getCondition()));
        o["t"] = idOf(BI->getSuccessor(0));
        o["f"] = idOf(BI->getSuccessor(1));
      } else {
        o["t"] = idOf(BI->getSuccessor(0));
      }
    } else if (auto *SI = dyn_cast<SwitchInst>(&I)) {
      ops.push_back(operand(SI->getCondition()));
      o["default"] = idOf(SI->getDefaultDest());
      json::Array cases;
      for (auto &C : SI->cases()) {
        json::Object c;
        c["val"] = constant(C.getCaseValue());
        c["to"] = idOf(C.getCaseSuccessor());
        cases.push_back(std::move(c));
      }
      o["cases"] = std::move(cases);
    } else {
      for (const Use &U : I.operands()) ops.push_back(operand(U.get()));
    }
    if (auto *CI = dyn_cast<CmpInst>(&I))
      o["pred"] = CmpInst::getPredicateName(CI->getPredicate()).str();
    if (auto *AI = dyn_cast<AllocaInst>(&I)) {
      o["allocSize"] = (int64_t)DL.getTypeAllocSize(AI->getAllocatedType());
      o["allocTy"] = tyStr(AI->getAllocatedType());
    }
    if (auto *LI = dyn_cast<LoadInst>(&I)) {
      (void)LI;
    }
    if (auto *SI = dyn_cast<StoreInst>(&I)) {
      o["size"] = (int64_t)DL.getTypeStoreSize(SI->getValueOperand()->getType());
      o["valTy"] = tyStr(SI->getValueOperand()->getType());
    }
    if (auto *EV = dyn_cast<ExtractValueInst>(&I)) {
      json::Array ix;
      for (unsigned i : EV->indices()) ix.push_back((int64_t)i);
      o["indices"] = std::move(ix);
    }
    if (auto *IV = dyn_cast<InsertValueInst>(&I)) {
      json::Array ix;
      for (unsigned i : IV->indices()) ix.push_back((int64_t)i);
      o["indices"] = std::move(ix);
    }
    if (auto *SV = dyn_cast<ShuffleVectorInst>(&I)) {
      json::Array mk;
      for (int m : SV->getShuffleMask()) mk.push_back((int64_t)m);
      o["mask"] = std::move(mk);
    }
    if (auto *FPO = dyn_cast<FPMathOperator>(&I)) {
      if (FPO->isFast() || FPO->hasAllowReassoc()) o["fast"] = true;
    }
    if (auto *CO = dyn_cast<CastInst>(&I)) {
      o["srcTy"] = tyStr(CO->getSrcTy());
      if (CO->getSrcTy()->isSized())
        o["srcBits"] = (int64_t)DL.getTypeSizeInBits(CO->getSrcTy());
      if (CO->getDestTy()->isSized())
        o["dstBits"] = (int64_t)DL.getTypeSizeInBits(CO->getDestTy());
    }
    if (I.getType()->isIntegerTy())
      o["bits"] = (int64_t)I.getType()->getIntegerBitWidth();
    o["ops"] = std::move(ops);
    return o;
  }
};

int main(int argc, char **argv) {
  if (argc < 3) {
    errs() << "usage: ir2json in.ll out.json\n";
    return 2;
  }
  LLVMContext Ctx;
  SMDiagnostic Err;
  std::unique_ptr<Module> M = parseIRFile(argv[1], Err, Ctx);
  if (!M) {
    Err.print("ir2json", errs());
    return 2;
  }
  const DataLayout &DL = M->getDataLayout();
  json::Object root;
  json::Object funcs;
  for (const Function &F : *M) {
    if (F.isDeclaration()) continue;
    Lower L(DL);
    json::Object fo;
    json::Array args;
    for (const Argument &A : F.args()) {
      json::Object a;
      a["id"] = L.idOf(&A);
      a["ty"] = tyStr(A.getType());
      if (A.hasStructRetAttr()) a["sret"] = true;
      if (A.hasByValAttr()) {
        a["byval"] = true;
        a["byvalSize"] = (int64_t)DL.getTypeAllocSize(A.getParamByValType());
      }
      args.push_back(std::move(a));
    }
    fo["args"] = std::move(args);
    fo["ret"] = tyStr(F.getReturnType());
    // assign block ids first so that forward references resolve
    for (const BasicBlock &B : F) L.idOf(&B);
    json::Array blocks;
    for (const BasicBlock &B : F) {
      json::Object bo;
      bo["id"] = L.idOf(&B);
      json::Array insts;
      for (const Instruction &I : B) {
        if (isa<DbgInfoIntrinsic>(&I)) continue;
        insts.push_back(L.inst(I));
      }
      bo["insts"] = std::move(insts);
      blocks.push_back(std::move(bo));
    }
    fo["blocks"] = std::move(blocks);
    fo["entry"] = L.idOf(&F.getEntryBlock());
    funcs[F.getName()] = std::move(fo);
  }
  root["functions"] = std::move(funcs);
  json::Object globals;
  for (const GlobalVariable &G : M->globals()) {
    json::Object go;
    go["const"] = G.isConstant();
    if (G.hasInitializer()) {
      Lower L(DL);
      go["init"] = L.constant(G.getInitializer());
      go["size"] = (int64_t)DL.getTypeAllocSize(G.getValueType());
    }
    globals[G.getName()] = std::move(go);
  }
  root["globals"] = std::move(globals);
  std::error_code EC;
  raw_fd_ostream os(argv[2], EC);
  os << json::Value(std::move(root)) << "\n";
  return 0;
}
