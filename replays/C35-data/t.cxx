// replay: tfel::utilities::Data::read on an input that stops after an element of a vector / after the ':' of a numeric map
#include <iostream>
#include "TFEL/Utilities/CxxTokenizer.hxx"
#include "TFEL/Utilities/Data.hxx"
int main(int argc, char** argv) {
  const std::string s = argc > 1 ? argv[1] : "{1,2";
  tfel::utilities::CxxTokenizer t;
  t.parseString(s);
  auto p = t.begin();
  try {
    tfel::utilities::Data::read(p, t.end());
    std::cout << "read without error\n";
  } catch (std::exception& e) {
    std::cout << "error reported: " << e.what() << "\n";
  }
  return 0;
}
