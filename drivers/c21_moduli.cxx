// shims for isotropic moduli and stiffness tensors (C21)
#include "TFEL/Material/IsotropicModuli.hxx"
#include "TFEL/Material/Lame.hxx"
#include "TFEL/Material/StiffnessTensor.hxx"
using namespace tfel::material;
using namespace tfel::math;
using MH = ModellingHypothesis;
using ALT = StiffnessTensorAlterationCharacteristic;
extern "C" void verif_lambda(const double* a, double* o) { o[0] = computeLambda<double>(a[0], a[1]); }
extern "C" void verif_mu(const double* a, double* o) { o[0] = computeMu<double>(a[0], a[1]); }
extern "C" void verif_EN_to_LM(const double* a, double* o) { const auto r = YoungNuModuli<double>(a[0], a[1]).ToLambdaMu(); o[0] = r.lambda; o[1] = r.mu; }
extern "C" void verif_EN_to_KG(const double* a, double* o) { const auto r = YoungNuModuli<double>(a[0], a[1]).ToKG(); o[0] = r.kappa; o[1] = r.mu; }
extern "C" void verif_KG_to_EN(const double* a, double* o) { const auto r = KGModuli<double>(a[0], a[1]).ToYoungNu(); o[0] = r.young; o[1] = r.nu; }
extern "C" void verif_KG_to_LM(const double* a, double* o) { const auto r = KGModuli<double>(a[0], a[1]).ToLambdaMu(); o[0] = r.lambda; o[1] = r.mu; }
extern "C" void verif_LM_to_EN(const double* a, double* o) { const auto r = LambdaMuModuli<double>(a[0], a[1]).ToYoungNu(); o[0] = r.young; o[1] = r.nu; }
extern "C" void verif_LM_to_KG(const double* a, double* o) { const auto r = LambdaMuModuli<double>(a[0], a[1]).ToKG(); o[0] = r.kappa; o[1] = r.mu; }
extern "C" void verif_iso_from_KG(const double* a, double* o) {
  const auto C = computeIsotropicStiffnessTensor(KGModuli<double>(a[0], a[1]));
  for (unsigned short i = 0; i != 6; ++i) for (unsigned short j = 0; j != 6; ++j) o[6 * i + j] = C(i, j);
}
extern "C" void verif_KG_from_iso(const double* c, double* o) {
  st2tost2<3u, double> C;
  for (unsigned short i = 0; i != 6; ++i) for (unsigned short j = 0; j != 6; ++j) C(i, j) = c[6 * i + j];
  const auto r = computeKGModuli(C);
  o[0] = r.kappa; o[1] = r.mu;
}
template <MH::Hypothesis H, ALT A, unsigned short N>
static void iso(const double* a, double* o) {
  st2tost2<N, double> D;
  computeIsotropicStiffnessTensor<H, A>(D, a[0], a[1]);
  constexpr auto n = StensorDimeToSize<N>::value;
  for (unsigned short i = 0; i != n; ++i) for (unsigned short j = 0; j != n; ++j) o[n * i + j] = D(i, j);
}
template <MH::Hypothesis H, ALT A, unsigned short N>
static void ortho(const double* a, double* o) {
  st2tost2<N, double> D;
  computeOrthotropicStiffnessTensor<H, A>(D, a[0], a[1], a[2], a[3], a[4], a[5], a[6], a[7], a[8]);
  constexpr auto n = StensorDimeToSize<N>::value;
  for (unsigned short i = 0; i != n; ++i) for (unsigned short j = 0; j != n; ++j) o[n * i + j] = D(i, j);
}
#define HYP(NAME, H, N)                                                                             \
  extern "C" void verif_iso_##NAME##_U(const double* a, double* o) { iso<MH::H, ALT::UNALTERED, N>(a, o); }   \
  extern "C" void verif_iso_##NAME##_A(const double* a, double* o) { iso<MH::H, ALT::ALTERED, N>(a, o); }     \
  extern "C" void verif_ortho_##NAME##_U(const double* a, double* o) { ortho<MH::H, ALT::UNALTERED, N>(a, o); } \
  extern "C" void verif_ortho_##NAME##_A(const double* a, double* o) { ortho<MH::H, ALT::ALTERED, N>(a, o); }
HYP(tridimensional, TRIDIMENSIONAL, 3)
HYP(planestrain, PLANESTRAIN, 2)
HYP(planestress, PLANESTRESS, 2)
HYP(axisymmetrical, AXISYMMETRICAL, 2)
HYP(generalisedplanestrain, GENERALISEDPLANESTRAIN, 2)
HYP(axigps, AXISYMMETRICALGENERALISEDPLANESTRAIN, 1)
HYP(axigpstress, AXISYMMETRICALGENERALISEDPLANESTRESS, 1)
