"""C55 — strain-measure finite-strain strategies: decode tables, status
discipline, invalid-code rejection, pointer restore (structural clauses)."""
from gbrules import *

RULE = ("K[1]/K[2] decode tables (Intervals(1)); TRISTATE on the inner integrate status in the three wrappers; "
        "invalid stress-measure/tangent-operator codes rejected before any write; swapped pointers restored; "
        "K[0] table through the wrappers (post-processing runs exactly for the computations performed)")


def run(tier):
    rep = Report("C55", tier, "other", RULE)
    per = load_corpus("C55")
    hyps = None if tier == "thorough" else ("TRIDIMENSIONAL",)
    for unit, funcs in sorted(per.items()):
        rep.count("generated units analysed")
        rep.count("functions analysed", len(funcs))
        ws = [w for w in WRAPPERS if any(f.qname == w for f in funcs)]
        if not ws:
            continue
        rule_tristate(rep, [f for f in funcs if f.qname in WRAPPERS], "C55")
        rule_invalid_before_write(rep, funcs)
        rule_restore(rep, funcs)
        rule_epoch(rep, funcs)
        rule_writeback(rep, funcs)
        for w in ws:
            rule_k0_tables(rep, funcs, w, hyps)
        if "FiniteStrain" in unit:
            rule_k12_tables(rep, funcs)
    rep.floor("tri-state status variables", 15)
    rep.floor("handler calls examined for epoch agreement", 20)
    rep.floor("wrapper instantiations (invalid-code rule)", 15)
    rep.floor("K[1]/K[2] code obligations", 12)
    rep.floor("K[0] code obligations", 48)
    rep.assumptions += [
        "corpus = /verif/corpus/gb/*.mfront (Hencky, Green-Lagrange, finite strain)",
        "not decided: that the returned stress is the SVK/Hencky stress and the operator its derivative"]
    return rep
