// shims for the inverse Langevin approximations (C26)
#include <cmath>
#include <utility>
#include "TFEL/Config/TFELConfig.hxx"
#include "TFEL/Math/General/Abs.hxx"
#include "TFEL/Math/power.hxx"
#include "TFEL/Material/InverseLangevinFunction.hxx"
using namespace tfel::material;
using A = InverseLangevinFunctionApproximations;
#define SH(NAME, APPROX)                                                                      \
  extern "C" void verif_f_##NAME(const double* y, double* o) {                               \
    o[0] = computeApproximateInverseLangevinFunction<A::APPROX, double>(y[0]);               \
  }                                                                                           \
  extern "C" void verif_fd_##NAME(const double* y, double* o) {                              \
    const auto r = computeApproximateInverseLangevinFunctionAndDerivative<A::APPROX, double>(y[0]); \
    o[0] = r.first;                                                                           \
    o[1] = r.second;                                                                          \
  }
SH(cohen, COHEN_1991)
SH(jedynak, JEDYNAK_2015)
SH(morch, MORCH_2022)
SH(kuhngrun, KUHN_GRUN_1942)
extern "C" void verif_f_bb(const double* y, double* o) {
  o[0] = computeBergstromBoyce1998ApproximateInverseLangevinFunction<double>(y[0]);
}
extern "C" void verif_fd_bb(const double* y, double* o) {
  const auto r = computeBergstromBoyce1998ApproximateInverseLangevinFunctionAndDerivative<double>(y[0]);
  o[0] = r.first;
  o[1] = r.second;
}
