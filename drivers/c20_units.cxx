// driver for C20: (i) makes the named units visible to cfgdump --records, (ii) shims of the quantity operators whose IR
// must be the plain floating operation on the payloads. Only parsed / lowered, never run.
#include "TFEL/Math/qt.hxx"
using namespace tfel::math;
using stress = qt<unit::Stress, double>;
using length = qt<unit::Length, double>;
extern "C" void verif_qt_add(const double* in, double* out) { stress a(in[0]), b(in[1]); out[0] = (a + b).getValue(); }
extern "C" void verif_qt_sub(const double* in, double* out) { stress a(in[0]), b(in[1]); out[0] = (a - b).getValue(); }
extern "C" void verif_qt_mul(const double* in, double* out) { stress a(in[0]); length b(in[1]); out[0] = (a * b).getValue(); }
extern "C" void verif_qt_div(const double* in, double* out) { stress a(in[0]); length b(in[1]); out[0] = (a / b).getValue(); }
extern "C" void verif_qt_neg(const double* in, double* out) { stress a(in[0]); out[0] = (-a).getValue(); }
extern "C" void verif_qt_scal(const double* in, double* out) { stress a(in[0]); out[0] = (2. * a).getValue(); }
extern "C" void verif_qt_expr(const double* in, double* out) {
  stress a(in[0]), b(in[1]);
  const qt<unit::NoUnit, double> r = (a + b) * (a - b) / (a * a);
  out[0] = r.getValue();
}
extern "C" void verif_qt_pow2(const double* in, double* out) { stress a(in[0]); out[0] = power<2>(a).getValue(); }
extern "C" void verif_qt_pluseq(const double* in, double* out) { stress a(in[0]), b(in[1]); a += b; out[0] = a.getValue(); }
extern "C" void verif_qt_cast(const double* in, double* out) { stress a(in[0]); out[0] = base_type_cast(a); }
