#!/bin/bash
# usage: safe.sh <timeout-seconds> <command...>
# runs the command in a private mount namespace with an empty tmpfs over
# /dev/shm, so that a crashing mfront can only leave a *private* named
# semaphore behind. The command is run under `timeout` inside that namespace.
t="$1"; shift
exec unshare -m bash -c 'mount -t tmpfs tmpfs /dev/shm && exec timeout -s KILL "$0" "$@"' "$t" "$@"
