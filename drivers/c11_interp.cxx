// shims for the C11 clauses (closed forms of the local interpolants); lowered to IR and interpreted abstractly
#include <array>
#include <utility>
#include "TFEL/Math/CubicSpline.hxx"
#include "TFEL/Math/LinearInterpolation.hxx"
using namespace tfel::math;
using Pt = CubicSplineCollocationPoint<double, double>;
// in = [x, x0, y0, d0, x1, y1, d1, x2, y2, d2]
template <bool E>
static void cs_vd(const double* in, double* out) {
  const std::array<Pt, 3> p = {Pt{in[1], in[2], in[3]}, Pt{in[4], in[5], in[6]}, Pt{in[7], in[8], in[9]}};
  const auto r = computeCubicSplineInterpolationAndDerivative<E>(p, in[0]);
  out[0] = r.first;
  out[1] = r.second;
  out[2] = computeCubicSplineInterpolation<E>(p, in[0]);
}
extern "C" void verif_cs_vd_ext(const double* in, double* out) { cs_vd<true>(in, out); }
extern "C" void verif_cs_vd_clamp(const double* in, double* out) { cs_vd<false>(in, out); }
// in = [xa, xb, pa.x, pa.y, pa.d, pb.x, pb.y, pb.d]
extern "C" void verif_cs_int(const double* in, double* out) {
  out[0] = internals::computeCubicSplineLocalIntegral(in[0], in[1], Pt{in[2], in[3], in[4]}, Pt{in[5], in[6], in[7]});
}
// in = [a, x0, x1, x2, v0, v1, v2]
template <bool E>
static void li_vd(const double* in, double* out) {
  const std::array<double, 3> x = {in[1], in[2], in[3]};
  const std::array<double, 3> v = {in[4], in[5], in[6]};
  const auto r = computeLinearInterpolationAndDerivative<E>(x, v, in[0]);
  out[0] = r.first;
  out[1] = r.second;
  out[2] = computeLinearInterpolation<E>(x, v, in[0]);
}
extern "C" void verif_li_vd_ext(const double* in, double* out) { li_vd<true>(in, out); }
extern "C" void verif_li_vd_clamp(const double* in, double* out) { li_vd<false>(in, out); }

// larger tables (the searches - lower_bound, findIndex - take their general paths): NN nodes
constexpr std::size_t NN = 12;
// in = [x, x0, y0, d0, ..., x11, y11, d11]
extern "C" void verif_cs_vd_ext_n(const double* in, double* out) {
  std::array<Pt, NN> p;
  for (std::size_t i = 0; i != NN; ++i) p[i] = Pt{in[1 + 3 * i], in[2 + 3 * i], in[3 + 3 * i]};
  const auto r = computeCubicSplineInterpolationAndDerivative<true>(p, in[0]);
  out[0] = r.first;
  out[1] = r.second;
}
// in = [a, x0..x11, v0..v11]
extern "C" void verif_li_vd_ext_n(const double* in, double* out) {
  std::array<double, NN> x, v;
  for (std::size_t i = 0; i != NN; ++i) { x[i] = in[1 + i]; v[i] = in[1 + NN + i]; }
  const auto r = computeLinearInterpolationAndDerivative<true>(x, v, in[0]);
  out[0] = r.first;
  out[1] = r.second;
}
