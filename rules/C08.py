"""C08 — fixed-size nonlinear solvers never claim false convergence: soundness
and budget clauses decided on the clang CFG of every instantiation
(drivers/c08_solvers.cxx: Newton-Raphson, Broyden, Broyden2, Powell dog-leg x2,
Levenberg-Marquardt, with an opaque residual).

 R1 solveNonLinearSystem2: every 'return true' is reached only on paths where
    (i) the last computeResidual() call returned true and no write to the
    unknowns (this->zeros, directly or through a hook of the who-writes-zeros
    set) happened since, (ii) 'error' is the value of computeResidualNorm()
    computed after that call, (iii) isfinite(error) was tested true and
    (iv) checkConvergence(error) was true;
 R2 who-writes-zeros, computed over all solver classes and hooks of the
    driver, is exactly the confirmed set;
 R3 solveNonLinearSystem returns true only on the true edge of
    solveNonLinearSystem2() with no write to zeros afterwards; no other
    function of the solver family returns the literal true from a 'solve';
 R4 budget: iter is written only by '++' and by the reset at the start of
    solveNonLinearSystem; every '++iter' happens where 'iter != iterMax' is
    known (dominating test, no increment in between); solveNonLinearSystem2 is
    only called where it is known: hence iter <= iterMax is inductive;
 R5 a false computeNewCorrection() leads to 'return false' with no write to
    zeros in between.
"""
import os, re
from common import *
from cfg import *

RULE = ("typestate/must-precede automata with three-valued branch facts over the CFG of solveNonLinearSystem(2) for six "
        "solver instantiations: success only after an accepted, finite, converged residual at the current unknowns; "
        "who-writes-zeros set; iteration budget inductive")
BASE = "tfel::math::TinyNonLinearSolverBase"
# confirmed by reading (2026-09-22): the only functions that write this->zeros
ZERO_WRITERS = {"solveNonLinearSystem2": "applies the correction (zeros += delta_zeros)",
                "solveNonLinearSystem": "restart: halves the last correction or the estimate",
                "computeNewCorrection": "Levenberg-Marquardt only: rejects the last step (zeros -= delta_zeros)"}


def rel(loc):
    return loc.replace(REPO + "/", "")


def short(f):
    m = re.match(r"tfel::math::(\w+)<(\d+), double, (\w+)", f.display)
    return "%s<%s,%s>::%s" % (m.group(1), m.group(2), m.group(3), f.qname.rsplit("::", 1)[-1]) if m else f.display


def writes_member(f, member):
    """statement ids that write this-><member> (assignment, compound assignment, overloaded operator)."""
    res = []
    for s, n in f.stmts.items():
        bo = None
        if n["k"] in ("BinaryOperator", "CompoundAssignOperator") and n["op"] in ("=", "+=", "-=", "*=", "/="):
            bo = f.kids(s)[0]
        elif n["k"] == "CXXOperatorCallExpr" and n.get("op") in ("=", "+=", "-=", "*=", "/=") and n.get("args"):
            bo = n["args"][0]
        elif n["k"] == "UnaryOperator" and n["op"] in ("++", "--"):
            bo = f.kids(s)[0]
        if bo is None:
            continue
        p = f.path(bo) or ""
        if re.match(r"^this->%s(\b|\(|\[)" % re.escape(member), p) or p == "this->" + member:
            res.append(s)
    return res


def run(tier):
    rep = Report("C08", tier, "other", RULE)
    drv = os.path.join(VERIF, "drivers", "c08_solvers.cxx")
    d = cfgdump([drv], os.path.join(OUT, "C08", "dump"),
                funcs=r"^tfel::math::(Tiny[A-Za-z0-9]+Solver|TinyNonLinearSolverBase|TinyPowellDogLegAlgorithmBase)",
                flags_for=lambda u: (header_flags(), VERIF))
    funcs = [f for f in load_functions(d)]
    rep.count("functions analysed", len(funcs))
    # ---------------- R2 who writes zeros
    writers = {}
    for f in funcs:
        w = writes_member(f, "zeros")
        if w:
            writers.setdefault(f.qname.rsplit("::", 1)[-1], []).append((f, w))
    for name, lst in sorted(writers.items()):
        for f, w in lst:
            rep.count("writers of zeros")
            if name in ZERO_WRITERS:
                rep.ok("%s writes zeros (%s)" % (short(f), ZERO_WRITERS[name]), sample=False)
            else:
                rep.fail("WHO-WRITES-ZEROS@%s" % name, "%s: %s writes the unknowns (%s); confirmed writers are %s"
                         % (rel(f.short_loc(w[0])), short(f), f.text(w[0]), sorted(ZERO_WRITERS)))
    hook_writers = set(writers) - {"solveNonLinearSystem2", "solveNonLinearSystem"}

    def is_zero_write(f, sid, own):
        n = f.stmts[sid]
        if sid in own:
            return True
        if n["k"] in ("CXXMemberCallExpr", "CallExpr"):
            nm = (n.get("callee") or "").rsplit("::", 1)[-1]
            return nm in hook_writers
        return False

    # ---------------- R1 / R5 on solveNonLinearSystem2
    s2 = [f for f in funcs if f.qname.startswith(BASE + "<") and f.qname.endswith(">::solveNonLinearSystem2")]
    if len(s2) < 6:
        raise AnalysisBroken("only %d instantiations of solveNonLinearSystem2" % len(s2))
    for f in s2:
        rep.count("instantiations of solveNonLinearSystem2")
        own = set(writes_member(f, "zeros"))
        # variables
        var_of = {}     # declId -> role
        for s, n in f.stmts.items():
            if n["k"] == "DeclStmt":
                for dd in n["decls"]:
                    if "init" in dd:
                        i = f.strip(dd["init"])
                        c = f.stmts[i]
                        nm = (c.get("callee") or "").rsplit("::", 1)[-1]
                        if c["k"] == "CXXMemberCallExpr" and nm == "computeResidualNorm":
                            var_of[dd["declId"]] = "error"
                        if c["k"] == "CallExpr" and nm == "isfinite":
                            var_of[dd["declId"]] = "finite"
        def call_name(s):
            n = f.stmts[s]
            if n["k"] in ("CXXMemberCallExpr", "CallExpr"):
                return (n.get("callee") or "").rsplit("::", 1)[-1]
            return None

        def atom(f_, s):
            n = f_.stmts[s]
            nm = call_name(s)
            if nm in ("computeResidual", "computeNewCorrection"):
                return (nm, False)
            if n["k"] == "DeclRefExpr":
                r = var_of.get(n.get("declId"))
                if r == "finite":
                    return ("finite", False)
                if n.get("name") == "converged":
                    return ("converged", False)
            if nm == "isfinite":
                return ("finite", False)
            if nm == "checkConvergence":
                return ("converged", False)
            return None

        def direct_on_error(cond, callee_name):
            """the condition contains a direct call callee_name(error) on the residual-norm variable."""
            for x in f.walk(cond):
                m = f.stmts[x]
                if m["k"] in ("CallExpr", "CXXMemberCallExpr") and (m.get("callee") or "").rsplit("::", 1)[-1] == callee_name and m.get("args"):
                    an = f.stmts[f.strip(m["args"][0])]
                    if var_of.get(an.get("declId")) == "error":
                        return True
            return False
        bad = []
        good = []
        r5bad = []

        # state: (facts, R, E, Fv, Cv, ncfail)
        def el(st, b, i, e):
            facts, R, E, Fv, Cv, ncf = st
            if "s" not in e:
                return (st,)
            s = e["s"]
            n = f.stmts[s]
            fx = dict(facts)
            nm = call_name(s)
            if is_zero_write(f, s, own):
                if ncf:
                    r5bad.append(s)
                R, E, Fv, Cv = "stale", False, False, False
                fx.pop("finite", None)
                fx.pop("converged", None)
            if nm == "computeResidual":
                R, E, Fv, Cv = "pending", False, False, False
                fx.pop("computeResidual", None)
                fx.pop("finite", None)
                fx.pop("converged", None)
            if n["k"] == "DeclStmt":
                for dd in n["decls"]:
                    r = var_of.get(dd.get("declId"))
                    if r == "error":
                        E = (R == "ok")
                        Fv = Cv = False
                        fx.pop("finite", None)
                        fx.pop("converged", None)
                    if r == "finite":
                        a = f.stmts[f.strip(dd["init"])]["args"]
                        an = f.stmts[f.strip(a[0])]
                        Fv = E and var_of.get(an.get("declId")) == "error"
                        fx.pop("finite", None)
            ass = None
            if n["k"] == "BinaryOperator" and n["op"] == "=":
                l, r = f.kids(s)[:2]
                ln = f.stmts[f.strip(l)]
                if ln["k"] == "DeclRefExpr" and ln.get("name") == "converged":
                    rn = f.stmts[f.strip(r)]
                    fx.pop("converged", None)
                    Cv = False
                    if rn["k"] == "CXXMemberCallExpr" and (rn.get("callee") or "").endswith("::checkConvergence"):
                        an = f.stmts[f.strip(rn["args"][0])]
                        Cv = E and var_of.get(an.get("declId")) == "error"
                    elif rn["k"] == "CXXBoolLiteralExpr":
                        fx["converged"] = bool(rn["value"])
            if n["k"] == "ReturnStmt":
                ks = f.kids(s)
                v = f.stmts[f.strip(ks[0])] if ks else None
                if v is not None and v["k"] == "CXXBoolLiteralExpr":
                    if v["value"]:
                        ok_ = R == "ok" and E and Fv and Cv and fx.get("finite") is True and fx.get("converged") is True
                        (good if ok_ else bad).append((s, dict(R=R, error_fresh=E, finite_tested=Fv and fx.get("finite"),
                                                               converged=Cv and fx.get("converged"))))
                elif v is not None:
                    # returning a variable: must be 'converged' established as above
                    ok_ = v["k"] == "DeclRefExpr" and v.get("name") == "converged" and \
                        (fx.get("converged") is False or (R == "ok" and E and Fv and Cv and fx.get("finite") is True))
                    (good if ok_ else bad).append((s, dict(R=R, returns=f.text(ks[0]))))
            return ((tuple(sorted(fx.items())), R, E, Fv, Cv, ncf),)

        def ed(st, b, succ, pol):
            facts, R, E, Fv, Cv, ncf = st
            fx = branch(f, b, pol, dict(facts), atom)
            if fx is None:
                return ()
            if R == "pending" and fx.get("computeResidual") is not None:
                R = "ok" if fx["computeResidual"] else "failed"
            old = dict(facts)
            if b.cond is not None:
                # tests written directly on the calls (no temporaries): bind them to the current residual evaluation
                if "finite" in fx and "finite" not in old and direct_on_error(b.cond, "isfinite"):
                    Fv = E
                if "converged" in fx and "converged" not in old and direct_on_error(b.cond, "checkConvergence"):
                    Cv = E
            if fx.get("computeNewCorrection") is False:
                ncf = True
            if fx.get("computeNewCorrection") is True:
                fx.pop("computeNewCorrection")
            return ((tuple(sorted(fx.items())), R, E, Fv, Cv, ncf),)
        forward(f, [((), "none", False, False, False, False)], el, ed)
        if not good and not bad:
            raise AnalysisBroken("%s: no return statement recognised" % short(f))
        for s, info in bad:
            rep.fail("FALSE-CONVERGENCE@solveNonLinearSystem2",
                     "%s: %s can return success on a path where %s (required: last computeResidual() true with the unknowns "
                     "untouched since, error = computeResidualNorm() after it, isfinite(error) true, checkConvergence(error) true)"
                     % (rel(f.short_loc(s)), short(f), info))
        if not bad:
            rep.ok("%s: every success return follows an accepted, finite, converged residual evaluated at the current unknowns"
                   % short(f), sample=("NR3" in f.display))
        if r5bad:
            rep.fail("CORRECTION-FAILURE-WRITES@solveNonLinearSystem2", "%s: %s writes the unknowns after computeNewCorrection() failed"
                     % (rel(f.short_loc(r5bad[0])), short(f)))
        else:
            rep.ok("%s: no write to the unknowns after a failed computeNewCorrection()" % short(f), sample=False)

    # ---------------- R6 customisation points are reached through the child (CRTP): a call through 'this' binds to the
    # base-class default and silently ignores the criterion / hooks supplied by the derived class
    for f in [g for g in funcs if g.qname.startswith(BASE + "<") and g.qname.rsplit("::", 1)[-1] in ("solveNonLinearSystem", "solveNonLinearSystem2")]:
        for s_, n in f.stmts.items():
            if n["k"] != "CXXMemberCallExpr":
                continue
            cls = n.get("calleeClass") or ""
            if not cls.startswith("tfel::math::Tiny"):
                continue
            rep.count("hook call sites in the core loops")
            o = f.stmts[f.strip(n.get("obj"))] if n.get("obj") else {}
            nm = (n.get("callee") or "").rsplit("::", 1)[-1]
            if o.get("k") == "CXXThisExpr":
                rep.fail("CRTP-DISPATCH@%s#%s" % (f.qname.rsplit("::", 1)[-1], nm),
                         "%s: %s calls %s through 'this': the call binds to TinyNonLinearSolverBase's default and ignores the version "
                         "supplied by the derived solver (e.g. a user convergence criterion), so success can be reported at a point that "
                         "does not satisfy the solver's own criterion" % (rel(f.short_loc(s_)), short(f), nm))
            else:
                rep.ok("%s: %s is called through the child" % (short(f), nm), sample=False)
    # ---------------- R3 on solveNonLinearSystem
    s1 = [f for f in funcs if f.qname.startswith(BASE + "<") and f.qname.endswith(">::solveNonLinearSystem")]
    for f in s1:
        rep.count("instantiations of solveNonLinearSystem")
        own = set(writes_member(f, "zeros"))

        def atom3(f_, s):
            n = f_.stmts[s]
            if n["k"] == "CXXMemberCallExpr" and (n.get("callee") or "").endswith("::solveNonLinearSystem2"):
                return ("solve2", False)
            return None
        bad = []

        def el3(st, b, i, e):
            facts, okk = st
            if "s" not in e:
                return (st,)
            s = e["s"]
            n = f.stmts[s]
            fx = dict(facts)
            if n["k"] == "CXXMemberCallExpr" and (n.get("callee") or "").endswith("::solveNonLinearSystem2"):
                fx.pop("solve2", None)
                okk = False
            if is_zero_write(f, s, own):
                okk = False
                fx.pop("solve2", None)
            if n["k"] == "ReturnStmt":
                v = f.stmts[f.strip(f.kids(s)[0])]
                if not (v["k"] == "CXXBoolLiteralExpr" and v["value"] is False):
                    if not (fx.get("solve2") is True):
                        bad.append(s)
            return ((tuple(sorted(fx.items())), okk),)

        def ed3(st, b, succ, pol):
            facts, okk = st
            fx = branch(f, b, pol, dict(facts), atom3)
            if fx is None:
                return ()
            return ((tuple(sorted(fx.items())), okk),)
        forward(f, [((), False)], el3, ed3)
        if bad:
            rep.fail("FALSE-CONVERGENCE@solveNonLinearSystem", "%s: %s returns a non-false value on a path where solveNonLinearSystem2() "
                     "did not just return true (or the unknowns were modified afterwards)" % (rel(f.short_loc(bad[0])), short(f)))
        else:
            rep.ok("%s: success only on the true edge of solveNonLinearSystem2(), unknowns untouched afterwards" % short(f),
                   sample=("NR3" in f.display))

    # ---------------- R4 budget
    for f in s1 + s2:
        own_iter = set(writes_member(f, "iter"))
        incs = [s for s in own_iter if f.stmts[s]["k"] == "UnaryOperator" and f.stmts[s]["op"] == "++"]
        others = [s for s in own_iter if s not in incs]
        is2 = f.qname.endswith("2")
        for s in others:
            n = f.stmts[s]
            ok_ = (not is2) and n["k"] in ("BinaryOperator", "CXXOperatorCallExpr") and n.get("op") == "="
            if not ok_:
                rep.fail("BUDGET@%s#write" % f.qname.rsplit("::", 1)[-1], "%s: %s writes iter other than by '++' (%s)"
                         % (rel(f.short_loc(s)), short(f), f.text(s)))

        def atom4(f_, s):
            bo = f_.binop(s)
            if bo and bo[0] in ("==", "!="):
                t = sorted([f_.path(bo[1]) or "", f_.path(bo[2]) or ""])
                if t == ["this->iter", "this->iterMax"]:
                    return ("iter==iterMax", bo[0] == "!=")
            return None
        bad = []
        callbad = []

        def el4(st, b, i, e):
            facts = dict(st)
            if "s" not in e:
                return (st,)
            s = e["s"]
            n = f.stmts[s]
            if s in incs:
                if facts.get("iter==iterMax") is not False:
                    bad.append(s)
                facts.pop("iter==iterMax", None)
            elif s in others:
                facts.pop("iter==iterMax", None)
            if n["k"] == "CXXMemberCallExpr" and (n.get("callee") or "").endswith("::solveNonLinearSystem2"):
                if facts.get("iter==iterMax") is not False:
                    callbad.append(s)
                facts.pop("iter==iterMax", None)     # the callee increments iter
            return (tuple(sorted(facts.items())),)

        def ed4(st, b, succ, pol):
            fx = branch(f, b, pol, dict(st), atom4)
            if fx is None:
                return ()
            return (tuple(sorted(fx.items())),)
        # solveNonLinearSystem2 is entered with iter != iterMax (checked at its call sites below)
        init = (("iter==iterMax", False),) if is2 else ()
        forward(f, [init], el4, ed4)
        rep.count("increments of iter", len(incs))
        if bad:
            rep.fail("BUDGET@%s" % f.qname.rsplit("::", 1)[-1], "%s: %s increments iter where 'iter != iterMax' is not established: the "
                     "counter can exceed iterMax" % (rel(f.short_loc(bad[0])), short(f)))
        elif incs:
            rep.ok("%s: every ++iter happens where iter != iterMax is known" % short(f), sample=("NR3" in f.display))
        if callbad:
            rep.fail("BUDGET@solveNonLinearSystem#call", "%s: %s calls solveNonLinearSystem2() where 'iter != iterMax' is not established"
                     % (rel(f.short_loc(callbad[0])), short(f)))
    # other writers of iter anywhere
    for f in funcs:
        if f.qname.rsplit("::", 1)[-1] in ("solveNonLinearSystem", "solveNonLinearSystem2"):
            continue
        w = writes_member(f, "iter")
        if w:
            rep.fail("BUDGET@%s#write" % f.qname.rsplit("::", 1)[-1], "%s: %s writes the iteration counter" % (rel(f.short_loc(w[0])), short(f)))
    rep.floor("instantiations of solveNonLinearSystem2", 6)
    rep.floor("instantiations of solveNonLinearSystem", 6)
    rep.floor("increments of iter", 12)
    rep.floor("writers of zeros", 13)
    rep.floor("hook call sites in the core loops", 100)
    rep.assumptions += ["the residual and the hooks of a derived behaviour are opaque; a hook overriding processNewCorrection / "
                        "processNewEstimate in user code could write zeros: only the hooks defined by the library are analysed",
                        "entry of solveNonLinearSystem2 with iter != iterMax is established at its in-library call sites",
                        "convergence rates and the quality of the Broyden / dog-leg / Levenberg-Marquardt corrections are not decided"]
    # NORM-PROPAGATES: the residual norm is non-finite as soon as one component is (rules/ieeeclass.py, IR interpreted over IEEE classes)
    import ieeeclass
    ieeeclass.norm_rule(rep)
    if tier == "thorough":
        ieeeclass.norm_rule(rep, "-O1")
    return rep
