// positive control of the LOOP-PROGRESS rule (not repository code): 'spin' and 'spin_lambda' must be reported, 'fine*' must not
#include <string>
#include <vector>
#include "TFEL/Raise.hxx"
#include "TFEL/Utilities/CxxTokenizer.hxx"
namespace verif_ctl {
  struct Reader : tfel::utilities::CxxTokenizer {
    const_iterator current;
    std::string spin() {
      std::string res;
      while ((this->current != this->tokens.end()) && (this->current->value != ";")) {
        const auto& v = this->current->value;
        if (v.empty()) {
          continue;  // nothing changed: the same trip is taken for ever
        }
        res += v;
        ++(this->current);
      }
      return res;
    }
    std::string spin_lambda() {
      std::string res;
      while ((this->current != this->tokens.end()) && (this->current->value != ";")) {
        const auto v = [this]() -> std::string {
          if (this->current->flag == tfel::utilities::Token::String) {
            return this->current->value.substr(1, this->current->value.size() - 2);
          }
          return this->current->value;
        }();
        if (v.empty()) {
          continue;
        }
        res += v;
        ++(this->current);
      }
      return res;
    }
    std::string fine() {
      std::string res;
      while ((this->current != this->tokens.end()) && (this->current->value != ";")) {
        const auto& v = this->current->value;
        if (!v.empty()) {
          tfel::raise_if(v[0] == '@', "no keyword here");
          res += v;
        }
        ++(this->current);
      }
      return res;
    }
    unsigned fine_for() {
      unsigned n = 0;
      for (auto p = this->tokens.begin(); p != this->tokens.end(); ++p) {
        if (p->value.empty()) {
          continue;
        }
        ++n;
      }
      return n;
    }
    void advance();
    unsigned fine_call() {
      unsigned n = 0;
      while (this->current != this->tokens.end()) {
        if (this->current->value == "x") {
          this->advance();  // a non-const member call may move the iterator
          continue;
        }
        ++n;
        ++(this->current);
      }
      return n;
    }
  };
}  // namespace verif_ctl
namespace verif_ctl {
  // the 'error' closure never returns: the last branch is not a trip round the loop
  inline unsigned fine_error(tfel::utilities::CxxTokenizer::const_iterator c) {
    auto error = [](const std::string& m) { tfel::raise("fine_error: " + m); };
    unsigned n = 0;
    while (c->value != "}") {
      if (c->value == "a") {
        ++c;
        ++n;
      } else {
        error("unsupported entry '" + c->value + "'");
      }
    }
    return n;
  }
}  // namespace verif_ctl
namespace verif_ctl {
  // throw_if(true, ...) never returns
  inline unsigned fine_throw_if(tfel::utilities::CxxTokenizer::const_iterator p, const tfel::utilities::CxxTokenizer::const_iterator pe) {
    auto throw_if = [](const bool b, const std::string& m) { tfel::raise_if(b, "fine_throw_if: " + m); };
    unsigned n = 0;
    while (p != pe) {
      if (p->value == "a") {
        ++p;
        ++n;
      } else {
        throw_if(true, "unexpected token '" + p->value + "'");
      }
    }
    return n;
  }
}  // namespace verif_ctl
