#!/bin/bash
# confirms a seeded change delivered in <wt>/deliver: demo FAILS with it, PASSES without it, tree builds, 636 baseline tests pass.
# usage: confirm_seed.sh <wt> <seed-id>; writes <wt>/confirm.log and prints a summary
WT=$1; ID=$2
cd $WT || exit 2
L=$WT/confirm.log; : > $L
git diff > deliver/patch.diff.check
echo "== build with change" >> $L
./inrepo ninja -C /repo/_build -j8 >> $L 2>&1 || { echo "BUILD-FAILED"; exit 1; }
echo "== demo with change" >> $L
./inrepo bash $WT/deliver/run.sh >> $L 2>&1; RC1=$?
echo "rc=$RC1" >> $L
echo "== baseline with change" >> $L
./run_baseline.sh >> $L 2>&1
B=$(grep "baseline tests" $L | tail -1)
git stash -q
echo "== build without change (skipped when NOREBUILD=1: header-only change, the demo compiles the headers itself)" >> $L
[ -n "$NOREBUILD" ] || ./inrepo ninja -C /repo/_build -j8 >> $L 2>&1
echo "== demo without change" >> $L
./inrepo bash $WT/deliver/run.sh >> $L 2>&1; RC0=$?
echo "rc=$RC0" >> $L
git stash pop -q
[ -n "$NOREBUILD" ] || ./inrepo ninja -C /repo/_build -j8 >> $L 2>&1
echo "seed=$ID demo_with_change_rc=$RC1 demo_without_change_rc=$RC0 $B"
