"""C47 — the build-target registry src/targets.lst: single writer, crash
discipline (atomic replace OR damaged registry is an error), round trip by
construction (field coverage + writer/reader label agreement)."""
import re
from common import *
from cfg import *

RULE = ("WHO-MAY-WRITE(targets.lst <= MFront::writeTargetsDescription); crash clause: "
        "[ofstream never opened on the registry path, temp file closed then renamed onto it] OR "
        "[no catch handler of the registry reader swallows a parse failure]; "
        "FIELD-COVERAGE(LibraryDescription/CompiledTargetDescriptionBase in operator<<, mergeLibraryDescription, read<>); "
        "label agreement writer/reader")

ALLOWED_WRITERS = {"mfront::MFront::writeTargetsDescription"}
FIELD_EXCEPTIONS = {
    "mfront_sources": "declared in CompiledTargetDescriptionBase but referenced nowhere in the analysed units "
                      "(premise re-checked on every run)",
}
OSTREAMS = ("std::basic_ofstream", "std::basic_fstream")
TOK = re.compile(r"targets\.lst")


def lits(f, sid):
    return [f.stmts[s].get("value") for s in f.walk(sid) if f.stmts[s]["k"] == "StringLiteral"]


def registry_vars(f):
    """locals whose initialiser mentions the registry file name."""
    res = {}
    for n in f.stmts.values():
        if n["k"] == "DeclStmt":
            for d in n["decls"]:
                if "init" in d and any(TOK.search(str(v)) for v in lits(f, d["init"])):
                    res[d["declId"]] = d["name"]
    return res


def refers(f, sid, decl_ids):
    return any(f.stmts[s]["k"] == "DeclRefExpr" and f.stmts[s].get("declId") in decl_ids
               for s in f.walk(sid)) or any(TOK.search(str(v)) for v in lits(f, sid))


def handler_rethrows(f, h):
    body = list(f.walk(h))
    if any(f.stmts[s]["k"] == "ReturnStmt" for s in body):
        return False
    return any(f.stmts[s]["k"] == "CXXThrowExpr" or f.stmts[s].get("noreturn") for s in body)


def run(tier):
    rep = Report("C47", tier, "other", RULE)
    allu = units_under("mfront/src", "mfront-query/src", "mfront-doc/src")
    core = [os.path.join(REPO, "mfront/src", x) for x in
            ("MFront.cxx", "TargetsDescription.cxx", "LibraryDescription.cxx", "MFrontUtilities.cxx", "DSLUtilities.cxx")]
    for c in core:
        if c not in allu:
            raise AnalysisBroken("anchor unit missing from the build: " + c)
    if tier == "thorough":
        units = allu
    else:
        units = sorted(set(core + [u for u in allu if TOK.search(open(u, errors="replace").read())]))
    rep.extra["units"] = [os.path.relpath(u, REPO) for u in units]
    dumps = cfgdump(units, os.path.join(OUT, "C47", "dump"),
                    funcs=r"^mfront::", records=r"^mfront::(LibraryDescription|CompiledTargetDescriptionBase|TargetsDescription|SpecificTargetDescription)$",
                    root=REPO)
    funcs = load_functions(dumps)
    rep.count("units analysed", len(units))
    rep.count("functions analysed", len(funcs))

    # ---- R1 single writer; collect writer / reader functions
    writers, readers = [], []
    for f in funcs:
        rv = registry_vars(f)
        names = rv or any(TOK.search(str(n.get("value"))) for n in f.stmts.values() if n["k"] == "StringLiteral")
        if not names:
            continue
        rep.count("functions naming the registry file")
        opens_w = []
        for sid, n in f.stmts.items():
            if n["k"] in ("CXXConstructExpr", "CXXTemporaryObjectExpr") and n.get("ctorClass") in OSTREAMS \
                    and n.get("args") and not n.get("copyOrMove"):
                opens_w.append(sid)
            if n["k"] == "CXXMemberCallExpr" and (n.get("callee") or "").endswith("::open") and \
                    (n.get("calleeClass") or "") in OSTREAMS:
                opens_w.append(sid)
            if n["k"] == "CallExpr" and n.get("callee") in ("fopen", "std::fopen", "open", "creat",
                                                           "std::rename", "rename", "std::remove", "remove",
                                                           "unlink", "std::filesystem::rename",
                                                           "std::filesystem::remove",
                                                           "std::filesystem::copy_file"):
                opens_w.append(sid)
        if opens_w:
            writers.append((f, rv, opens_w))
            if f.qname in ALLOWED_WRITERS:
                rep.ok("%s is the registry writer (%d write-side file operations)" % (f.qname, len(opens_w)))
            else:
                rep.fail("WHO-MAY-WRITE@%s" % f.qname,
                         "%s: %s names src/targets.lst and opens/renames/removes files; the only allowed "
                         "registry writer is %s" % (rel(f.short_loc(opens_w[0])), f.qname, sorted(ALLOWED_WRITERS)))
        if any((n.get("ctorClass") == "tfel::utilities::CxxTokenizer") or
               (n.get("callee") == "mfront::read") for n in f.stmts.values()):
            readers.append((f, rv))
    if not any(f.qname in ALLOWED_WRITERS for f, _, _ in writers):
        raise AnalysisBroken("registry writer MFront::writeTargetsDescription not found")
    if not readers:
        raise AnalysisBroken("registry reader not found")

    # ---- crash clause: R2 (atomic replace) or R3 (damaged registry is an error)
    r2_ok, r2_why = True, []
    for f, rv, ops in writers:
        if f.qname not in ALLOWED_WRITERS:
            continue
        stream_vars = {}
        rename_sites = []
        for sid in ops:
            n = f.stmts[sid]
            if n["k"] in ("CXXConstructExpr", "CXXTemporaryObjectExpr"):
                if refers(f, n["args"][0], set(rv)) and not tmp_path(f, n["args"][0], rv):
                    r2_ok = False
                    r2_why.append("%s: output stream opened (truncating) on the registry path itself"
                                  % rel(f.short_loc(sid)))
                par = f.parent_map().get(sid)
                if par and f.stmts[par]["k"] == "DeclStmt":
                    for d in f.stmts[par]["decls"]:
                        if d.get("init") == sid:
                            stream_vars[d["declId"]] = d["name"]
            elif n.get("callee") in ("std::rename", "rename", "std::filesystem::rename"):
                rename_sites.append(sid)
        if r2_ok:
            if not rename_sites:
                r2_ok = False
                r2_why.append("%s: no rename onto the registry path" % f.qname)
            else:
                # MUST-PRECEDE(rename; close()/destruction of every output stream)
                bad = []

                def elem_fn(st, b, i, e):
                    if "s" in e:
                        n = f.stmts[e["s"]]
                        if n["k"] == "DeclStmt":
                            for d in n["decls"]:
                                if d.get("declId") in stream_vars:
                                    return (st | {d["declId"]},)
                        if n["k"] == "CXXMemberCallExpr" and (n.get("callee") or "").endswith("::close"):
                            o = f.stmts[f.strip(n["obj"])] if n.get("obj") else {}
                            if o.get("declId") in st:
                                return (st - {o["declId"]},)
                        if e["s"] in rename_sites and st:
                            bad.append(e["s"])
                    elif e.get("dtor") == "auto" and e.get("varId") in st:
                        return (st - {e["varId"]},)
                    return (st,)
                forward(f, [frozenset()], elem_fn)
                if bad:
                    r2_ok = False
                    r2_why.append("%s: rename reached while the output stream is still open (unflushed)"
                                  % rel(f.short_loc(bad[0])))
                for sid in rename_sites:
                    a = f.stmts[sid]["args"]
                    if not (len(a) >= 2 and refers(f, a[1], set(rv))):
                        r2_ok = False
                        r2_why.append("%s: rename target is not the registry path" % rel(f.short_loc(sid)))
    r3_ok, r3_why = True, []
    for f, rv in readers:
        for sid, n in f.stmts.items():
            if n["k"] == "CXXTryStmt":
                tb = n["try"]
                reads = any(f.stmts[s].get("ctorClass") == "tfel::utilities::CxxTokenizer" or
                            f.stmts[s].get("callee") == "mfront::read" for s in f.walk(tb))
                if not reads:
                    continue
                rep.count("try blocks around the registry parser")
                for h in n["handlers"]:
                    if not handler_rethrows(f, h):
                        r3_ok = False
                        r3_why.append("%s: handler catch(%s) in %s logs and continues: a damaged registry is "
                                      "silently replaced" % (rel(f.short_loc(h)), f.stmts[h].get("catchType"), f.qname))
    if r2_ok:
        rep.ok("crash clause by atomic replace: the registry path is only ever the target of a rename of a closed temporary file")
    if r3_ok:
        rep.ok("crash clause by error reporting: no handler around the registry parser swallows a failure")
    if not r2_ok and not r3_ok:
        rep.fail("CRASH-UNSAFE-REGISTRY@mfront::MFront::writeTargetsDescription+analyseTargetsFile",
                 "the registry is truncated in place AND a parse failure of an existing registry is swallowed: "
                 "a crash while writing loses every previously registered library without any error. "
                 + " | ".join(r2_why + r3_why))
    rep.extra["crash_clause"] = {"atomic_replace": r2_ok, "errors_reported": r3_ok,
                                 "details": r2_why + r3_why}

    # ---- R4 field coverage and label agreement
    recs = {}
    for d in dumps.values():
        for r in d["records"]:
            recs[r["qname"]] = r
    for need in ("mfront::LibraryDescription", "mfront::CompiledTargetDescriptionBase",
                 "mfront::TargetsDescription"):
        if need not in recs:
            raise AnalysisBroken("record %s not found" % need)
    libfields = [x["name"] for x in recs["mfront::CompiledTargetDescriptionBase"]["fields"]] + \
                [x["name"] for x in recs["mfront::LibraryDescription"]["fields"]]
    rep.count("fields of LibraryDescription (with base)", len(libfields))
    allrefs = set()
    for f in funcs:
        last_ = f.qname.rsplit("::", 1)[-1]
        if f.cls in ("mfront::LibraryDescription", "mfront::CompiledTargetDescriptionBase") and \
                (last_ in ("operator=", "LibraryDescription", "CompiledTargetDescriptionBase") or last_.startswith("~")):
            continue        # memberwise copies / construction (implicit or defaulted) name every member without using it
        for n in f.stmts.values():
            if n["k"] == "MemberExpr" and n.get("fieldClass") in ("mfront::LibraryDescription",
                                                                   "mfront::CompiledTargetDescriptionBase"):
                allrefs.add(n["member"])

    def pick(pred, what):
        r = [f for f in funcs if pred(f)]
        if not r:
            raise AnalysisBroken(what + " not found")
        return r[0]
    w_lib = pick(lambda f: f.qname == "mfront::operator<<" and any("LibraryDescription" in p["type"] for p in f.params), "operator<<(LibraryDescription)")
    m_lib = pick(lambda f: f.qname == "mfront::mergeLibraryDescription", "mergeLibraryDescription")
    r_lib = pick(lambda f: f.qname == "mfront::read" and f.d["ret"].endswith("LibraryDescription"), "read<LibraryDescription>")
    w_tgt = pick(lambda f: f.qname == "mfront::operator<<" and any("TargetsDescription" in p["type"] for p in f.params), "operator<<(TargetsDescription)")
    r_tgt = pick(lambda f: f.qname == "mfront::read" and f.d["ret"].endswith("TargetsDescription"), "read<TargetsDescription>")

    def members(f):
        s = set()
        for n in f.stmts.values():
            if n["k"] == "MemberExpr" and n.get("fieldClass") in ("mfront::LibraryDescription",
                                                                   "mfront::CompiledTargetDescriptionBase"):
                s.add(n["member"])
        return s
    by_parent = {}
    for f in funcs:
        if f.parent is not None:
            by_parent.setdefault((f.unit, f.parent), []).append(f)      # statement ids are per unit

    def with_lambdas(f):
        res = [f]
        for g in by_parent.get((f.unit, f.id), []):
            res += with_lambdas(g)
        return res
    def writer_labels(fn):
        labs = {}
        for sid, n in fn.stmts.items():
            if n["k"] == "StringLiteral":
                m = re.match(r"^(\w+)\s*:", str(n.get("value")))
                if m:
                    labs[m.group(1)] = None
            if n["k"] == "CallExpr" and n.get("callee") == "mfront::write" and len(n["args"]) == 3:
                ls = [fn.stmts[x] for x in fn.walk(n["args"][2]) if fn.stmts[x]["k"] == "StringLiteral"]
                lab = ls[0] if ls else {"k": None}
                if lab["k"] == "StringLiteral":
                    mem = fn.stmts[fn.strip(n["args"][1])]
                    labs[lab["value"]] = mem.get("member")
        return labs

    def reader_labels(fn):
        labs = set()
        for g in with_lambdas(fn):
            for sid, n in g.stmts.items():
                if n["k"] == "CXXOperatorCallExpr" and n.get("op") == "==" and len(n["args"]) == 2:
                    l, r = [g.stmts[g.strip(a)] for a in n["args"]]
                    for a, b in ((l, r), (r, l)):
                        if b["k"] == "StringLiteral" and a["k"] == "MemberExpr" and a.get("member") == "value":
                            labs.add(b["value"])
        return labs
    for fn, what in ((w_lib, "written by operator<<"), (m_lib, "merged by mergeLibraryDescription"),
                     (r_lib, "restored by read<LibraryDescription>")):
        ms = set()
        for g in with_lambdas(fn):
            ms |= members(g)
        if fn is r_lib:
            # constructor-initialised members are restored through their label
            ms |= reader_labels(fn)
        for fld in libfields:
            if fld in FIELD_EXCEPTIONS:
                if fld in allrefs:
                    rep.fail("FIELD-EXCEPTION-VOID#%s" % fld,
                             "field %s is listed as dead but is referenced now: it must be serialised and merged" % fld)
                continue
            rep.count("field-coverage obligations")
            if fld in ms:
                rep.ok("LibraryDescription::%s is %s" % (fld, what), sample=(fld in ("epts", "install_path")))
            else:
                rep.fail("FIELD-COVERAGE@%s#%s" % (fn.qname if fn is not r_lib else "mfront::read<LibraryDescription>", fld),
                         "%s: field %s of LibraryDescription is not %s: it is lost across runs"
                         % (rel(fn.loc), fld, what))

    # ---- MERGE-ON-EVERY-PATH: in the merge functions, a field that is merged somewhere (a call taking d.F and s.F) is merged on every path to
    # the normal exit: the union of the runs' descriptions does not depend on what the incoming description looks like
    for mf in [f for f in funcs if f.parent is None and re.match(r"^mfront::merge\w*Description$", f.qname) and f.entry is not None and len(f.params) == 2]:
        dn, sn = mf.params[0]["name"], mf.params[1]["name"]

        def merged_field(sid, mf=mf, dn=dn, sn=sn):
            n = mf.stmts[sid]
            if n["k"] not in ("CallExpr", "CXXMemberCallExpr", "CXXOperatorCallExpr") or len(n.get("args") or []) < 2:
                return None
            if n["k"] == "CXXOperatorCallExpr":
                return None         # comparisons of d.F with s.F are consistency checks; a conditional 'd.F = s.F' keeps a scalar field in step
            def member_of(a, base):
                an = mf.stmts.get(mf.strip(a))
                if an is not None and an["k"] == "MemberExpr":
                    b = mf.stmts.get(mf.strip(mf.kids(mf.strip(a))[0]))
                    if b is not None and b["k"] == "DeclRefExpr" and b.get("name") == base:
                        return an.get("member")
                return None
            fs_ = [member_of(a, dn) for a in n["args"]]
            ss_ = [member_of(a, sn) for a in n["args"]]
            for f_ in fs_:
                if f_ and f_ in ss_:
                    return f_
            return None
        allf = set(x for x in (merged_field(sid) for sid in mf.stmts) if x)
        if not allf:
            continue
        rep.count("merge functions examined on every path")

        def el_m(st, b, i, e):
            if "s" in e:
                fld = merged_field(e["s"])
                if fld:
                    return (st | frozenset([fld]),)
            return (st,)
        IN_, _O = forward(mf, (frozenset(),), el_m)
        miss = set()
        for st in IN_.get(mf.exit, ()):
            miss |= allf - st
        if miss:
            rep.fail("MERGE-ON-EVERY-PATH@%s" % mf.qname, "%s: %s can return without merging %s (merged on other paths): what a later run adds to an already "
                     "registered library is dropped, the registry is no longer the union of the runs' descriptions" % (rel(mf.loc), mf.qname, sorted(miss)))
        else:
            rep.ok("%s merges %s on every path to its normal exit" % (mf.qname, sorted(allf)))
    rep.floor("merge functions examined on every path", 1)
    for wf, rf, name, extra_values in ((w_lib, r_lib, "LibraryDescription", {"SHARED_LIBRARY", "MODULE"}),
                                       (w_tgt, r_tgt, "TargetsDescription", set())):
        wl = writer_labels(wf)
        rl = reader_labels(rf) - {"}", "{", ";"} - extra_values
        rep.count("labels compared", len(set(wl) | rl))
        for lab in sorted(set(wl) | rl):
            if lab in wl and lab in rl:
                mem = wl[lab]
                if name == "LibraryDescription" and mem is not None and mem != lab:
                    rep.fail("LABEL-MEMBER@%s#%s" % (name, lab),
                             "operator<<(%s) writes member %s under label '%s'" % (name, mem, lab))
                else:
                    rep.ok("%s label '%s' is written and read" % (name, lab), sample=(lab in ("epts", "target")))
            elif lab in wl:
                rep.fail("LABEL-NOT-READ@%s#%s" % (name, lab),
                         "label '%s' written by operator<<(%s) is not accepted by read<%s>: re-reading fails"
                         % (lab, name, name))
            else:
                rep.fail("LABEL-NOT-WRITTEN@%s#%s" % (name, lab),
                         "label '%s' accepted by read<%s> is never written by operator<<" % (lab, name))
        if name == "LibraryDescription":
            for v in sorted(extra_values):
                if not any(n["k"] == "StringLiteral" and n.get("value") == v for n in wf.stmts.values()):
                    rep.fail("TYPE-VALUE@%s" % v, "library type value %s accepted by the reader is not written" % v)
    # ---- R5 escaping agreement between the writer of string lists and the readers of strings
    def escapes(fn):
        """set of (from, to) replacements applied by fn (replace_all calls; std::quoted = the two standard escapes)."""
        res = set()
        quoted = False
        for g in with_lambdas(fn):
            for sid, n in g.stmts.items():
                if n["k"] != "CallExpr":
                    continue
                c = n.get("callee") or ""
                if c.endswith("replace_all") and len(n.get("args", [])) >= 3:
                    l1 = [g.stmts[x].get("value") for x in g.walk(n["args"][1]) if g.stmts[x]["k"] == "StringLiteral"]
                    l2 = [g.stmts[x].get("value") for x in g.walk(n["args"][2]) if g.stmts[x]["k"] == "StringLiteral"]
                    if len(l1) == 1 and len(l2) == 1:
                        res.add((l1[0], l2[0]))
                    else:
                        raise AnalysisBroken("%s: replace_all with non-literal arguments" % fn.qname)
                if c == "std::quoted":
                    quoted = True
        if quoted:
            res |= {('"', '\\"'), ("\\", "\\\\")}
        return res
    w_str = [f for f in funcs if f.qname == "mfront::write" and len(f.params) == 3 and "vector" in f.params[1]["type"] and f.parent is None]
    r_str = [f for f in funcs if f.qname == "mfront::read" and f.parent is None and
             (f.d["ret"].startswith("std::basic_string") or f.d["ret"].startswith("std::vector<std::basic_string"))]
    if not w_str or len(set(f.d["ret"] for f in r_str)) < 2:
        raise AnalysisBroken("string-list writer / string readers not found (%d / %d)" % (len(w_str), len(r_str)))
    we = escapes(w_str[0])
    if not we:
        raise AnalysisBroken("mfront::write(strings): escaping idiom not recognised (neither replace_all nor std::quoted)")
    # the escape character must itself be escaped, and first: otherwise a string that ends with it, or holds it before a quote, is
    # written as something the tokenizer reads differently (an unterminated string: the registry becomes unreadable)

    def order(fn):
        """replacements of fn in the order they are applied (an inner replace_all is applied before the call that takes it as its subject)."""
        out = []
        for g in with_lambdas(fn):
            calls = [(sid, n) for sid, n in g.stmts.items() if n["k"] == "CallExpr" and (n.get("callee") or "").endswith("replace_all") and len(n.get("args", [])) >= 3]

            def depth(sid):
                return sum(1 for s2, n2 in calls if s2 != sid and sid in set(g.walk(n2["args"][0])))
            for sid, n in sorted(calls, key=lambda c: (-depth(c[0]), c[0])):
                l1 = [g.stmts[x].get("value") for x in g.walk(n["args"][1]) if g.stmts[x]["k"] == "StringLiteral"]
                l2 = [g.stmts[x].get("value") for x in g.walk(n["args"][2]) if g.stmts[x]["k"] == "StringLiteral"]
                out.append((l1[0], l2[0]))
        return out
    escs = set(b[0] for a, b in we if len(b) == len(a) + 1 and b[1:] == a)
    rep.count("escape characters of the registry writer", len(escs))
    for e_ in sorted(escs):
        wo = order(w_str[0])
        if (e_, e_ + e_) not in we:
            rep.fail("ESCAPE-CHARACTER@mfront::write", "%s: write(os, strings, id) escapes %s with '%s' but does not escape '%s' itself: a string that ends with it "
                     "(-D 'P=C:%s') is written as an unterminated string, the next run cannot read src/targets.lst and rewrites it without the "
                     "libraries registered before" % (rel(w_str[0].loc), sorted(a for a, b in we), e_, e_, e_))
        elif wo and wo[0] != (e_, e_ + e_):
            rep.fail("ESCAPE-CHARACTER@mfront::write#order", "%s: write(os, strings, id) must escape '%s' before the other characters (applied order: %s)"
                     % (rel(w_str[0].loc), e_, wo))
        else:
            rep.ok("write(strings) escapes the escape character '%s' first" % e_)
            for rf in r_str:
                ro = order(rf)
                if ro and ro[-1] != (e_ + e_, e_):
                    rep.fail("ESCAPE-CHARACTER@mfront::read#order", "%s: the reader must undo the escaping of '%s' last (applied order: %s)" % (rel(rf.loc), e_, ro))
    for rf in r_str:
        rep.count("escaping agreements")
        re_ = escapes(rf)
        inv = set((b, a) for a, b in we)
        kind = "std::vector<std::string>" if rf.d["ret"].startswith("std::vector") else "std::string"
        if re_ == inv:
            rep.ok("read<%s> undoes exactly the escapes applied by write(strings): %s" % (kind, sorted(we)))
        else:
            rep.fail("ESCAPING@read<%s>" % kind, "%s: write(os, strings, id) escapes %s but read<%s> undoes %s: a string containing %s does not "
                     "survive a write/read cycle, so the registry changes from run to run" % (rel(rf.loc), sorted(we), kind, sorted(re_),
                                                                                             sorted(a for a, b in (we ^ set((b2, a2) for a2, b2 in re_)))))
    rep.floor("escaping agreements", 2)
    rep.floor("escape characters of the registry writer", 1)
    rep.floor("functions naming the registry file", 2)
    rep.floor("field-coverage obligations", 39)
    rep.floor("labels compared", 20)
    rep.floor("try blocks around the registry parser", 1)
    rep.assumptions += ["crash = the process is killed between two system calls (no power-loss model)",
                        "semantic equality after a round trip is not decided; coverage of every field and label is",
                        "concurrent runs interleaving read-merge-write are outside the property (successive runs)"]
    return rep


def rel(loc):
    return loc.replace(REPO + "/", "")


def tmp_path(f, sid, rv):
    """the path expression is the registry path with something appended
    (a different file in the same directory)."""
    s = f.strip(sid)
    n = f.stmts[s]
    if n["k"] == "DeclRefExpr" and n.get("declId") in rv:
        return False
    if n["k"] == "StringLiteral":
        return not str(n["value"]).endswith("targets.lst")
    if n["k"] == "DeclRefExpr":
        # a local built from the registry path plus a suffix
        for m in f.stmts.values():
            if m["k"] == "DeclStmt":
                for d in m["decls"]:
                    if d.get("declId") == n["declId"] and "init" in d:
                        ls = [str(v) for v in lits(f, d["init"])]
                        uses_reg = any(f.stmts[x]["k"] == "DeclRefExpr" and f.stmts[x].get("declId") in rv
                                       for x in f.walk(d["init"]))
                        if uses_reg:
                            return len(ls) >= 1
                        return bool(ls) and not ls[-1].endswith("targets.lst")
    if n["k"] == "CXXOperatorCallExpr" and n.get("op") == "+":
        ls = [str(v) for v in lits(f, s)]
        return bool(ls) and not ls[-1].endswith("targets.lst")
    return False
