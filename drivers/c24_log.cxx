// instantiations for the C24 structural clause (parsed only): LogarithmicStrainHandler<N, double>, N = 1, 2, 3
#include "TFEL/Math/tensor.hxx"
#include "TFEL/Math/stensor.hxx"
#include "TFEL/Math/st2tost2.hxx"
#include "TFEL/Material/LogarithmicStrainHandler.hxx"
using namespace tfel::math;
using namespace tfel::material;
template <unsigned short N>
static void inst(const tensor<N, double>& F, const stensor<N, double>& T, const st2tost2<N, double>& K) {
  for (const auto setting : {LogarithmicStrainHandlerBase::LAGRANGIAN, LogarithmicStrainHandlerBase::EULERIAN}) {
    LogarithmicStrainHandler<N, double> h(setting, F);
    auto e = h.getHenckyLogarithmicStrain();
    auto S = h.convertToSecondPiolaKirchhoffStress(T);
    auto s = h.convertToCauchyStress(T);
    auto t = h.convertFromCauchyStress(s);
    auto Km = h.convertToMaterialTangentModuli(K, T);
    auto Ks = h.convertToSpatialTangentModuli(K, T);
    auto Kt = h.convertToCauchyStressTruesdellRateTangentModuli(K, T);
    (void)e; (void)S; (void)t; (void)Km; (void)Ks; (void)Kt;
  }
}
void verif_c24(const tensor<1, double>& F1, const tensor<2, double>& F2, const tensor<3, double>& F3, const stensor<1, double>& T1,
               const stensor<2, double>& T2, const stensor<3, double>& T3, const st2tost2<1, double>& K1, const st2tost2<2, double>& K2,
               const st2tost2<3, double>& K3) {
  inst<1>(F1, T1, K1);
  inst<2>(F2, T2, K2);
  inst<3>(F3, T3, K3);
}
