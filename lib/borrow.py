"""Borrow rule for the token vector (C35 / C54): a reference, pointer or string_view bound to an element of the token
vector (through a token iterator: 'const auto& k = this->current->value;', 'const Token& t = *p;') is not used after a
call that may change the vector (insert / erase / clear / swap / assignment of the 'tokens' member, reached through
resolved calls; calls through handler tables and std::function are treated as reaching every registered handler).

  analyse(funcs, is_iter_type) -> (sites, reports)
    sites   = [(f, var name, decl sid)]   borrowed locals found
    reports = [(f, use sid, var name, invalidating call text, its location)]
"""
import re
from cfg import forward

VECTOR_MUTATORS = ("insert", "erase", "clear", "swap", "push_back", "emplace_back", "assign", "resize", "operator=", "pop_back", "emplace",
                   "shrink_to_fit", "reserve")
# saved iterators are not armed: the may-mutate closure (virtual calls by name) is too coarse for them (two reports on the
# unchanged tree: the swap-back idiom of DSLBase::treatImport and 'beg' in BehaviourDSLCommon::treatCodeBlock)
ITERATORS = False
CALLS = ("CallExpr", "CXXMemberCallExpr", "CXXOperatorCallExpr", "CXXConstructExpr")


def _is_tokens_member(f, sid):
    sid = f.strip(sid)
    if sid is None or sid not in f.stmts:
        return False
    n = f.stmts[sid]
    return n["k"] == "MemberExpr" and n.get("declKind") == "Field" and n.get("member") == "tokens" \
        and "Token" in (n.get("fieldType") or "")


def _on_this(f, sid):
    """the receiver expression is (a base-class view of) *this."""
    sid = f.strip(sid) if sid is not None else None
    while sid is not None and sid in f.stmts:
        n = f.stmts[sid]
        if n["k"] == "CXXThisExpr":
            return True
        if n["k"] == "UnaryOperator" and n.get("op") == "*":
            sid = f.strip(f.kids(sid)[0])
            continue
        if n["k"] in ("CXXStaticCastExpr", "ImplicitCastExpr", "ParenExpr"):
            sid = f.strip(f.kids(sid)[0])
            continue
        return False
    return False


def is_direct_mutation(f, n):
    if n["k"] == "CXXMemberCallExpr" and (n.get("callee") or "").rsplit("::", 1)[-1] in VECTOR_MUTATORS and _is_tokens_member(f, n.get("obj")):
        return True
    if n["k"] == "CXXOperatorCallExpr" and n.get("op") == "=" and n.get("args") and _is_tokens_member(f, n["args"][0]):
        return True
    if n["k"] in ("CallExpr", "CXXMemberCallExpr") and (n.get("callee") or "").rsplit("::", 1)[-1] == "swap" and \
            any(_is_tokens_member(f, a) for a in n.get("args", [])):
        return True
    return False


def direct_mutators(funcs):
    """functions that change the token vector member directly."""
    res = {}
    for f in funcs:
        for s, n in f.stmts.items():
            hit = is_direct_mutation(f, n)
            if hit:
                top = f
                res.setdefault(top.qname if top.parent is None else top.qname, f.short_loc(s))
    return res


def may_mutate(funcs):
    """qname -> witness chain text, for every function from which a direct mutator is reachable (resolved calls; virtual
    calls by method name and arity; closures belong to their enclosing function)."""
    byid = {(f.unit, f.id): f for f in funcs}

    def top_of(f):
        while f.parent is not None and (f.unit, f.parent) in byid:
            f = byid[(f.unit, f.parent)]
        return f
    dm = {}
    for f in funcs:
        pass
    raw = direct_mutators(funcs)
    # closures: attribute to the enclosing function
    for f in funcs:
        if f.qname in raw and f.parent is not None:
            raw.setdefault(top_of(f).qname, raw[f.qname])
    edges = {}
    sig = {}
    indirect = set()
    for f in funcs:
        t = top_of(f).qname
        e_ = edges.setdefault(t, set())
        for s, n in f.stmts.items():
            if n["k"] in CALLS:
                c = n.get("callee")
                if c and n["k"] == "CXXMemberCallExpr" and not _on_this(f, n.get("obj")):
                    # a member call on another object changes that object's token vector, not this one's
                    if not (c.startswith("std::function<") and c.endswith("operator()")):
                        continue
                if c and n["k"] == "CXXConstructExpr":
                    continue
                if c:
                    e_.add((c, bool(n.get("virtual")), len(n.get("args", []))))
                    if c.startswith("std::function<") and c.endswith("operator()"):
                        indirect.add(t)
                elif n["k"] == "CallExpr":
                    indirect.add(t)
            elif n["k"] == "BinaryOperator" and n.get("op") in (".*", "->*"):
                indirect.add(t)
        if f.parent is None:
            sig.setdefault(f.qname.rsplit("::", 1)[-1], set()).add((f.qname, len(f.params)))
    taken = set()
    for f in funcs:
        for s, n in f.stmts.items():
            if n["k"] == "UnaryOperator" and n.get("op") == "&":
                k = f.stmts.get(f.strip(f.kids(s)[0]))
                if k and k["k"] == "DeclRefExpr" and k.get("declKind") == "CXXMethod":
                    taken.add(k["qname"])
    res = dict((q, "changes the token vector at %s" % l) for q, l in raw.items())
    changed = True
    while changed:
        changed = False
        handler_mut = sorted((q for q in taken if q in res), key=lambda q: (not res[q].startswith("changes"), q))
        for q, es in edges.items():
            if q in res:
                continue
            w = None
            for c, virt, na in es:
                if c in res:
                    w = c
                    break
                if virt:
                    for alt, np_ in sig.get(c.rsplit("::", 1)[-1], ()):
                        if alt in res and np_ == na:
                            w = alt
                            break
                if w:
                    break
            if w is None and q in indirect and handler_mut:
                w = "a registered handler (" + handler_mut[0] + ")"
            if w is not None:
                res[q] = "calls " + w
                changed = True
    return res, indirect, taken


def borrowed_locals(f, is_iter_type):
    """[(declId, name, decl sid)] locals of reference / pointer / string_view type bound into a token."""
    out = []
    for s, n in f.stmts.items():
        if n["k"] != "DeclStmt":
            continue
        for d in n["decls"]:
            t = d.get("type") or ""
            if d.get("declKind") != "Var" or "init" not in d:
                continue
            if ITERATORS and is_iter_type(t) and not t.rstrip().endswith("&"):
                out.append((d["declId"], d.get("name"), s))
                continue
            if not (t.rstrip().endswith("&") or t.rstrip().endswith("*") or "basic_string_view" in t):
                continue
            if is_iter_type(t):
                continue    # iterator locals: see ITERATORS below
            # the initialiser dereferences a token iterator
            hit = False
            for x in f.walk(d["init"]):
                m = f.stmts[x]
                if m["k"] == "CXXOperatorCallExpr" and m.get("op") in ("*", "->") and m.get("args"):
                    a = f.stmts.get(f.strip(m["args"][0]))
                    if a is not None and is_iter_type(a.get("t") or a.get("declType") or a.get("fieldType") or ""):
                        hit = True
                        break
                if m["k"] in ("CallExpr", "CXXMemberCallExpr", "CXXConstructExpr") and "Token" not in (m.get("t") or "") \
                        and not (m.get("t") or "").rstrip().endswith("&"):
                    # a call that returns by value: the reference binds a temporary, not the token
                    pass
            if hit:
                # by-value producing top node => lifetime-extended temporary, not a borrow
                top = f.stmts.get(f.strip(d["init"]))
                if top is not None and top["k"] in ("CallExpr", "CXXMemberCallExpr", "CXXConstructExpr", "CXXTemporaryObjectExpr",
                                                    "MaterializeTemporaryExpr", "CXXBindTemporaryExpr", "CXXFunctionalCastExpr"):
                    tt = (top.get("t") or "")
                    if not tt.rstrip().endswith("&") and top["k"] != "CXXMemberCallExpr":
                        continue
                out.append((d["declId"], d.get("name"), s))
    return out


def analyse(funcs, is_iter_type):
    mut, indirect, taken = may_mutate(funcs)
    byid = {(f.unit, f.id): f for f in funcs}
    sites, reports = [], []
    for f in funcs:
        bl = borrowed_locals(f, is_iter_type)
        if not bl or f.entry is None:
            continue
        ids = dict((d, nm) for d, nm, _s in bl)
        decl_sid = dict((d, s_) for d, nm, s_ in bl)
        for d, nm, s_ in bl:
            sites.append((f, nm, s_))

        def invalidating(n):
            if n["k"] not in CALLS:
                return None
            if is_direct_mutation(f, n):
                return "a direct change of the token vector"
            c = n.get("callee")
            if c is None:
                return "an indirect call" if n["k"] == "CallExpr" and taken else None
            if c.startswith("std::function<") and c.endswith("operator()"):
                hm = sorted((q for q in taken if q in mut), key=lambda q: (not mut[q].startswith("changes"), q))
                return ("a handler called through std::function (e.g. %s, which %s)" % (hm[0], mut[hm[0]])) if hm else None
            if c in mut:
                if n["k"] == "CXXMemberCallExpr" and not _on_this(f, n.get("obj")):
                    return None
                if n["k"] == "CXXConstructExpr":
                    return None
                return "%s, which %s" % (c, mut[c])
            return None

        # state: frozenset of (declId, witness) currently invalid ; bound set tracked implicitly (a use before the
        # declaration cannot occur)
        def el(st, b, i, e):
            if "s" not in e:
                return (st,)
            sid = e["s"]
            n = f.stmts[sid]
            if n["k"] == "DeclStmt":
                # (re)binding: entering the declaration makes the borrow fresh again (loops)
                dd = set(x["declId"] for x in n["decls"] if x.get("declId") in ids)
                if dd:
                    st = frozenset(x for x in st if x[0] not in dd)
                return (st,)
            if n["k"] == "DeclRefExpr" and n.get("declId") in ids:
                for d_, w, loc in st:
                    if d_ == n["declId"]:
                        reports.append((f, sid, ids[d_], w, loc))
                return (st,)
            w = invalidating(n)
            if w is not None:
                st = frozenset(set(st) | set((d_, w, f.short_loc(sid)) for d_ in ids
                                             if not any(x[0] == d_ for x in st)))
            return (st,)
        forward(f, (frozenset(),), el)
        # catch handlers: entered from any point of the try body, so every invalidating call inside the body may have run
        pm = f.parent_map()
        for b in f.blocks.values():
            if b.label is None or f.stmts.get(b.label, {}).get("k") != "CXXCatchStmt":
                continue
            ts = pm.get(b.label)
            if ts is None or f.stmts[ts]["k"] != "CXXTryStmt":
                continue
            body = f.kids(ts)[0]
            inv = set()
            for x in f.walk(body):
                w = invalidating(f.stmts[x])
                if w is not None:
                    for d_ in ids:
                        if not any(y[0] == d_ for y in inv):
                            inv.add((d_, w + " (inside the try block)", f.short_loc(x)))
            # a borrow declared inside the try body is out of scope in the handler; only outer borrows matter
            inner = set(dd["declId"] for x in f.walk(body) if f.stmts[x]["k"] == "DeclStmt" for dd in f.stmts[x]["decls"] if "declId" in dd)
            inv = frozenset(y for y in inv if y[0] not in inner)
            if inv:
                forward(f, (inv,), el, start=b.id)
    # one report per (function, variable)
    seen, uniq = set(), []
    for r in reports:
        k = (r[0].qname, r[2])
        if k not in seen:
            seen.add(k)
            uniq.append(r)
    return sites, uniq, mut


def rule(rep, funcs, is_iter_type, rel, min_sites):
    """arms the borrow rule inside a report: counts, reports, positive control."""
    import os
    from common import cfgdump, header_flags, VERIF, OUT, AnalysisBroken
    from cfg import load_functions
    sites, reps, mut = analyse(funcs, is_iter_type)
    rep.count("references bound into the token vector", len(sites))
    rep.count("functions that may change the token vector", len(mut))
    bad = set((r[0].qname, r[2]) for r in reps)
    for f, sid, nm, w, loc in reps:
        rep.fail("DANGLING-TOKEN-REF@%s#%s" % (f.qname, nm), "%s: in %s the reference '%s' into the token vector is used after %s (%s): the vector "
                 "may have been swapped, reallocated or destroyed (an @Import that fails, a nested file), so this reads freed memory"
                 % (rel(f.short_loc(sid)), f.qname, nm, w, rel(loc)))
    for f, nm, s_ in sites:
        if (f.qname, nm) not in bad:
            rep.ok("reference '%s' of %s is not used after a call that may change the token vector" % (nm, f.qname), sample=False)
    ctl = os.path.join(VERIF, "controls", "C35_borrow_control.cxx")
    dc = cfgdump([ctl], os.path.join(OUT, rep.pid, "borrow_ctl"), funcs=r"^verif_ctl::", flags_for=lambda u: (header_flags(), VERIF))
    cs, cr, _m = analyse(load_functions(dc), is_iter_type)
    if len(cs) != 2 or sorted(r[0].qname.rsplit("::", 1)[-1] for r in cr) != ["dispatch", "dispatch2"]:
        raise AnalysisBroken("borrow rule: positive control gave %d sites / reports %s" % (len(cs), [r[0].qname for r in cr]))
    rep.floor("references bound into the token vector", min_sites)
