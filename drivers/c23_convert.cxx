// driver for C23: round trips of mutually inverse tangent-operator converters; lowered to IR and interpreted abstractly.
#include <algorithm>
#include "TFEL/Math/tensor.hxx"
#include "TFEL/Math/stensor.hxx"
#include "TFEL/Math/st2tost2.hxx"
#include "TFEL/Math/t2tost2.hxx"
#include "TFEL/Math/t2tot2.hxx"
#include "TFEL/Material/FiniteStrainBehaviourTangentOperator.hxx"
using namespace tfel::material;
using TO = FiniteStrainBehaviourTangentOperatorBase;
// in = [K (size of the storage of A) | F0 (TensorSize) | F1 (TensorSize) | s (StensorSize)], out = K after A -> B -> A
template <TO::Flag A, TO::Flag B, unsigned short N>
static void roundtrip(const double* in, double* out) {
  tangent_operator<A, N, double> K;
  const auto nk = K.size();
  std::copy(in, in + nk, K.begin());
  tfel::math::tensor<N, double> F0, F1;
  tfel::math::stensor<N, double> s;
  const auto nt = F0.size();
  std::copy(in + nk, in + nk + nt, F0.begin());
  std::copy(in + nk + nt, in + nk + 2 * nt, F1.begin());
  std::copy(in + nk + 2 * nt, in + nk + 2 * nt + s.size(), s.begin());
  const auto Kb = convert<B, A, N, double>(K, F0, F1, s);
  const auto Ka = convert<A, B, N, double>(Kb, F0, F1, s);
  std::copy(Ka.begin(), Ka.end(), out);
}
#define VERIF_RT(A, B, N) \
  extern "C" void verif_rt_##A##_##B##_##N(const double* in, double* out) { roundtrip<TO::A, TO::B, N##u>(in, out); }
#define VERIF_RT_ALLN(A, B) VERIF_RT(A, B, 1) VERIF_RT(A, B, 2) VERIF_RT(A, B, 3)
VERIF_RT_ALLN(DSIG_DF, DSIG_DDF)
VERIF_RT_ALLN(DSIG_DDF, DSIG_DF)
VERIF_RT_ALLN(DTAU_DF, DTAU_DDF)
VERIF_RT_ALLN(DTAU_DDF, DTAU_DF)
VERIF_RT_ALLN(SPATIAL_MODULI, C_TRUESDELL)
VERIF_RT_ALLN(C_TRUESDELL, SPATIAL_MODULI)
VERIF_RT_ALLN(ABAQUS, C_TAU_JAUMANN)
VERIF_RT_ALLN(C_TAU_JAUMANN, ABAQUS)
VERIF_RT_ALLN(DS_DC, DS_DEGL)
VERIF_RT_ALLN(DS_DEGL, DS_DC)
VERIF_RT_ALLN(DTAU_DF, SPATIAL_MODULI)
VERIF_RT_ALLN(SPATIAL_MODULI, DTAU_DF)
VERIF_RT_ALLN(SPATIAL_MODULI, ABAQUS)
VERIF_RT_ALLN(ABAQUS, SPATIAL_MODULI)
VERIF_RT_ALLN(SPATIAL_MODULI, DS_DEGL)
VERIF_RT_ALLN(DS_DEGL, SPATIAL_MODULI)
VERIF_RT_ALLN(DTAU_DF, ABAQUS)
VERIF_RT_ALLN(ABAQUS, DTAU_DF)
VERIF_RT_ALLN(DTAU_DF, C_TAU_JAUMANN)
VERIF_RT_ALLN(C_TAU_JAUMANN, DTAU_DF)
VERIF_RT_ALLN(DSIG_DF, DPK1_DF)
VERIF_RT_ALLN(DPK1_DF, DSIG_DF)
