"""C14 — symbolic differentiation rules of the evaluator: the expression tree each
rule *constructs* is the derivative (decided on normal forms, rule table
complete), and every function without a rule raises.

For every specialisation differentiateFunction<f> (Function.cxx), every
differentiateBinaryOperation<Op> (BinaryOperator.cxx, ExponentDerivative's
constructor inlined), Negation, ConditionalExpr, PowerFunction<N> (all
instantiated N) and GeneralPowerFunction::differentiate, the builder-shape
interpreter (lib/builder.py) evaluates every path of the function into a
rational function over the atoms u, u', sin u, cos u, sinh u, cosh u, exp u,
log u, sqrt(.), pow(a,b), ln10 ... (tan -> sin/cos, tanh -> sinh/cosh,
sin^2 = 1 - cos^2, cosh^2 = 1 + sinh^2, sqrt(p)^2 = p, a^(b+k) = a^b a^k) and
compares it with f'(u) u' (resp. the sum/product/quotient/power rules) under
the path's facts (a sub-expression that does not depend on the variable has a
zero derivative).  Every instantiation of the primary template
differentiateFunction<f> and of StandardBinaryFunction<f>::differentiate must
raise on all paths, and applyChainRule(a, b) must be a*b.
"""
import os, re
from fractions import Fraction
from common import *
from cfg import *
import builder as B
from builder import Rat, app, sym

RULE = ("builder-shape interpretation of every differentiation rule into normal forms over function atoms; equality "
        "with the calculus rule on every path; functions without a rule raise")
NS = "tfel::math::parser::"


def rel(loc):
    return loc.replace(REPO + "/", "")


def dfun(fn, u, du, ln10):
    """f'(u) u' for the functions that have a rule."""
    one = Rat(1)
    t = {
        "exp": lambda: app("exp", u) * du,
        "sin": lambda: app("cos", u) * du,
        "cos": lambda: -app("sin", u) * du,
        "tan": lambda: du / (app("cos", u) * app("cos", u)),
        "sqrt": lambda: du / (Rat(2) * app("sqrt", u)),
        "log": lambda: du / u,
        "log10": lambda: du / (ln10 * u),
        "asin": lambda: du / app("sqrt", one - u * u),
        "acos": lambda: -du / app("sqrt", one - u * u),
        "atan": lambda: du / (one + u * u),
        "sinh": lambda: app("cosh", u) * du,
        "cosh": lambda: app("sinh", u) * du,
        "tanh": lambda: du / (app("cosh", u) * app("cosh", u)),
    }
    return t[fn]() if fn in t else None


class DB(B.Builder):
    """domain hooks: Expr-valued parameters/members are symbols."""

    def __init__(self, by_id, statics, names):
        super().__init__(by_id, statics)
        self.names = names      # object name -> (value symbol, derivative symbol)

    def expr_method(self, obj, method, facts):
        if obj not in self.names:
            raise B.Unsupported("method on unknown expression %s" % obj)
        val, der = self.names[obj]
        if method in ("clone", "getValue"):
            return val
        dep = facts.get("dependsOnVariable:%s" % obj)
        return Rat(0) if dep is False else der

    def coerce(self, v):
        if isinstance(v, tuple) and v[0] == "expr":
            return self.names[v[1]][0]
        return v

    def this_member(self, mem, facts):
        if mem == "n":
            if facts.get("this->n==17") is True:
                return Rat(17)
            return sym("n")
        if mem in self.names:
            return ("expr", mem)
        raise B.Unsupported("this->%s" % mem)


def same(a, b):
    if isinstance(a, tuple) or isinstance(b, tuple):
        if not (isinstance(a, tuple) and isinstance(b, tuple)) or a[0] != b[0] or len(a) != len(b):
            return False
        return all(same(x, y) for x, y in zip(a[1:], b[1:]))
    if a is None or b is None:
        return False
    return a.equals(b)


def run(tier):
    rep = Report("C14", tier, "proof", RULE)
    us = [os.path.join(REPO, "src/Math", x) for x in
          ("Function.cxx", "BinaryOperator.cxx", "Negation.cxx", "ConditionalExpr.cxx", "PowerFunction.cxx",
           "Evaluator.cxx", "Expr.cxx")]
    d = cfgdump(us, os.path.join(OUT, "C14", "dump"),
                funcs=r"(differentiateFunction|differentiateBinaryOperation|::differentiate$|applyChainRule|ExponentDerivative::ExponentDerivative)",
                root=REPO)
    funcs = load_functions(d)
    by_id = {(f.unit, f.id): f for f in funcs}
    B.reset()
    ln10 = sym("ln10")
    statics = {"std::numbers::ln10_v": ln10}
    tops = [f for f in funcs if f.parent is None]
    seen = set()

    def each(pred):
        for f in tops:
            if pred(f) and (f.display, ) not in seen:
                seen.add((f.display,))
                yield f

    def interp(f, names, env, this=None):
        b = DB(by_id, statics, names)
        ed = [g for g in tops if g.qname == NS + "ExponentDerivative::ExponentDerivative"]
        if ed:
            b.ctors["ExponentDerivative"] = ed[0]
        try:
            res = b.run(f, env, {}, this)
        except B.Unsupported as e:
            raise AnalysisBroken("%s (%s): outside the builder idiom: %s" % (f.display, rel(f.loc), e))
        if not f.qname.endswith("applyChainRule"):
            for g, site, nm, cls in b.raw_uses:
                if g is not f:
                    continue        # inside an inlined constructor the parameters are already clones
                rep.fail("UNCLONED-SUBEXPRESSION@%s#%s" % (f.display.replace(NS, ""), nm),
                         "%s: %s embeds the sub-expression '%s' of the differentiated node in the new %s without clone(v): the "
                         "derivative keeps reading the variables of the original evaluator instead of its own"
                         % (rel(g.short_loc(site)), f.display.replace(NS, ""), nm, cls))
        return res

    def report(f, key, facts, got, want, what):
        fx = {k: v for k, v in facts.items() if v is not None}
        if same(got, want):
            rep.ok("%s %s = %s" % (f.display.replace(NS, ""), fx or "", what), sample=len(fx) <= 1)
        else:
            rep.fail(key, "%s (%s): on the path %s the rule builds  %r  but %s is  %r"
                     % (f.display.replace(NS, ""), rel(f.loc), fx or "{}", got, what, want))

    # ---- 1. function rules
    u, du = sym("u"), sym("du")
    nrules = 0
    registered_without_rule = []
    for f in each(lambda f: f.qname == NS + "differentiateFunction"):
        m = re.search(r"<&?(?:::|std::)?(.*)>$", f.display)
        fn = m.group(1)
        p = f.params
        env = {p[0]["declId"]: ("expr", "expr")} if p and p[0]["name"] else {}
        names = {"expr": (u, du)}
        res = interp(f, names, env)
        if dfun(fn, u, du, ln10) is None:
            # no calculus rule known to this check: the function must raise on every path
            rep.count("functions without a rule (must raise)")
            registered_without_rule.append(fn)
            if res and all(isinstance(v, tuple) and v[0] == "raise" for _f, v, _e in res):
                rep.ok("differentiateFunction<%s> raises (%s)" % (fn, res[0][1][1]), sample=fn == "erf")
            else:
                rep.fail("UNSUPPORTED-DERIVATIVE@%s" % fn, "%s: differentiateFunction<%s> returns an expression although no "
                         "differentiation rule is known for it (%r)" % (rel(f.loc), fn, [v for _f, v, _e in res][:2]))
            continue
        nrules += 1
        rep.count("function rules")
        if not res:
            rep.fail("DERIVATIVE@%s" % fn, "differentiateFunction<%s> has no returning path" % fn)
        for facts, v, _e in res:
            dep = facts.get("dependsOnVariable:expr")
            want = Rat(0) if dep is False else dfun(fn, u, du, ln10)
            if isinstance(v, tuple) and v[0] == "raise":
                rep.fail("DERIVATIVE@%s" % fn, "differentiateFunction<%s> raises on the path %s" % (fn, facts))
                continue
            report(f, "DERIVATIVE@%s" % fn, facts, v, want, "%s'(u) u'" % fn)
    rep.extra["functions_that_raise_on_differentiation"] = sorted(registered_without_rule)
    # ---- 2. binary operators
    A, Bv, dA, dB = sym("a"), sym("b"), sym("da"), sym("db")
    for f in each(lambda f: f.qname == NS + "differentiateBinaryOperation"):
        op = re.search(r"Op(\w+)>$", f.display).group(1)
        p = f.params
        env = {p[0]["declId"]: ("expr", "a"), p[1]["declId"]: ("expr", "b")}
        names = {"a": (A, dA), "b": (Bv, dB)}
        res = interp(f, names, env)
        rep.count("operator rules")
        arms = set()
        for facts, v, _e in res:
            ba, bb = facts.get("dependsOnVariable:a"), facts.get("dependsOnVariable:b")
            xa = Rat(0) if ba is False else dA
            xb = Rat(0) if bb is False else dB
            want = {"Plus": lambda: xa + xb, "Minus": lambda: xa - xb, "Mult": lambda: xa * Bv + A * xb,
                    "Div": lambda: xa / Bv - A * xb / (Bv * Bv),
                    "Power": lambda: Bv * app("pow", A, Bv - Rat(1)) * xa + app("log", A) * app("pow", A, Bv) * xb}[op]()
            arms.add((ba, bb))
            report(f, "DERIVATIVE@operator%s" % op, facts, v, want, "d(a %s b)" % op)
        for arm in ((True, True), (True, False), (False, True), (False, False)):
            if not any((a in (arm[0], None)) and (b in (arm[1], None)) for a, b in arms):
                rep.fail("DERIVATIVE@operator%s#arm" % op, "differentiateBinaryOperation<Op%s> has no path for dependsOn(a)=%s, "
                         "dependsOn(b)=%s" % (op, arm[0], arm[1]))
    # ---- 3. negation, conditional, powers
    for f in each(lambda f: f.qname == NS + "Negation::differentiate"):
        res = interp(f, {"expr": (u, du)}, {}, None)
        rep.count("other rules")
        for facts, v, _e in res:
            report(f, "DERIVATIVE@Negation", facts, v, -du, "-(u')")
    C, dC = sym("c"), sym("dc")
    for f in each(lambda f: f.qname == NS + "ConditionalExpr::differentiate"):
        res = interp(f, {"a": (A, dA), "b": (Bv, dB), "c": (C, dC)}, {}, None)
        rep.count("other rules")
        for facts, v, _e in res:
            ba, bb = facts.get("dependsOnVariable:a"), facts.get("dependsOnVariable:b")
            if ba is False and bb is False:
                want = Rat(0)
            else:
                want = ("cond", C, Rat(0) if ba is False else dA, Rat(0) if bb is False else dB)
            report(f, "DERIVATIVE@ConditionalExpr", facts, v, want, "c ? a' : b'")
    for f in each(lambda f: re.match(re.escape(NS) + r"PowerFunction<-?\d+>::differentiate$", f.display or "")):
        N = int(re.search(r"<(-?\d+)>", f.display).group(1))
        res = interp(f, {"expr": (u, du)}, {}, None)
        rep.count("power rules")
        want = Rat(N) * app("pow", u, Rat(N - 1)) * du if N != 0 else Rat(0)
        for facts, v, _e in res:
            report(f, "DERIVATIVE@PowerFunction<%d>" % N, facts, v, want, "%d u^%d u'" % (N, N - 1))
    for f in each(lambda f: f.qname == NS + "GeneralPowerFunction::differentiate"):
        res = interp(f, {"expr": (u, du)}, {}, None)
        rep.count("power rules")
        for facts, v, _e in res:
            n = Rat(17) if facts.get("this->n==17") is True else sym("n")
            want = n * app("pow", u, n - Rat(1)) * du
            if facts.get("this->n==17") is True and not isinstance(v, tuple):
                v = v.subs("n", 17)        # the path relation n = 17
            report(f, "DERIVATIVE@GeneralPowerFunction", facts, v, want, "n u^(n-1) u'")
    # ---- 4. binary functions raise
    for f in each(lambda f: re.match(re.escape(NS) + r"StandardBinaryFunction<.*>::differentiate$", f.display or "")):
        res = interp(f, {"expr1": (A, dA), "expr2": (Bv, dB)}, {}, None)
        rep.count("functions without a rule (must raise)")
        if res and all(isinstance(v, tuple) and v[0] == "raise" for _f, v, _e in res):
            rep.ok("%s raises" % f.display.replace(NS, ""), sample=False)
        else:
            rep.fail("UNSUPPORTED-DERIVATIVE@%s" % f.display.replace(NS, ""), "%s returns an expression" % f.display)
    # ---- 5. applyChainRule(a, b) = a*b ; the only shortcut is 'b is the constant 1'
    for f in each(lambda f: f.qname == NS + "applyChainRule"):
        p = f.params
        env = {p[0]["declId"]: ("expr", "d1"), p[1]["declId"]: ("expr", "d2")}
        D1, D2 = sym("d1"), sym("d2")
        res = interp(f, {"d1": (D1, sym("dd1")), "d2": (D2, sym("dd2"))}, env)
        rep.count("other rules")
        for facts, v, env_ in res:
            if isinstance(v, tuple) and v[0] == "expr":
                v = {"d1": D1, "d2": D2}[v[1]]
            short = [k for k, val in facts.items() if val is True and "fpclassify" in k]
            if short:
                # guarded by fpclassify(d2->getValue() - 1) == FP_ZERO on a constant d2: d2 = 1 on this path
                okc = facts.get("isConstant:d2") is True and any(re.search(r"fpclassify\(v\)==(FP_ZERO|2)$", k) for k in short)
                vdecl = [f.text(x["init"]) for s_, n_ in f.stmts.items() if n_["k"] == "DeclStmt" for x in n_["decls"]
                         if x.get("name") == "v" and "init" in x]
                okc = okc and vdecl and vdecl[0].replace(" ", "") == "(d2->getValue()-1)"
                want = D1
                if not okc:
                    rep.fail("DERIVATIVE@applyChainRule#shortcut", "applyChainRule returns its first argument alone under %s, which "
                             "is not 'd2 is the constant 1'" % facts)
                    continue
            else:
                want = D1 * D2
            report(f, "DERIVATIVE@applyChainRule", facts, v, want, "d1 * d2")
    rep.floor("function rules", 13)
    rep.floor("operator rules", 5)
    rep.floor("power rules", 30)
    rep.floor("functions without a rule (must raise)", 15)
    rep.floor("other rules", 3)
    rep.assumptions += ["dependsOnVariable(pos) false means the sub-expression's derivative is zero (checked for the leaves by "
                        "reading: Number, Variable)", "exact real calculus: domains of differentiability are not decided",
                        "the rules for external functions, kriged functions and 'diff' nodes are not covered"]
    return rep
