// instantiations for the C22 structural clauses (parsed only): Hosford 1972 and Barlat 2004 second derivatives, N = 1, 2, 3
#include "TFEL/Math/stensor.hxx"
#include "TFEL/Math/st2tost2.hxx"
#include "TFEL/Material/Hosford1972YieldCriterion.hxx"
#include "TFEL/Material/Barlat2004YieldCriterion.hxx"
using namespace tfel::math;
using namespace tfel::material;
template <unsigned short N>
static void inst(const stensor<N, double>& s, const double a, const double e) {
  auto r1 = computeHosfordStressSecondDerivative(s, a, e);
  const auto l1 = makeBarlatLinearTransformation<N, double>(1, 1, 1, 1, 1, 1, 1, 1, 1);
  auto r2 = computeBarlatStressSecondDerivative(s, l1, l1, a, e);
  (void)r1; (void)r2;
}
void verif_c22(const stensor<1, double>& s1, const stensor<2, double>& s2, const stensor<3, double>& s3, const double a, const double e) {
  inst<1>(s1, a, e);
  inst<2>(s2, a, e);
  inst<3>(s3, a, e);
}
