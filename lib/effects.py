"""Rooted field-write summaries (used by C50).

For every function g:  W[g] = {(root, field)} where root is ('param', i) or ('this',) : g (or something it calls) may
leave a changed value in field `field` (of one of the tracked record classes) of the object designated by that
parameter / receiver when it returns normally.

 - direct writes: assignment / compound assignment / ++ -- / element assignment / copy-fill destination / container
   mutators, on an lvalue whose base object resolves to a parameter or to *this (through references, pointers,
   iterators, range-for variables, member accesses, operator[] / at / begin / getters returning references);
   a base that resolves to a local *object* (a copy) is not a write to the caller's record;
 - calls: the callee's summary is mapped through the actual arguments (virtual calls: every method of that name and
   arity); constructors build fresh objects and are skipped;
 - save / restore idiom: a field that is saved into a local array before being written and copied back from that
   array on every path to the normal exit is not in the summary (must-pass-through on the CFG).
"""
from cfg import forward

WRITE_OPS = ("=", "+=", "-=", "*=", "/=")
CONTAINER_MUT = ("resize", "clear", "swap", "push_back", "assign", "fill", "emplace_back", "erase", "insert")
REF_ACCESSORS = ("begin", "end", "data", "front", "back", "at", "get", "cbegin", "rbegin")
COPY_LIKE = {"std::copy": (0, 2), "std::copy_n": (0, 2), "std::fill": (None, 0), "std::fill_n": (None, 0), "std::transform": (0, -1),
             "std::swap": (1, 0)}


class Effects:
    def __init__(self, funcs, state_classes, bases=None, fresh_allocators=(), scratch_types=()):
        """bases: class qname -> [base class qnames] (virtual calls then reach only overriders in derived classes);
        fresh_allocators: functions whose only effect on a tracked record is to create and initialise a new one."""
        self.funcs = funcs
        self.bases = bases
        self.fresh = set(fresh_allocators)
        self.scratch = tuple(scratch_types)   # records reached through a member of such a type are work areas, not state
        self.cls = tuple(state_classes)
        self.byid = {(f.unit, f.id): f for f in funcs}
        self.top = {}
        self.members = {}          # top function -> [itself + closures]
        for f in funcs:
            t = f
            while t.parent is not None and (t.unit, t.parent) in self.byid:
                t = self.byid[(t.unit, t.parent)]
            self.top[(f.unit, f.id)] = t
            self.members.setdefault((t.unit, t.id), []).append(f)
        self.byq = {}
        self.sig = {}
        for f in funcs:
            if f.parent is None:
                self.byq.setdefault(f.qname, []).append(f)
                self.sig.setdefault(f.qname.rsplit("::", 1)[-1], set()).add((f.qname, len(f.params)))
        self.decls = {}            # (unit, top id) -> declId -> (func, decl dict)
        for k, ms in self.members.items():
            tab = {}
            for g in ms:
                for s, n in g.stmts.items():
                    if n["k"] == "DeclStmt":
                        for d in n["decls"]:
                            if "declId" in d:
                                tab.setdefault(d["declId"], (g, d))
            self.decls[k] = tab
        self.W = {}                # top key -> {(root, field): witness text}
        self.unresolved = 0

    # ------------------------------------------------------------------ roots
    def root(self, g, sid, depth=0):
        """('param', i) / ('this',) / ('local',) / ('unknown',) for the object designated by expression sid of g."""
        if depth > 12 or sid is None:
            return ("unknown",)
        sid = g.strip(sid)
        if sid is None or sid not in g.stmts:
            return ("unknown",)
        n = g.stmts[sid]
        k = n["k"]
        t = self.top[(g.unit, g.id)]
        if k == "CXXThisExpr":
            return ("this",)
        if k == "DeclRefExpr":
            if any(t_ in (n.get("declType") or "") for t_ in self.scratch):
                return ("scratch",)
            if n.get("parm"):
                for i, p in enumerate(t.params):
                    if p["declId"] == n["declId"]:
                        return ("param", i)
                return ("unknown",)          # a closure's own parameter
            ent = self.decls[(t.unit, t.id)].get(n.get("declId"))
            if ent is None:
                return ("unknown",) if not n.get("local") else ("local",)
            dg, d = ent
            ty = (d.get("type") or "").rstrip()
            indirect = ty.endswith("&") or ty.endswith("*") or "iterator" in ty or "shared_ptr" in ty or "unique_ptr" in ty
            if not indirect:
                return ("local",)
            if "init" not in d:
                return ("unknown",)
            return self.root(dg, d["init"], depth + 1)
        if k == "MemberExpr":
            if any(t_ in (n.get("fieldType") or "") for t_ in self.scratch):
                return ("scratch",)
            ks = g.kids(sid)
            return self.root(g, ks[0], depth + 1) if ks else ("this",)
        if k == "CXXMemberCallExpr":
            if any(t_ in (n.get("t") or "") for t_ in self.scratch):
                return ("scratch",)
            return self.root(g, n.get("obj"), depth + 1)
        if k == "CXXOperatorCallExpr" and n.get("args"):
            return self.root(g, n["args"][0], depth + 1)
        if k in ("UnaryOperator", "ArraySubscriptExpr", "CXXDependentScopeMemberExpr", "CXXConstCastExpr", "CXXStaticCastExpr",
                 "CXXReinterpretCastExpr", "CStyleCastExpr", "CXXDynamicCastExpr"):
            ks = g.kids(sid)
            return self.root(g, ks[0], depth + 1) if ks else ("unknown",)
        if k in ("MaterializeTemporaryExpr", "CXXBindTemporaryExpr", "CXXConstructExpr", "CXXTemporaryObjectExpr", "CXXFunctionalCastExpr"):
            return ("local",)
        if k == "CallExpr":
            # free function returning a reference into its first argument (std::get, std::forward, ...)
            a = n.get("args", [])
            return self.root(g, a[0], depth + 1) if a else ("unknown",)
        if k == "ConditionalOperator":
            ks = g.kids(sid)
            r1, r2 = self.root(g, ks[1], depth + 1), self.root(g, ks[2], depth + 1)
            return r1 if r1 == r2 else ("unknown",)
        return ("unknown",)

    def field_of(self, g, x):
        """(MemberExpr sid) of a tracked record field at the root of lvalue x (through (), [], .begin(), *, &)."""
        x = g.strip(x)
        if x is None or x not in g.stmts:
            return None
        n = g.stmts[x]
        if n["k"] == "MemberExpr" and n.get("declKind") == "Field" and n.get("fieldClass") in self.cls:
            return x
        if n["k"] == "CXXOperatorCallExpr" and n.get("op") in ("()", "[]", "*", "->") and n.get("args"):
            return self.field_of(g, n["args"][0])
        if n["k"] == "CXXMemberCallExpr" and (n.get("callee") or "").rsplit("::", 1)[-1] in REF_ACCESSORS:
            return self.field_of(g, n.get("obj"))
        if n["k"] == "UnaryOperator" and n.get("op") in ("&", "*"):
            return self.field_of(g, g.kids(x)[0])
        if n["k"] == "ArraySubscriptExpr":
            return self.field_of(g, g.kids(x)[0])
        if n["k"] == "MemberExpr":
            ks = g.kids(x)
            return self.field_of(g, ks[0]) if ks else None
        return None

    def local_array(self, g, x):
        """declId when x designates a local (non-record) buffer: 'buf', '&buf[0]', 'buf.begin()'."""
        x = g.strip(x)
        if x is None or x not in g.stmts:
            return None
        n = g.stmts[x]
        if n["k"] == "DeclRefExpr" and n.get("local") and not n.get("parm") and not n.get("ref"):
            return n["declId"]
        if n["k"] == "CXXMemberCallExpr" and (n.get("callee") or "").rsplit("::", 1)[-1] in REF_ACCESSORS:
            return self.local_array(g, n.get("obj"))
        if n["k"] in ("UnaryOperator", "ArraySubscriptExpr"):
            return self.local_array(g, g.kids(x)[0])
        return None

    # ---------------------------------------------------------- write events
    def events(self, g):
        """[(sid, kind, payload)] for statements of g:
             ('write', (root, field, src_local or None))  direct write (src_local: the local buffer copied from, if any)
             ('save', (root, field, local))               copy of a record field into a local buffer
             ('call', (callee qnames, n))                 call whose summary must be mapped
        """
        ev = {}
        for s, n in g.stmts.items():
            k = n["k"]
            tgt = src = None
            if k in ("BinaryOperator", "CompoundAssignOperator") and n.get("op") in WRITE_OPS:
                ks = g.kids(s)
                tgt, src = ks[0], (ks[1] if len(ks) > 1 else None)
            elif k == "CXXOperatorCallExpr" and n.get("op") in WRITE_OPS and n.get("args"):
                tgt, src = n["args"][0], (n["args"][1] if len(n["args"]) > 1 else None)
            elif k == "UnaryOperator" and n.get("op") in ("++", "--"):
                tgt = g.kids(s)[0]
            elif k == "CallExpr" and n.get("callee"):
                c = n["callee"]
                a = n.get("args", [])
                if c in COPY_LIKE and a:
                    si, di = COPY_LIKE[c]
                    tgt = a[di] if -len(a) <= di < len(a) else None
                    src = a[si] if si is not None and si < len(a) else None
                elif c.startswith("tfel::fsalgo::copy<") and c.endswith("::exe") and len(a) >= 2:
                    src, tgt = a[0], a[1]
                elif c.startswith("tfel::fsalgo::") and c.endswith("::exe") and a:
                    tgt = a[-1]
            elif k == "CXXMemberCallExpr" and (n.get("callee") or "").rsplit("::", 1)[-1] in CONTAINER_MUT:
                tgt = n.get("obj")
            if tgt is not None:
                fx = self.field_of(g, tgt)
                if fx is not None:
                    r = self.root(g, g.kids(fx)[0] if g.kids(fx) else None) if g.kids(fx) else ("this",)
                    la = self.local_array(g, src) if src is not None else None
                    ev[s] = ("write", (r, g.stmts[fx]["member"], la))
                    continue
                # destination is a local buffer and the source a record field: a save
                la = self.local_array(g, tgt)
                if la is not None and src is not None:
                    fs = self.field_of(g, src)
                    if fs is not None:
                        r = self.root(g, g.kids(fs)[0]) if g.kids(fs) else ("this",)
                        ev[s] = ("save", (r, g.stmts[fs]["member"], la))
                        continue
            if k in ("CallExpr", "CXXMemberCallExpr", "CXXOperatorCallExpr") and n.get("callee"):
                c = n["callee"]
                cands = set()
                if c in self.byq:
                    cands.add(c)
                if n.get("virtual"):
                    na = len(n.get("args", []))
                    scls = c.rsplit("::", 1)[0]
                    cands |= set(q for q, np_ in self.sig.get(c.rsplit("::", 1)[-1], ()) if q in self.byq and np_ == na
                                 and self.derives(q.rsplit("::", 1)[0], scls))
                if cands:
                    ev[s] = ("call", (tuple(sorted(cands)), n))
        return ev

    def derives(self, cls, base, depth=0):
        if self.bases is None or cls == base:
            return True
        if depth > 10:
            return False
        return any(self.derives(b, base, depth + 1) for b in self.bases.get(cls, ()))

    def map_root(self, g, n, r, target):
        """root in the caller g of the callee-side root r at call node n."""
        if r == ("this",):
            if n["k"] == "CXXMemberCallExpr":
                return self.root(g, n.get("obj"))
            if n["k"] == "CXXOperatorCallExpr" and n.get("args"):
                return self.root(g, n["args"][0])
            return ("unknown",)
        i = r[1]
        a = n.get("args", [])
        pt = (target.params[i]["type"] or "").rstrip() if i < len(target.params) else ""
        if not (pt.endswith("&") or pt.endswith("*")):
            return ("local",)        # passed by value: the callee works on its own copy
        if n["k"] == "CXXOperatorCallExpr" and target.cls:
            i += 1
        if i < len(a):
            return self.root(g, a[i])
        return ("unknown",)

    # --------------------------------------------------------------- summary
    def summarise(self, t):
        """one round for top-level function t, using the current summaries of its callees."""
        out = {}
        for g in self.members[(t.unit, t.id)]:
            ev = self.events(g)
            if not ev:
                continue
            # expand to write items per statement
            items = {}        # sid -> [(root, field, restore_from_local, witness)]
            saves = {}        # sid -> (root, field, local)
            for s, (kind, pl) in ev.items():
                if kind == "write":
                    r, fld, la = pl
                    items.setdefault(s, []).append((r, fld, la, "%s writes %s" % (g.short_loc(s), fld)))
                elif kind == "save":
                    saves[s] = pl
                else:
                    cands, n = pl
                    for c in cands:
                        for tg in self.byq[c]:
                            for (r, fld), w in self.W.get((tg.unit, tg.id), {}).items():
                                rr = self.map_root(g, n, r, tg)
                                items.setdefault(s, []).append((rr, fld, None, "%s calls %s; %s" % (g.short_loc(s), c, w)))
            keys = set((r, fld) for its in items.values() for r, fld, _la, _w in its if r[0] in ("param", "this"))
            self.unresolved += sum(1 for its in items.values() for r, fld, _la, _w in its if r[0] == "unknown")
            if not keys:
                continue
            closure = g.parent is not None
            for key in keys:
                wit = [w for its in items.values() for r, fld, _la, w in its if (r, fld) == key]
                if closure or g.entry is None or not any(sv[:2] == key for sv in saves.values()):
                    out.setdefault(key, wit[0])
                    continue
                # save / restore: state = (dirty?, frozenset of locals holding a clean copy)
                pos = {}

                def el(st, b, i, e, key=key):
                    if "s" not in e:
                        return (st,)
                    s = e["s"]
                    dirty, saved = st
                    if s in saves and saves[s][:2] == key:
                        la = saves[s][2]
                        saved = (saved | {la}) if not dirty else (saved - {la})
                    for r, fld, la, _w in items.get(s, ()):
                        if (r, fld) != key:
                            continue
                        if la is not None and la in saved:
                            dirty = False
                        else:
                            dirty = True
                    return ((dirty, saved),)
                IN, _O = forward(g, ((False, frozenset()),), el)
                if any(d for d, _sv in IN.get(g.exit, ())):
                    out.setdefault(key, wit[0] + " (not restored on every path)")
        return out

    def compute(self, rounds=12):
        tops = [f for f in self.funcs if f.parent is None]
        # constructors and destructors act on objects that are being created / destroyed
        def skip(f):
            last = f.qname.rsplit("::", 1)[-1]
            return f.cls is not None and (last == f.cls.rsplit("::", 1)[-1] or last.startswith("~"))
        for _ in range(rounds):
            changed = False
            self.unresolved = 0
            for t in tops:
                if skip(t):
                    continue
                w = {} if t.qname in self.fresh else self.summarise(t)
                k = (t.unit, t.id)
                if set(w) != set(self.W.get(k, {})):
                    self.W[k] = w
                    changed = True
            if not changed:
                break
        else:
            raise RuntimeError("effect summaries did not converge")
        return self.W
