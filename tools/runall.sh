#!/bin/bash
# usage: tools/runall.sh quick|thorough ; runs every claimed check (tier $1) and prints rc and wall time
cd /verif
for id in $(python3 -c "import json;print(' '.join(c['property_id'] for c in json.load(open('MANIFEST.json'))['checks']))"); do
  s=$(date +%s); out=$(./check $id --tier $1 2>&1); rc=$?; e=$(date +%s)
  echo "$id rc=$rc $((e-s))s $(echo "$out" | grep -c '^VIOLATION') viol $(echo "$out" | grep -m1 'BROKEN' | cut -c1-150)"
done
