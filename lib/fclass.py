"""Abstract interpretation of floating expressions over IEEE classes.

A value is a set of classes among nan, ninf, neg, zero, pos, pinf (neg/pos are
the finite non-zero values), optionally tagged with a symbol: two values that
carry the same symbol denote the same run-time number (used to decide
'x - x = 0' when a column is compared with itself).  Finite arithmetic is
assumed not to overflow (recorded as an assumption by the checks using this).

evaluate() works on cfgdump statement tables; run_paths() explores the clang
CFG path-sensitively over (environment, flags) states.
"""
from cfg import *

NAN, NINF, NEG, ZERO, POS, PINF = "nan", "ninf", "neg", "zero", "pos", "pinf"
ALL = frozenset([NAN, NINF, NEG, ZERO, POS, PINF])
FIN = frozenset([NEG, ZERO, POS])
NONNEG = frozenset([ZERO, POS])
ORDER = {NINF: 0, NEG: 1, ZERO: 2, POS: 3, PINF: 4}


class V:
    """abstract float: (classes, sym)."""
    __slots__ = ("cls", "sym")

    def __init__(self, cls, sym=None):
        self.cls = frozenset(cls)
        self.sym = sym

    def key(self):
        return (tuple(sorted(self.cls)), self.sym)

    def __repr__(self):
        return "{%s}%s" % (",".join(sorted(self.cls)), ("@" + self.sym) if self.sym else "")


def _neg1(c):
    return {NAN: NAN, NINF: PINF, NEG: POS, ZERO: ZERO, POS: NEG, PINF: NINF}[c]


def _abs1(c):
    return {NAN: NAN, NINF: PINF, NEG: POS, ZERO: ZERO, POS: POS, PINF: PINF}[c]


def _add1(a, b):
    if a == NAN or b == NAN:
        return {NAN}
    if {a, b} == {PINF, NINF}:
        return {NAN}
    if a in (PINF, NINF):
        return {a}
    if b in (PINF, NINF):
        return {b}
    if a == ZERO:
        return {b}
    if b == ZERO:
        return {a}
    if a == b:
        return {a}
    return {NEG, ZERO, POS}


def _sgn(c):
    return {NINF: -1, NEG: -1, ZERO: 0, POS: 1, PINF: 1}[c]


def _mul1(a, b):
    if a == NAN or b == NAN:
        return {NAN}
    ia, ib = a in (PINF, NINF), b in (PINF, NINF)
    if (ia and b == ZERO) or (ib and a == ZERO):
        return {NAN}
    s = _sgn(a) * _sgn(b)
    if ia or ib:
        return {PINF if s > 0 else NINF}
    if s == 0:
        return {ZERO}
    return {POS if s > 0 else NEG}


def _div1(a, b):
    if a == NAN or b == NAN:
        return {NAN}
    ia, ib = a in (PINF, NINF), b in (PINF, NINF)
    if ia and ib:
        return {NAN}
    if ib:
        return {ZERO}
    if b == ZERO:
        if a == ZERO:
            return {NAN}
        return {PINF, NINF}     # sign of the zero unknown
    s = _sgn(a) * _sgn(b)
    if ia:
        return {PINF if s > 0 else NINF}
    if s == 0:
        return {ZERO}
    return {POS if s > 0 else NEG}


def _lift2(fn, x, y):
    r = set()
    for a in x.cls:
        for b in y.cls:
            r |= fn(a, b)
    return V(r)


def neg(x):
    return V({_neg1(c) for c in x.cls})


def fabs(x):
    return V({_abs1(c) for c in x.cls})


def add(x, y):
    return _lift2(_add1, x, y)


def sub(x, y):
    if x.sym is not None and x.sym == y.sym:
        r = set()
        for c in x.cls:
            r |= {ZERO} if c in FIN else {NAN}
        return V(r)
    return _lift2(lambda a, b: _add1(a, _neg1(b)), x, y)


def mul(x, y):
    return _lift2(_mul1, x, y)


def div(x, y):
    return _lift2(_div1, x, y)


def _cmp1(op, a, b, same):
    """possible truth values of a op b for classes a, b."""
    if a == NAN or b == NAN:
        return {op == "!="}
    rel = set()
    if same or (a == b and a in (ZERO, PINF, NINF)):
        rel = {"eq"}
    elif a == b:
        rel = {"lt", "eq", "gt"}
    else:
        rel = {"lt"} if ORDER[a] < ORDER[b] else {"gt"}
    res = set()
    for r in rel:
        res.add({"<": r == "lt", ">": r == "gt", "<=": r in ("lt", "eq"), ">=": r in ("gt", "eq"),
                 "==": r == "eq", "!=": r != "eq"}[op])
    return res


def cmp(op, x, y):
    same = x.sym is not None and x.sym == y.sym
    r = set()
    for a in x.cls:
        for b in y.cls:
            r |= _cmp1(op, a, b, same)
    return frozenset(r)


def fmin(x, y):
    """std::min(x, y) = (y < x) ? y : x"""
    r = set()
    for a in x.cls:
        for b in y.cls:
            t = _cmp1("<", b, a, False)
            if True in t:
                r.add(b)
            if False in t:
                r.add(a)
    return V(r)


def fmax(x, y):
    """std::max(x, y) = (x < y) ? y : x"""
    r = set()
    for a in x.cls:
        for b in y.cls:
            t = _cmp1("<", a, b, False)
            if True in t:
                r.add(b)
            if False in t:
                r.add(a)
    return V(r)


TT = frozenset([True, False])
UNARY_MATH = {"abs", "fabs", "std::abs", "std::fabs"}


class Evaluator:
    """evaluates expressions of one function under an environment.
    source(f, sid) -> V or None : table of input expressions."""

    def __init__(self, f, source):
        self.f = f
        self.source = source

    def ev(self, sid, env):
        """returns ('f', V) | ('b', frozenset(bools)) | ('u', None)."""
        f = self.f
        s = f.strip(sid)
        if s is None or s <= 0:
            return ("u", None)
        n = f.stmts[s]
        k = n["k"]
        v = self.source(f, s)
        if v is not None:
            return ("f", v)
        if k in ("ImplicitCastExpr", "CXXStaticCastExpr", "CStyleCastExpr", "CXXFunctionalCastExpr"):
            ks = f.kids(s)
            r = self.ev(ks[0], env) if ks else ("u", None)
            t = n.get("t", "")
            if r[0] == "u" and t in ("double", "float", "long double"):
                return ("f", V(FIN))       # integer converted to a floating type
            if r[0] == "f" and n.get("cast") == "FloatingToBoolean":
                return ("b", cmp("!=", r[1], V({ZERO})))
            return r
        if k == "FloatingLiteral" or k == "IntegerLiteral":
            x = float(n["value"])
            if k == "IntegerLiteral" and not n.get("t", "").startswith(("double", "float")):
                return ("f", V({ZERO} if x == 0 else ({POS} if x > 0 else {NEG})))
            return ("f", V({ZERO} if x == 0 else ({POS} if x > 0 else {NEG})))
        if k == "CXXBoolLiteralExpr":
            return ("b", frozenset([bool(n["value"])]))
        if k == "DeclRefExpr":
            if n.get("declId") in env:
                return env[n["declId"]]
            return ("u", None)
        if k == "UnaryOperator":
            op = n["op"]
            r = self.ev(f.kids(s)[0], env)
            if op == "-" and r[0] == "f":
                return ("f", neg(r[1]))
            if op == "+" and r[0] == "f":
                return r
            if op == "!":
                if r[0] == "b":
                    return ("b", frozenset(not x for x in r[1]))
                return ("b", TT)
            return ("u", None)
        bo = f.binop(s)
        if bo is not None and k != "CompoundAssignOperator":
            op, l, r = bo
            if op in ("&&", "||"):
                a, b = self.ev(l, env), self.ev(r, env)
                av = a[1] if a[0] == "b" else TT
                bv = b[1] if b[0] == "b" else TT
                res = set()
                for x in av:
                    if op == "&&":
                        res |= {False} if not x else set(bv)
                    else:
                        res |= {True} if x else set(bv)
                return ("b", frozenset(res))
            if op in ("<", ">", "<=", ">=", "==", "!="):
                a, b = self.ev(l, env), self.ev(r, env)
                if a[0] == "f" and b[0] == "f":
                    return ("b", cmp(op, a[1], b[1]))
                if a[0] == "b" and b[0] == "b" and op in ("==", "!="):
                    res = set()
                    for x in a[1]:
                        for y in b[1]:
                            res.add((x == y) if op == "==" else (x != y))
                    return ("b", frozenset(res))
                return ("b", TT)
            if op in ("+", "-", "*", "/") and k == "BinaryOperator":
                a, b = self.ev(l, env), self.ev(r, env)
                if a[0] == "f" and b[0] == "f":
                    return ("f", {"+": add, "-": sub, "*": mul, "/": div}[op](a[1], b[1]))
                if n.get("t") in ("double", "float", "long double"):
                    return ("f", V(ALL))
                return ("u", None)
            if op == "=":
                return self.ev(r, env)
            return ("u", None)
        if k == "ConditionalOperator":
            c, a, b = f.kids(s)[:3]
            cv = self.ev(c, env)
            av, bv = self.ev(a, env), self.ev(b, env)
            poss = cv[1] if cv[0] == "b" else TT
            outs = [x for x, t in ((av, True), (bv, False)) if t in poss]
            if all(o[0] == "f" for o in outs):
                cl = set()
                for o in outs:
                    cl |= o[1].cls
                return ("f", V(cl, outs[0][1].sym if len(outs) == 1 else None))
            if all(o[0] == "b" for o in outs):
                r = set()
                for o in outs:
                    r |= o[1]
                return ("b", frozenset(r))
            return ("u", None)
        if k in ("CallExpr", "CXXMemberCallExpr", "CXXOperatorCallExpr"):
            cal = n.get("callee") or ""
            args = n.get("args", [])
            base = cal.split("<")[0]
            if base in UNARY_MATH and len(args) == 1:
                r = self.ev(args[0], env)
                return ("f", fabs(r[1])) if r[0] == "f" else ("f", V(ALL))
            if base in ("std::min", "std::max", "min", "max") and len(args) == 2:
                a, b = self.ev(args[0], env), self.ev(args[1], env)
                if a[0] == "f" and b[0] == "f":
                    return ("f", (fmin if base.endswith("min") else fmax)(a[1], b[1]))
                return ("f", V(ALL))
            if base in ("std::isfinite", "isfinite", "tfel::math::ieee754::isfinite") and len(args) == 1:
                r = self.ev(args[0], env)
                if r[0] == "f":
                    return ("b", frozenset((c in FIN) for c in r[1].cls))
                return ("b", TT)
            if base in ("std::isnan", "isnan", "tfel::math::ieee754::isnan") and len(args) == 1:
                r = self.ev(args[0], env)
                if r[0] == "f":
                    return ("b", frozenset((c == NAN) for c in r[1].cls))
                return ("b", TT)
            m = re.match(r"std::numeric_limits<(double|float|long double)>::(min|max|epsilon|denorm_min)$", cal)
            if m:
                return ("f", V({POS}))
            if re.match(r"std::numeric_limits<(double|float|long double)>::(infinity)$", cal):
                return ("f", V({PINF}))
            if re.match(r"std::numeric_limits<(double|float|long double)>::(quiet_NaN|signaling_NaN)$", cal):
                return ("f", V({NAN}))
            t = n.get("t", "")
            if t in ("double", "float", "long double", "const double", "const float"):
                return ("f", V(ALL))
            if t == "bool":
                return ("b", TT)
            return ("u", None)
        t = n.get("t", "")
        if t.replace("const ", "") in ("double", "float", "long double"):
            return ("f", V(ALL))
        if t == "bool":
            return ("b", TT)
        return ("u", None)


def env_key(env):
    return tuple(sorted((k, v[0], v[1].key() if v[0] == "f" else tuple(sorted(v[1]))) for k, v in env.items()))


def env_from_key(key):
    env = {}
    for k, kind, val in key:
        if kind == "f":
            env[k] = ("f", V(val[0], val[1]))
        else:
            env[k] = ("b", frozenset(val))
    return env
