// replay: a valid sign-changing bracket whose width and function-value difference both overflow: the regula-falsi estimate is
// inf/inf = NaN, and the test '(x < xmin) || (x > xmax)' lets it through
#include <cmath>
#include <cstdio>
#include <tuple>
#include <vector>
#include "TFEL/Config/TFELConfig.hxx"
#include "TFEL/Math/ScalarNewtonRaphson.hxx"
int main() {
  std::vector<double> pts;
  auto fdf = [&pts](const double x) {
    pts.push_back(x);
    return std::make_tuple(x, 0.);  // f(x) = x, reported derivative vanishes
  };
  auto c = [](const double f, const double, const double, const int) { return std::abs(f) < 1e-12; };
  const auto p = tfel::math::ScalarNewtonRaphsonParameters<double, int>{9e307, 20, -1e308, 1e308};
  const auto r = tfel::math::scalarNewtonRaphson(fdf, c, p);
  int bad = 0;
  for (std::size_t i = 3; i < pts.size(); ++i) {
    if (!((pts[i] >= -1e308) && (pts[i] <= 1e308))) {
      std::printf("evaluation %zu at x = %g is not inside the bracket [-1e308, 1e308]\n", i, pts[i]);
      ++bad;
    }
  }
  std::printf("converged=%d x=%g iterations=%d, %d estimate(s) outside the bracket\n", int(std::get<0>(r)), std::get<1>(r), std::get<2>(r), bad);
  return bad == 0 ? 0 : 1;
}
