"""C39 — generic behaviour entry point: K[] decoding tables, return codes,
policy forwarding, tri-state status discipline."""
from gbrules import *
import gencheck

RULE = ("Intervals(1) abstract interpretation of the K[0] decoders through the call chain "
        "integrate -> computePredictionOperator / wrappers (table must agree with BehaviourData.h "
        "at every integer code -3..4 and 97..104); K[1]/K[2] decode tables; RETURN-CODES in {-1,0,1}; "
        "MUST-PRECEDE(setOutOfBoundsPolicy(p); initialize) and ARG-FORWARD(policy); TRISTATE")


def rule_extmp_bounds(rep):
    """EXTMP-BOUNDS: a behaviour whose material properties come from a bounded MFront material property tests the status of
    <law>_checkBounds (0: in bounds, > 0: a standard bound is violated, < 0: a physical bound).  In the generated code every
    raise<OutOfBoundsException> and every warning on that status is reached only where the status is known to differ from 0 (three-valued
    facts on the comparisons of the status with 0), and the physical-bounds raise_if tests 'status < 0'."""
    src_dir = os.path.join(VERIF, "corpus", "gbmp")
    beh = os.path.join(src_dir, "VerifExtMP.mfront")
    src, inc = gencheck.generate([beh], os.path.join(OUT, "C39", "genmp"), extra_args=("--search-path=" + src_dir,))
    unit = os.path.join(src, "VerifExtMP-generic.cxx")
    d = cfgdump([unit], os.path.join(OUT, "C39", "dumpmp"), funcs=r"^tfel::material::VerifExtMP", flags_for=gencheck.gen_flags(inc))
    funcs = [Func(x, unit) for x in d[unit]["functions"]]
    nsites = 0
    for f in funcs:
        if f.entry is None:
            continue
        status = {}
        for n in f.stmts.values():
            if n["k"] == "DeclStmt":
                for dd in n["decls"]:
                    if (dd.get("name") or "").endswith("_bounds_check_status"):
                        status[dd["declId"]] = dd["name"]
        if not status:
            continue

        def lit0(x):
            n_ = f.stmts.get(f.strip(x))
            return n_ is not None and n_["k"] == "IntegerLiteral" and int(n_["value"]) == 0

        def atom(f_, s_):
            bo = f_.binop(s_)
            if bo and bo[0] in ("!=", "==", ">", "<"):
                a = f_.stmts.get(f_.strip(bo[1]))
                if a is not None and a["k"] == "DeclRefExpr" and a.get("declId") in status and lit0(bo[2]):
                    if bo[0] in ("!=", "=="):
                        return (("zero", a["declId"]), bo[0] == "!=")
                    return ((bo[0], a["declId"]), False)
            return None
        bad = []
        cnt = [0]

        def el(st, b, i, e):
            if "s" not in e:
                return (st,)
            n_ = f.stmts[e["s"]]
            fx = dict(st)
            if n_["k"] == "DeclStmt":
                for dd in n_["decls"]:
                    if dd.get("declId") in status:
                        cur = dd["declId"]
                        fx = {k_: v_ for k_, v_ in fx.items() if len(k_) < 2 or k_[1] != cur}
                        fx[("cur",)] = cur
                return (tuple(sorted(fx.items(), key=repr)),)
            cal = (n_.get("callee") or "") if n_["k"] == "CallExpr" else ""
            txt = ""
            if n_["k"] == "CallExpr" and cal.split("<")[0].endswith("tfel::raise") and "OutOfBoundsException" in cal:
                txt = "raise"
            if n_["k"] == "CXXOperatorCallExpr" and n_.get("op") == "<<" and "out of its bounds" in f.text(e["s"]):
                txt = "warning"
            if txt and ("cur",) in fx:
                cnt[0] += 1
                cur = fx[("cur",)]
                nonzero = fx.get(("zero", cur)) is False or fx.get((">", cur)) is True or fx.get(("<", cur)) is True
                if not nonzero:
                    bad.append((e["s"], txt, status[cur], fx.get(("zero", cur))))
            return (st,)

        def ed(st, b, succ, pol):
            fx = branch(f, b, pol, dict(st), atom)
            return () if fx is None else (tuple(sorted(fx.items(), key=repr)),)
        forward(f, ((),), el, ed)
        nsites += cnt[0]
        if bad:
            s_, what, nm, z = bad[0]
            key = "EXTMP-BOUNDS@%s" % f.qname.split("(")[0]
            if not any(v["key"] == key for v in rep.violations):
                rep.fail(key, "%s: the generated code reaches the %s for the standard bounds of a material property where '%s' is %s: under the "
                         "Strict policy a call whose arguments are all inside their bounds fails with -1, and a call outside them succeeds"
                         % (rel(f.short_loc(s_)), what, nm, "known to be 0" if z is True else "not known to differ from 0"))
        elif cnt[0]:
            rep.ok("%s: out-of-bounds actions on the status of <law>_checkBounds are taken only for a non-zero status (%d sites)" % (f.qname.split("(")[0], cnt[0]), sample=False)
    rep.count("out-of-bounds actions on a material property status", nsites)
    rep.floor("out-of-bounds actions on a material property status", 2)


def rule_post_update_bounds(rep, per):
    """POST-UPDATE-BOUNDS: the integrate() method generated for a corpus behaviour re-checks, after the state update, the bounds and the
    physical bounds of every persistent variable that declares some - state variables and auxiliary state variables alike: under the
    Strict policy an end-of-step value outside its bounds makes the call fail instead of being exported."""
    import glob
    for path in sorted(glob.glob(os.path.join(VERIF, "corpus", "gb", "*.mfront"))):
        txt = open(path).read()
        name = re.search(r"@Behaviour\s+(\w+)", txt).group(1)
        pers = set(re.findall(r"@(?:StateVariable|AuxiliaryStateVariable)\s+\w+\s+(\w+)", txt))
        bounded = set(v for v in re.findall(r"@(?:Physical)?Bounds\s+(\w+)\s+in", txt) if v in pers)
        if not bounded:
            continue
        unit = os.path.join(OUT, "C39", "gen", "src", name + "-generic.cxx")
        if not os.path.exists(unit):
            raise AnalysisBroken("%s: generated unit not found" % name)
        dd_ = cfgdump([unit], os.path.join(OUT, "C39", "dumpint"), funcs=r"^tfel::material::%s.*::integrate$" % name,
                      flags_for=gencheck.gen_flags(os.path.join(OUT, "C39", "gen", "include")))
        funcs = [Func(x, unit) for x in dd_[unit]["functions"]]
        ints = [f for f in funcs if f.qname.split("(")[0].endswith("::integrate") and f.qname.startswith("tfel::material::" + name)]
        if not ints:
            raise AnalysisBroken("%s: generated integrate() not found" % name)
        for f in ints:
            rep.count("generated integrate() methods examined for end-of-step bounds")
            seen = set()
            for n in f.stmts.values():
                if n["k"] == "CallExpr" and "BoundsCheck" in (n.get("callee") or "") and n.get("args"):
                    lits = [f.stmts[x].get("value") for x in f.walk(n["args"][0]) if f.stmts[x]["k"] == "StringLiteral"]
                    if lits:
                        seen.add(lits[0])
            miss = sorted(bounded - seen)
            if miss:
                key = "POST-UPDATE-BOUNDS@%s#%s" % (name, ",".join(miss))
                if not any(v["key"] == key for v in rep.violations):
                    rep.fail(key, "%s: the integrate() generated for %s does not re-check the bounds of %s after the state update: under the Strict "
                             "policy a step that drives it out of its bounds returns 1 and exports the value" % (rel(f.loc), name, miss))
            else:
                rep.ok("%s::integrate re-checks %s after the update [%s]" % (name, sorted(bounded), hyp(f)), sample=(hyp(f) == "TRIDIMENSIONAL"))
    rep.floor("generated integrate() methods examined for end-of-step bounds", 4)


def run(tier):
    rep = Report("C39", tier, "other", RULE)
    per = load_corpus("C39")
    for unit, funcs in sorted(per.items()):
        rep.count("generated units analysed")
        rep.count("functions analysed", len(funcs))
        rule_tristate(rep, funcs, "C39")
        rule_return_codes(rep, funcs)
        rule_policy(rep, funcs)
        hyps = None if tier == "thorough" else ("TRIDIMENSIONAL",)
        if "VerifPlain" in unit:
            continue    # the corpus entry without optional hooks (no prediction operator): the documented K[0] table assumes they exist
        rule_k0_tables(rep, funcs, "mfront::gb::integrate", hyps)
        for w in WRAPPERS:
            if any(f.qname == w for f in funcs):
                rule_k0_tables(rep, funcs, w, hyps)
        if "FiniteStrain" in unit:
            rule_k12_tables(rep, funcs)
    rule_extmp_bounds(rep)
    rule_post_update_bounds(rep, per)
    rep.floor("tri-state status variables", 15)
    rep.floor("K[0] code obligations", 16 * 7 * (5 if tier == "thorough" else 1))
    rep.floor("policy obligations", 20)
    rep.assumptions += [
        "corpus = /verif/corpus/gb/*.mfront (small strain, Hencky, Green-Lagrange, finite strain), all hypotheses "
        "the generic interface instantiates; the templates under analysis are those of the current tree",
        "specification of the K[] codes = comment of mfront/include/MFront/GenericBehaviour/BehaviourData.h "
        "(integer codes; [2.5:3.5] read as the tangent operator)",
        "opaque conditions (behaviour results) fork both ways; no feasibility reasoning"]
    return rep
