// instantiations of the generic (N >= 4 / run-time sized) LU kernels for the C07 guard rule (parsed only)
#include "TFEL/Math/tmatrix.hxx"
#include "TFEL/Math/tvector.hxx"
#include "TFEL/Math/matrix.hxx"
#include "TFEL/Math/vector.hxx"
#include "TFEL/Math/TinyMatrixSolve.hxx"
#include "TFEL/Math/TinyMatrixInvert.hxx"
#include "TFEL/Math/LUSolve.hxx"
using namespace tfel::math;
bool verif_k1(tmatrix<4, 4, double>& m, tvector<4, double>& b, const double eps) { return TinyMatrixSolve<4, double, false>::exe(m, b, eps); }
bool verif_k2(tmatrix<4, 4, double>& m, tmatrix<4, 2, double>& b, const double eps) { return TinyMatrixSolve<4, double, false>::exe(m, b, eps); }
bool verif_k3(tmatrix<5, 5, double>& m, tvector<5, double>& b, const double eps) { return TinyMatrixSolve<5, double, true>::exe(m, b, eps); }
bool verif_k4(tmatrix<5, 5, double>& m, tmatrix<5, 3, double>& b, const double eps) { return TinyMatrixSolve<5, double, true>::exe(m, b, eps); }
void verif_k5(tmatrix<4, 4, double>& m, const double eps) { TinyMatrixInvert<4, double>::exe(m, eps); }
void verif_k6(matrix<double>& m, vector<double>& b) { LUSolve::exe(m, b); }
