// driver for C08/C09: instantiates the six fixed-size solvers with opaque residuals and the scalar Newton-bisection
// root finder; only parsed (cfgdump), never run.
#include <cmath>
#include "TFEL/Math/TinyNewtonRaphsonSolver.hxx"
#include "TFEL/Math/TinyBroydenSolver.hxx"
#include "TFEL/Math/TinyBroyden2Solver.hxx"
#include "TFEL/Math/TinyPowellDogLegNewtonRaphsonSolver.hxx"
#include "TFEL/Math/TinyPowellDogLegBroydenSolver.hxx"
#include "TFEL/Math/TinyLevenbergMarquardtSolver.hxx"
#include "TFEL/Math/ScalarNewtonRaphson.hxx"

extern "C" bool verif_residual(double*, double*, const double*);
extern "C" double verif_f(double);
extern "C" double verif_df(double);
extern "C" bool verif_crit(double, double, double, int);

#define VERIF_SOLVER(NAME, BASE, N)                                                   \
  struct NAME : public tfel::math::BASE<N, double, NAME> {                            \
    bool solve() { return this->solveNonLinearSystem(); }                             \
    bool computeResidual() noexcept {                                                 \
      return verif_residual(&(this->fzeros[0]), nullptr, &(this->zeros[0]));          \
    }                                                                                 \
  };                                                                                  \
  bool verif_solve_##NAME() { NAME s; return s.solve(); }

VERIF_SOLVER(NR3, TinyNewtonRaphsonSolver, 3u)
VERIF_SOLVER(NR1, TinyNewtonRaphsonSolver, 1u)
VERIF_SOLVER(BR3, TinyBroydenSolver, 3u)
VERIF_SOLVER(B23, TinyBroyden2Solver, 3u)
VERIF_SOLVER(PNR3, TinyPowellDogLegNewtonRaphsonSolver, 3u)
VERIF_SOLVER(PBR3, TinyPowellDogLegBroydenSolver, 3u)
VERIF_SOLVER(LM3, TinyLevenbergMarquardtSolver, 3u)

bool verif_scalar_newton(double x0, double a, double b, int im) {
  auto fdf = [](const double x) { return std::make_tuple(verif_f(x), verif_df(x)); };
  auto c = [](const double f, const double dx, const double x, const int i) { return verif_crit(f, dx, x, i); };
  const auto r = tfel::math::scalarNewtonRaphson(fdf, c, tfel::math::ScalarNewtonRaphsonParameters<double, int>{x0, im, a, b});
  return std::get<0>(r);
}
