"""C10 — cubic polynomial solver: depression identity and the three special
branches (|p|, |q|, |delta| below the threshold) return genuine roots."""
from fractions import Fraction
from common import *
from absint import lower_driver, Unsupported, Machine, explore, ptr
from tensoralg import *
from domains import PolyDomain, DegreeDomain
import poly as P

RULE = ("Poly-domain abstract interpretation of CubicRoots::find_roots with path forking and cut points (the depressed "
        "coefficients p, q are recognised by their normal forms and replaced by symbols): (a) p, q are the coefficients of "
        "the depressed cubic; (b) on the |p|<prec, |q|<prec and |delta|<prec paths every slot announced as a real root "
        "satisfies X^3+pX+q = 0 modulo the path relation and the radical relations, the single real root is in x1 and "
        "x2 = x3 = -X1/2 - a2/(3a3) hold the real part of the conjugate pair")


def homogeneity(rep, mod):
    """(d) scale invariance of the branch decisions: under x -> lambda x, P -> mu P the coefficients scale as
    a_k ~ lambda^(3-k) mu; every comparison of find_roots must compare quantities of the same scaling degree, or a
    quantity with a zero-like constant; the slots returned must scale like lambda."""
    dom = DegreeDomain(2)
    m = Machine(mod, dom)
    bases = {}

    def make_args(mm):
        b = mm.alloc("a")
        for i in range(4):
            mm.store(ptr(b, 8 * i), dom.hom(3 - i, 1), 8)
        o = mm.alloc("x")
        bases["x"] = o
        return [ptr(b, 0), ptr(o, 0)]
    try:
        res = explore(m, "verif_find_roots", make_args, max_paths=400)
    except Unsupported as e:
        raise AnalysisBroken("find_roots (degree domain): %s" % e)
    rep.count("paths explored (degree domain)", len(res))
    seen = {}
    for ok, txt, why in dom.cmps:
        seen.setdefault((ok, txt, why), 0)
        seen[(ok, txt, why)] += 1
    for (ok, txt, why), n_ in sorted(seen.items(), key=lambda kv: str(kv[0])):
        rep.count("comparisons checked for scale invariance")
        if ok:
            rep.ok("comparison %s is scale invariant" % txt)
        else:
            rep.fail("SCALE-DEPENDENT-BRANCH@CubicRoots::find_roots#%s" % txt,
                     "CubicRoots::find_roots: %s (%s): the branch taken depends on the scale of the roots, so for inputs small or "
                     "large enough the wrong special case is selected" % (why, txt))
    for path, ret, mem, trace, assum in res:
        for i in range(3):
            c = mem[bases["x"]].get(8 * i)
            if c is None:
                continue
            v = c[0]
            if isinstance(v, tuple) and v and v[0] == "hom":
                if v[1] != (1, 0):
                    rep.fail("SCALE-DEPENDENT-RESULT@CubicRoots::find_roots#x%d" % (i + 1),
                             "a value stored in x%d scales with degree %s instead of (1,0) (like the roots)" % (i + 1, dom.show(v)))
            elif isinstance(v, tuple) and v and v[0] == "mixed":
                rep.fail("SCALE-DEPENDENT-RESULT@CubicRoots::find_roots#x%d" % (i + 1), "a value stored in x%d is not homogeneous in the scale of the roots" % (i + 1))
    if not rep.violations:
        rep.ok("every value stored in x1, x2, x3 scales like the roots on all %d paths" % len(res))


def run(tier):
    rep = Report("C10", tier, "other", RULE)
    rep.trusted += ["clang 14 code generation and -O2", "bin/ir2json, lib/absint.py, lib/poly.py"]
    P.reset_registry()
    mod = lower_driver(os.path.join(VERIF, "drivers", "c10_cubic.cxx"), os.path.join(OUT, "C10"), "c10")
    a0, a1, a2, a3 = syms("a", 4)
    p_o = (3 * a3 * a1 - a2 * a2) / (3 * a3 * a3)
    q_o = (2 * a2 * a2 * a2 - 9 * a3 * a2 * a1 + 27 * a3 * a3 * a0) / (27 * a3 * a3 * a3)
    t_o = a2 / (3 * a3)
    # (a) depression identity, decided on the oracle side once: a3 x^3 + a2 x^2 + a1 x + a0 = a3 (X^3 + p X + q), X = x + t
    x = Rat.var("x")
    X = x + t_o
    lhs = ((a3 * x + a2) * x + a1) * x + a0
    if not lhs.equals(a3 * (X * X * X + p_o * X + q_o)):
        raise AnalysisBroken("oracle depression identity is wrong")
    Pv, Qv = Rat.var("P"), Rat.var("Q")
    dom = PolyDomain()
    m = Machine(mod, dom)
    cuts = {}

    def hook(fname, ins, v):
        if isinstance(v, Rat) and not v.is_const():
            if "P" not in cuts and v.equals(p_o):
                cuts["P"] = ins["id"]
                return Pv
            if "Q" not in cuts and v.equals(q_o):
                cuts["Q"] = ins["id"]
                return Qv
        return v
    m.value_hook = hook
    bases = {}

    def make_args(mm):
        cuts.clear()
        b = mm.alloc("a")
        for i, v in enumerate((a0, a1, a2, a3)):
            mm.store(ptr(b, 8 * i), v, 8)
        o = mm.alloc("x")
        bases["x"] = o
        return [ptr(b, 0), ptr(o, 0)]
    homogeneity(rep, mod)
    rep.floor("comparisons checked for scale invariance", 3)
    try:
        res = explore(m, "verif_find_roots", make_args, max_paths=400)
    except Unsupported as e:
        raise AnalysisBroken("find_roots: %s" % e)
    rep.count("paths explored", len(res))
    if "P" not in cuts or "Q" not in cuts:
        rep.fail("DEPRESSION@CubicRoots::find_roots", "no intermediate value of find_roots equals the depressed coefficients "
                 "p = (3 a3 a1 - a2^2)/(3 a3^2), q = (2 a2^3 - 9 a3 a2 a1 + 27 a3^2 a0)/(27 a3^3): the reduction to X^3+pX+q is wrong")
        return rep
    rep.ok("find_roots computes the depressed coefficients p and q (cut points %s, %s); a3 x^3+a2 x^2+a1 x+a0 = a3 (X^3+pX+q), X = x + a2/(3 a3)"
           % (cuts["P"], cuts["Q"]))
    delta_o = -4 * Pv * Pv * Pv - 27 * Qv * Qv
    seen = {"p": 0, "q": 0, "delta": 0}
    for path, ret, mem, trace, assum in res:
        atoms = [(i, d) for i, d in path if isinstance(i, tuple) and len(i) == 3 and isinstance(i[1], Rat)]
        small = {}
        for (pred, lhs_, rhs_), d in atoms:
            if not (isinstance(rhs_, Rat) and rhs_.is_const() and not rhs_.is_zero()):
                continue
            lt = d if pred in ("olt", "ole", "ult", "ule") else (not d if pred in ("ogt", "oge", "ugt", "uge") else None)
            refs = [("p", Pv), ("q", Qv), ("delta", delta_o)]
            for key_, (val_, nm_, arg_) in dom.atoms.items():
                if key_[0] == "cbrt" and arg_.equals(Qv):
                    refs.append(("cbrt_q", val_))
            for nm, ref in refs:
                if lhs_.equals(ref) or lhs_.equals(-ref):
                    if nm == "p" and pred in ("ogt", "oge", "ugt", "uge"):
                        small.setdefault("p_not_large", not d)
                    else:
                        small.setdefault(nm, lt)
        branch = None
        if small.get("p") is True:
            branch = "p"
        elif small.get("q") is True:
            branch = "q"
        elif small.get("delta") is True:
            branch = "delta"
        if branch is None or not isinstance(ret, int) or ret == 0:
            continue
        xs = []
        for i in range(3):
            c = mem[bases["x"]].get(8 * i)
            xs.append(c[0] if c else None)
        if any(not isinstance(v, Rat) for v in xs):
            rep.fail("UNWRITTEN-ROOT@find_roots#%s" % branch, "a root slot is not written on the |%s|<prec path" % branch)
            continue
        seen[branch] += 1
        # impose the path relation
        saved = dict(P._rel)
        try:
            if branch == "p":
                P._rel[P.var_id("P")] = (1, P.Poly())
                if small.get("cbrt_q") is True:
                    # |cbrt(q)| below the threshold: q (its cube) vanishes as well
                    P._rel[P.var_id("Q")] = (1, P.Poly())
                    for key_, (val_, nm_, arg_) in dom.atoms.items():
                        if key_[0] == "cbrt" and arg_.equals(Qv):
                            P._rel[P.var_id(nm_)] = (1, P.Poly())
            elif branch == "q":
                P._rel[P.var_id("Q")] = (1, P.Poly())
            elif small.get("p_not_large") is True:
                # 4p^3+27q^2 -> 0 together with p -> 0 forces q -> 0 (radical of the ideal)
                P._rel[P.var_id("P")] = (1, P.Poly())
                P._rel[P.var_id("Q")] = (1, P.Poly())
            else:
                P._rel[P.var_id("Q")] = (2, (Pv * Pv * Pv * Fraction(-4, 27)).n)

            def zero_mod(r):
                # re-normalise numerator under the relations
                n = P._reduce(r.n * P.Poly.const(1))
                return n.is_zero()
            Xs = [v + t_o for v in xs]
            announced = [0, 1, 2] if ret == 3 else [0]
            ok = True
            why = ""
            for k in announced:
                R = Xs[k] * Xs[k] * Xs[k] + Pv * Xs[k] + Qv
                if not zero_mod(R):
                    ok = False
                    why = "x%d = %r is announced as a real root but X^3+pX+q = %r (mod the relations of this path) is not zero" % (
                        k + 1, xs[k], Rat(P._reduce(R.n * P.Poly.const(1)), R.d))
                    break
            if ok and ret == 1:
                for k in (1, 2):
                    if not zero_mod(Xs[k] + Xs[0] * Fraction(1, 2)):
                        ok = False
                        why = "x%d = %r is not the real part -X1/2 - a2/(3a3) of the conjugate pair (X1 = %r)" % (k + 1, xs[k], Xs[0])
                        break
            desc = "|%s|<prec path returning %d root(s): %s" % (branch, ret, [repr(v)[:40] for v in xs])
            sub = ",".join("%s%s" % (i[0], "+" if d else "-") for i, d in atoms if i[2].is_zero())
            if ok:
                rep.ok(desc, sample=(seen[branch] == 1))
            else:
                rep.fail("ROOT@CubicRoots::find_roots#|%s|<prec,count=%d" % (branch, ret), desc + ": " + why)
        finally:
            P._rel.clear()
            P._rel.update(saved)
    for b, n in seen.items():
        rep.count("paths of the |%s|<prec branch" % b, n)
        if n == 0:
            raise AnalysisBroken("no path of the |%s| < prec branch was recognised" % b)
    rep.floor("paths explored", 20)
    rep.assumptions += ["exact real arithmetic on each path; the threshold comparisons themselves are path atoms (no feasibility check)",
                        "not decided: the generic Cardano and trigonometric branches, the separation thresholds, the Newton refinement "
                        "(improve), residual size versus multiplicity"]
    return rep
