#!/bin/bash
# both runs share one private /dev/shm (tools/safe.sh): the semaphore left by the first run is seen by the second, and by nobody else
cd /tmp/replay/c35u; rm -rf src include; mkdir -p src/targets.lst.tmp
/repo/_build/mfront/src/mfront --interface=c A.mfront; echo "first run: exit status $?"
rmdir src/targets.lst.tmp
timeout -s KILL 20 /repo/_build/mfront/src/mfront --interface=c A.mfront; rc=$?
if [ $rc -eq 137 ]; then echo "second run: killed after 20 s (blocked on the semaphore the first run left taken)"; exit 1; fi
echo "second run: exit status $rc"; exit 0
