"""C07 — dense linear solvers: closed-form tiny solvers return true solutions
or report failure (exact identities + failure guard on the IR)."""
from common import *
from absint import lower_driver, Unsupported
from tensoralg import *
import os
import poly as P

RULE = ("Poly-domain abstract interpretation with path forking of TinyMatrixSolve<1|2|3>::exe (vector and matrix right-hand "
        "sides): on every path returning true, M.x = b as a rational identity; the quantity whose absolute value is "
        "compared with eps IS det M, and the path on which |det M| < eps returns false leaving b untouched")


def detn(M):
    n = len(M)
    if n == 1:
        return M[0][0]
    if n == 2:
        return M[0][0] * M[1][1] - M[0][1] * M[1][0]
    return det3(M)


GUARD_EXCEPTIONS = {
    "tfel::math::LUSolve::back_substitute": "divides by m(pi, i) without a local test: its in-tree caller LUSolve::exe runs LUDecomp<true>::exe first, "
                                            "which raises LUNullPivot on every pivot below eps (re-checked: that call precedes it and its result cannot be ignored "
                                            "because failure is an exception)",
}


def guard_rule(rep):
    """R2 (generic LU kernels, N >= 4 and run-time sized): every division by a matrix element in LUDecomp::exe and in the
    back_substitute kernels is dominated, on every path, by a comparison of the absolute value of that same element with
    eps whose 'small' side raises or returns failure.  Element expressions are compared up to the row permutation
    (m(p(i), i), m(pi, i) with pi = p(i) and m(i, i) denote the pivot of step i)."""
    from cfg import load_functions, forward, branch
    import re as _re
    drv = os.path.join(VERIF, "drivers", "c07_kernels.cxx")
    d = cfgdump([drv], os.path.join(OUT, "C07", "kernels"), funcs=r"^tfel::math::(TinyMatrixSolveBase<|LUDecomp<|LUSolve::|TinyMatrixInvert<)",
                flags_for=lambda u: (header_flags(), VERIF))
    funcs = [f for f in load_functions(d) if f.parent is None and f.entry is not None]
    kernels = [f for f in funcs if f.qname.endswith("::back_substitute") or _re.search(r"LUDecomp<.*>::exe$", f.qname)]
    if len(kernels) < 5:
        raise AnalysisBroken("generic LU kernels: only %d instantiations found" % len(kernels))

    def canon(f, sid):
        t = f.text(sid)
        # substitute locals initialised with a permutation lookup, then drop the permutation
        for n in f.stmts.values():
            if n["k"] == "DeclStmt":
                for dd in n["decls"]:
                    if "init" in dd and dd.get("name"):
                        it = f.text(dd["init"])
                        if _re.match(r"^p\([^()]*\)$", it):
                            t = _re.sub(r"\b%s\b" % _re.escape(dd["name"]), it, t)
        t = _re.sub(r"\bp\(([^()]*)\)", r"\1", t)
        return _re.sub(r"\s+", "", t)

    def is_element(f, sid):
        s_ = f.strip(sid)
        n = f.stmts.get(s_)
        return n is not None and n["k"] == "CXXOperatorCallExpr" and n.get("op") == "()" and len(n.get("args", [])) == 3

    for f in kernels:
        def atom(f_, s):
            bo = f_.binop(s)
            if bo is None:
                return None
            op, l, r = bo
            if op not in ("<", ">", "<=", ">="):
                return None
            ln = f_.stmts.get(f_.strip(l))
            if ln is None or ln["k"] != "CallExpr" or not (ln.get("callee") or "").endswith("abs") or not ln.get("args"):
                return None
            if not is_element(f_, ln["args"][0]):
                return None
            if "eps" not in f_.text(r):
                return None
            return (("small", canon(f_, ln["args"][0])), op in (">", ">="))
        bad = []
        ndiv = [0]

        def el(st, b, i, e):
            if "s" not in e:
                return (st,)
            s = e["s"]
            n = f.stmts[s]
            facts = dict(st)
            if n["k"] in ("UnaryOperator",) and n.get("op") in ("++", "--") or \
                    (n["k"] in ("BinaryOperator", "CompoundAssignOperator") and n.get("op") in ("=", "+=", "-=") and
                     f.stmts.get(f.strip(f.kids(s)[0]), {}).get("k") == "DeclRefExpr"):
                v = f.text(f.kids(s)[0])
                facts = dict((k, val) for k, val in facts.items() if not _re.search(r"\b%s\b" % _re.escape(v), k[1]))
                return (tuple(sorted(facts.items())),)
            div = None
            if n["k"] == "BinaryOperator" and n.get("op") == "/":
                div = f.kids(s)[1]
            elif n["k"] == "CompoundAssignOperator" and n.get("op") == "/=":
                div = f.kids(s)[1]
            if div is not None and is_element(f, div):
                ndiv[0] += 1
                k = ("small", canon(f, div))
                if facts.get(k) is not False:
                    bad.append((s, k[1]))
            return (st,)

        def ed(st, b, succ, pol):
            fx = branch(f, b, pol, dict(st), atom)
            if fx is None:
                return ()
            return (tuple(sorted(fx.items())),)
        forward(f, ((),), el, ed)
        rep.count("divisions by a matrix element in the generic LU kernels", 1 if ndiv[0] else 0)
        name = _re.sub(r"^tfel::math::", "", f.display if hasattr(f, "display") else f.qname)[:110]
        if not ndiv[0]:
            continue
        if bad:
            s, k = bad[0]
            if f.qname in GUARD_EXCEPTIONS:
                rep.ok("%s: unguarded division by %s accepted: %s" % (name, k, GUARD_EXCEPTIONS[f.qname]))
                continue
            rep.fail("UNGUARDED-PIVOT@%s" % _re.sub(r"<.*", "", f.qname.replace("tfel::math::", "")) + ("#matrix" if "tmatrix<" in " ".join(p_["type"] for p_ in f.params[2:3]) else ""),
                     "%s: %s divides by %s on a path where |%s| was not compared with eps (failure side raising / returning false): an exactly "
                     "null pivot gives inf/NaN silently" % (f.short_loc(s).replace(REPO + "/", ""), name, k, k))
        else:
            rep.ok("%s: every division by a pivot is dominated by its comparison with eps" % name)
    # the exception's premise: LUSolve::exe calls LUDecomp<true>::exe before back_substitute
    ex = [f for f in funcs if f.qname == "tfel::math::LUSolve::exe" and len(f.params) == 4]
    if not ex:
        raise AnalysisBroken("LUSolve::exe(m, b, x, p) not instantiated")
    order = [n.get("callee") or "" for s_, n in sorted(ex[0].stmts.items()) if n["k"] == "CallExpr"]
    pos = dict((c, i) for i, c in reversed(list(enumerate(order))))
    dcp = [c for c in order if _re.match(r"tfel::math::LUDecomp<true.*>::exe", c)]
    if not dcp or "tfel::math::LUSolve::back_substitute" not in pos or pos[dcp[0]] > pos["tfel::math::LUSolve::back_substitute"]:
        rep.fail("UNGUARDED-PIVOT@LUSolve::exe", "LUSolve::exe no longer runs LUDecomp<true>::exe before back_substitute: the unguarded division of "
                 "LUSolve::back_substitute is reachable with a null pivot")
    else:
        rep.ok("LUSolve::exe runs LUDecomp<true>::exe (raises on a null pivot) before LUSolve::back_substitute")
    rep.floor("divisions by a matrix element in the generic LU kernels", 5)


def run(tier):
    rep = Report("C07", tier, "other", RULE)
    guard_rule(rep)
    rep.trusted += ["clang 14 code generation and -O2", "bin/ir2json, lib/absint.py, lib/poly.py"]
    for opt in ["-O2"] + (["-O1"] if tier == "thorough" else []):
        P.reset_registry()
        mod = lower_driver(os.path.join(VERIF, "drivers", "c07_solve.cxx"), os.path.join(OUT, "C07"), "c07" + opt, opt=opt)
        eps = Rat.var("eps")
        for N in (1, 2, 3):
            for kind, ncol in (("solve", 1), ("solvem", 2)):
                fname = "verif_%s_%d" % (kind, N)
                name = "TinyMatrixSolve<%d>::exe(%s rhs)" % (N, "vector" if ncol == 1 else "matrix")
                m = syms("m", N * N)
                b = syms("b", N * ncol)
                M = [m[i * N:(i + 1) * N] for i in range(N)]
                B = [b[i * ncol:(i + 1) * ncol] for i in range(N)]
                try:
                    res = run_shim(mod, fname, [m, b, [eps]], [N * ncol], max_paths=32)
                except Unsupported as e:
                    raise AnalysisBroken("%s: %s" % (fname, e))
                rep.count("solver instantiations interpreted (%s)" % opt)
                dM = detn(M)
                seen = set()
                for path, outs, trace, assum, ret, dom in res:
                    rep.count("paths explored")
                    x = outs[0]
                    # the comparison against eps on this path
                    cmps = [(i, d) for i, d in path if isinstance(i, tuple) and len(i) == 3 and isinstance(i[2], Rat) and i[2].equals(eps)]
                    if len(cmps) != 1:
                        rep.fail("GUARD@%s" % name, "%s: %d comparisons against eps on a path (expected 1)" % (name, len(cmps)))
                        continue
                    (pred, lhs, _), taken = cmps[0]
                    isdet = lhs.equals(dM) or lhs.equals(-dM)
                    if not isdet:
                        rep.fail("GUARD-QUANTITY@%s" % name,
                                 "%s: the quantity compared with eps is  %r  which is not +/- det M = %r: an exactly singular "
                                 "matrix may pass the guard" % (name, lhs, dM))
                        continue
                    small = taken if pred in ("olt", "ole", "ult", "ule") else (not taken)
                    seen.add((ret, small))
                    if small:
                        if ret == 0 and eq_list(x, b):
                            rep.ok("%s: |det M| < eps -> returns false, right-hand side untouched (%s)" % (name, opt), sample=(N == 3))
                        else:
                            rep.fail("SINGULAR-ACCEPTED@%s" % name, "%s: on the path |det M| < eps the solver returns %s and b = %s"
                                     % (name, ret, x))
                    else:
                        X = [x[i * ncol:(i + 1) * ncol] for i in range(N)]
                        lhsM = matmul(M, X)
                        want = B
                        d = first_diff([v for r in lhsM for v in r], [v for r in want for v in r])
                        if ret == 1 and d is None:
                            rep.ok("%s: returns true with M.x = b (%d equations, %s)" % (name, N * ncol, opt), sample=(N == 3))
                        else:
                            rep.fail("SOLUTION@%s" % name, "%s: returns %s but (M.x - b) component %s is %s instead of %s"
                                     % (name, ret, d and d[0], d and repr(d[1])[:200], d and repr(d[2])[:80]))
                if (1, False) not in seen or (0, True) not in seen:
                    rep.fail("OUTCOMES@%s" % name, "%s: outcomes seen %s; both 'true with a solution' and 'false on a small "
                             "determinant' must exist" % (name, sorted(seen)))
    rep.floor("solver instantiations interpreted (-O2)", 6)
    rep.floor("paths explored", 18)
    rep.assumptions += ["exact real arithmetic: residual size versus conditioning and the quality of the threshold are not decided",
                        "generic LU path (N >= 4, LUSolve): only the pivot-guard rule is decided (no solution identity); QR is not covered"]
    return rep
