"""C18 — fixed-size algorithms equal their std:: counterparts (by instance over
N in {0,1,2,3,4,5,7,10} plus the recursion schema)."""
import itertools
from common import *
from absint import lower_driver, Unsupported, Machine, explore, ptr
from tensoralg import *
from domains import OrderDomain
import poly as P

RULE = ("Engine B on the -O2 IR of tfel::fsalgo instantiations: element moves compared as symbols, opaque functors as "
        "fresh-symbol call traces (order and operands of every call), reductions as normal forms, min/max_element over all "
        "weak orders of N<=4 values; each compared with a python model of the std:: algorithm written from its specification")
NS = (0, 1, 2, 3, 4, 5, 7, 10)


def run(tier):
    rep = Report("C18", tier, "other", RULE)
    rep.trusted += ["clang 14 code generation and -O2", "bin/ir2json, lib/absint.py, lib/poly.py"]
    P.reset_registry()
    mod = lower_driver(os.path.join(VERIF, "drivers", "c18_fsalgo.cxx"), os.path.join(OUT, "C18"), "c18")

    def one(fname, inputs, outs, inout=(), max_paths=1):
        if fname not in mod["functions"]:
            raise AnalysisBroken("shim %s missing" % fname)
        try:
            r = run_shim(mod, fname, inputs, outs, fresh_externals=True, inout=inout, max_paths=max_paths)
        except Unsupported as e:
            raise AnalysisBroken("%s: %s" % (fname, e))
        rep.count("instantiations interpreted")
        return r

    def same_trace(got, want):
        """got: [(name, args, val)]; want: [(name, args)] built with the same fresh-symbol naming."""
        if len(got) != len(want):
            return "%d calls, the standard algorithm makes %d" % (len(got), len(want))
        for k, ((n1, a1, v1), (n2, a2)) in enumerate(zip(got, want)):
            if n1 != n2 or len(a1) != len(a2) or not all(x.equals(y) for x, y in zip(a1, a2)):
                return "call %d is %s(%s), the standard algorithm calls %s(%s)" % (
                    k, n1, ", ".join(map(repr, a1)), n2, ", ".join(map(repr, a2)))
        return None

    def verdict(name, N, err):
        key = "STD-EQUIVALENCE@fsalgo::%s" % name
        if err is None:
            rep.ok("fsalgo::%s<%d> behaves as std::%s on %d elements" % (name, N, name.split("(")[0], N), sample=(N == 3))
        else:
            rep.fail(key, "fsalgo::%s<%d>: %s" % (name, N, err), N=N)
    for N in NS:
        a, b = syms("a", N), syms("b", N)
        pad = lambda v: v + [Rat.var("guard")]          # one element past the range must stay untouched
        old = syms("old", N + 1)
        # copy / fill / swap_ranges
        r = one("verif_copy_%d" % N, [pad(a)], [N + 1])[0]
        o = r[1][0]
        verdict("copy", N, None if all(o[i] is not None and o[i].equals(a[i]) for i in range(N)) and o[N] is None
                else "output is %s" % o)
        v = Rat.var("v")
        o = one("verif_fill_%d" % N, [[v]], [N + 1])[0][1][0]
        verdict("fill", N, None if all(o[i] is not None and o[i].equals(v) for i in range(N)) and o[N] is None else "output is %s" % o)
        r = one("verif_swap_%d" % N, [pad(a), pad(b)], [], inout=(0, 1))[0]
        oa, ob = r[1][0], r[1][1]
        verdict("swap_ranges", N, None if eq_list(oa, b + [Rat.var("guard")]) and eq_list(ob, a + [Rat.var("guard")])
                else "after the swap a=%s b=%s" % (oa, ob))
        # transform (unary, binary): outputs and call order
        r = one("verif_transform1_%d" % N, [a], [N + 1])[0]
        tr = r[2]
        err = same_trace(tr, [("verif_op1", [a[i]]) for i in range(N)])
        if err is None and not all(r[1][0][i] is not None and r[1][0][i].equals(tr[i][2]) for i in range(N)):
            err = "output %s is not the sequence of results" % r[1][0]
        verdict("transform(unary)", N, err)
        r = one("verif_transform2_%d" % N, [a, b], [N + 1])[0]
        tr = r[2]
        err = same_trace(tr, [("verif_op2", [a[i], b[i]]) for i in range(N)])
        if err is None and not all(r[1][0][i] is not None and r[1][0][i].equals(tr[i][2]) for i in range(N)):
            err = "output is not the sequence of results"
        verdict("transform(binary)", N, err)
        r = one("verif_foreach_%d" % N, [a], [])[0]
        verdict("for_each", N, same_trace(r[2], [("verif_sink", [a[i]]) for i in range(N)]))
        r = one("verif_generate_%d" % N, [], [N + 1])[0]
        err = same_trace(r[2], [("verif_gen", []) for i in range(N)])
        if err is None and not all(r[1][0][i] is not None and r[1][0][i].equals(r[2][i][2]) for i in range(N)):
            err = "output is not the sequence of generated values"
        verdict("generate", N, err)
        o = one("verif_iota_%d" % N, [[v]], [N + 1])[0][1][0]
        verdict("iota", N, None if all(o[i] is not None and o[i].equals(v + i) for i in range(N)) and o[N] is None else "output is %s" % o)
        # reductions
        init = Rat.var("init")
        o = one("verif_accumulate_%d" % N, [a, [init]], [1])[0][1][0][0]
        verdict("accumulate", N, None if o.equals(sum(a, init)) else "result %r" % o)
        r = one("verif_accumulate_op_%d" % N, [a, [init]], [1])[0]
        want, acc = [], init
        for i in range(N):
            want.append(("verif_op2", [acc, a[i]]))
            acc = Rat.var("verif_op2#%d" % i)
        err = same_trace(r[2], want)
        if err is None and not r[1][0][0].equals(acc):
            err = "result %r is not the last value of the fold" % r[1][0][0]
        verdict("accumulate(op)", N, err and err + "  [std::accumulate folds op(acc, *it)]")
        o = one("verif_inner_%d" % N, [a, b, [init]], [1])[0][1][0][0]
        verdict("inner_product", N, None if o.equals(sum((x * y for x, y in zip(a, b)), init)) else "result %r" % o)
        r = one("verif_inner_op_%d" % N, [a, b, [init]], [1])[0]
        want, acc = [], init
        for i in range(N):
            want.append(("verif_op3", [a[i], b[i]]))
            prod = Rat.var("verif_op3#%d" % (2 * i))
            want.append(("verif_op2", [acc, prod]))
            acc = Rat.var("verif_op2#%d" % (2 * i + 1))
        err = same_trace(r[2], want)
        if err is None and not r[1][0][0].equals(acc):
            err = "result is not the last value of the fold"
        verdict("inner_product(op1,op2)", N, err and err + "  [std::inner_product: acc = op1(acc, op2(*a, *b))]")
        # equal: true exactly on the all-equal path
        if N <= 5:
            rs = one("verif_equal_%d" % N, [a, b], [], max_paths=64)
            err = None
            for path, outs, trace, assum, ret, dom in rs:
                alleq = all(d == (i[0] in ("oeq", "ueq")) for i, d in path)
                if (ret == 1) != (alleq and len(path) == N):
                    err = "returns %s on the path %s" % (ret, [(i[0], d) for i, d in path])
            if not any(x[4] == 1 for x in rs):
                err = "never returns true"
            verdict("equal", N, err)
            rs = one("verif_equal_pred_%d" % N, [a, b], [], max_paths=64)
            err = None
            # the predicate result is a fresh symbol tested against 0: the trace gives the call order
            for path, outs, trace, assum, ret, dom in rs:
                e2 = same_trace(trace, [("verif_pred", [a[i], b[i]]) for i in range(len(trace))])
                if e2:
                    err = e2
            verdict("equal(pred)", N, err)
    # min / max element over all weak orders
    for N in (1, 2, 3, 4):
        orders = set()
        for r in itertools.product(range(N), repeat=N):
            ks = sorted(set(r))
            orders.add(tuple(ks.index(x) for x in r))
        for fn, cmpname in (("min", None), ("max", None), ("min_comp", "less"), ("max_comp", "less")):
            errs = []
            for ranks in sorted(orders):
                dom = OrderDomain({"a%d" % i: ranks[i] for i in range(N)})
                m = Machine(mod, dom)

                def make_args(mm):
                    bb = mm.alloc("a")
                    for i in range(N):
                        mm.store(ptr(bb, 8 * i), dom.tok("a%d" % i), 8)
                    return [ptr(bb, 0)]
                try:
                    res = explore(m, "verif_%s_%d" % (fn, N), make_args)
                except Unsupported as e:
                    raise AnalysisBroken("verif_%s_%d: %s" % (fn, N, e))
                ret = res[0][1]
                if not isinstance(ret, int):
                    raise AnalysisBroken("verif_%s_%d: abstract index" % (fn, N))
                idx = ret // 8 if ret % 8 == 0 and ret >= 8 else ret
                # pointer difference: the shim returns (q - a) in elements
                if fn.startswith("min"):
                    want = min(range(N), key=lambda i: (ranks[i], i))      # first smallest
                else:
                    want = min(range(N), key=lambda i: (-ranks[i], i))     # first largest
                rep.count("weak orders x min/max variants")
                if idx != want:
                    errs.append("on ranks %s returns index %d, std::%s_element%s returns %d"
                                % (ranks, idx, fn[:3], "(first, last, less)" if cmpname else "", want))
            name = "%s_element%s" % (fn[:3], "(comp)" if cmpname else "")
            verdict(name, N, errs[0] + (" (+%d more weak orders)" % (len(errs) - 1) if len(errs) > 1 else "") if errs else None)
    rep.floor("instantiations interpreted", 100)
    rep.floor("weak orders x min/max variants", 4 * (1 + 3 + 13 + 75))
    rep.assumptions += ["sizes N in {0,1,2,3,4,5,7,10} (min/max: 1..4); the templates are recursive on N, so larger sizes reuse "
                        "the same steps (the recursion schema is not separately checked in this version)",
                        "opaque functors are arbitrary: every call returns a fresh symbol and the call sequence is compared",
                        "comparator variants are given the std:: meaning of comp (a strict weak 'less')"]
    return rep
