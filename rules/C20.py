"""C20 — physical quantities: dimension checking sound and transparent (type level).

The unit set U (named units of TFEL/Math/Forward/Unit.hxx with their exponent
vectors) is read from the AST on every run.  One witness translation unit is
generated and parsed with 'clang++ -fsyntax-only' (nothing is executed, no
value is computed): every obligation is a static_assert over requires-
expressions (in variable templates, so that ill-formed operations yield false
instead of a hard error) and std::is_same_v; the exponent arithmetic of the
expected result is done independently in python.

 (a) for every ordered pair (u, v): a+b, a-b, a<b, a<=b, a>b, a>=b, a==b, a!=b,
     a=b, a+=b, a-=b and qt<u>(b) are well-formed iff u and v are the same
     dimension; when well-formed the result of a+b / a-b is qt<u>;
 (b) decltype(a*b), decltype(a/b), decltype(power<N>(a)), decltype(power<N,D>(a))
     and decltype(1/a) are qt of the canonical unit whose exponent vector is
     the sum / difference / multiple computed here; UnitRebind maps the
     exponents of every named unit back to that named unit; scalar*quantity
     keeps the unit; only NoUnit converts implicitly to its value type;
     the same for units with rational exponents of different denominators
     (mass^x.length^-1/2 against mass^y.length^1/3 over a grid of fractions);
 (c) transparency (Engine B): the IR of +, -, *, /, unary - on qt<u,double> is
     the corresponding single floating operation on the payloads.
"""
import os, re, subprocess, itertools
from fractions import Fraction
from common import *

RULE = ("type-level witness TU over all ordered pairs of named units (well-formedness iff same dimension, result unit by "
        "independent exponent arithmetic) + IR normal forms of the quantity operators")
BASE = ("Mass", "Length", "Time", "Ampere", "Temperature", "Candela", "Mole")


def units():
    hdr = os.path.join(VERIF, "drivers", "c20_units.cxx")
    d = cfgdump([hdr], os.path.join(OUT, "C20", "dump"), records=r"^tfel::math::unit::[A-Z][A-Za-z]*$",
                flags_for=lambda u: (header_flags(), VERIF))
    res = {}
    for r in d[hdr]["records"]:
        nm = r["qname"].rsplit("::", 1)[-1]
        for b in r["bases"]:
            m = re.search(r"StandardUnit<([-0-9, ]*)>", b)
            if m is not None:
                ex = [int(x) for x in m.group(1).split(",") if x.strip()] if m.group(1).strip() else []
                ex = ex + [0] * (7 - len(ex))
                res[nm] = tuple(ex)
    return res


def expo(t):
    return ", ".join(str(x) for x in t)


def run(tier):
    rep = Report("C20", tier, "proof", RULE)
    U = units()
    if len(U) < 20 or any(b not in U for b in BASE) or "NoUnit" not in U:
        raise AnalysisBroken("unit set not recognised: %s" % sorted(U))
    rep.count("named units", len(U))
    names = sorted(U)
    if tier != "thorough":
        # quick tier: base units, NoUnit and the mechanical derived units (all pairs); thorough: every named unit
        keep = set(BASE) | {"NoUnit", "Stress", "Force", "Energy", "Speed", "Frequency", "InvLength", "Density", "StressRate"}
        names = [n for n in names if n in keep]
    L = ['#include <type_traits>', '#include "TFEL/Math/qt.hxx"', "using namespace tfel::math;", "namespace u = tfel::math::unit;",
         "template <class A, class B> constexpr bool can_add = requires(A a, B b) { a + b; };",
         "template <class A, class B> constexpr bool can_sub = requires(A a, B b) { a - b; };",
         "template <class A, class B> constexpr bool can_lt = requires(A a, B b) { a < b; };",
         "template <class A, class B> constexpr bool can_le = requires(A a, B b) { a <= b; };",
         "template <class A, class B> constexpr bool can_gt = requires(A a, B b) { a > b; };",
         "template <class A, class B> constexpr bool can_ge = requires(A a, B b) { a >= b; };",
         "template <class A, class B> constexpr bool can_eq = requires(A a, B b) { a == b; };",
         "template <class A, class B> constexpr bool can_ne = requires(A a, B b) { a != b; };",
         "template <class A, class B> constexpr bool can_assign = requires(A a, B b) { a = b; };",
         "template <class A, class B> constexpr bool can_pluseq = requires(A a, B b) { a += b; };",
         "template <class A, class B> constexpr bool can_minuseq = requires(A a, B b) { a -= b; };",
         "template <class A, class B> constexpr bool can_construct = requires(B b) { A(b); };",
         "template <int... N> using canon = typename u::UnitRebind<u::makeUnitExponents<N...>()>::type;"]
    obl = []

    def add(expr, what):
        obl.append((expr, what))
        L.append('static_assert(%s, "W%d");' % (expr, len(obl) - 1))
    ops = ("add", "sub", "lt", "le", "gt", "ge", "eq", "ne", "assign", "pluseq", "minuseq", "construct")
    for a in names:
        for b in names:
            same = U[a] == U[b]
            A, Bq = "qt<u::%s, double>" % a, "qt<u::%s, double>" % b
            for op in ops:
                if op == "construct" and b == "NoUnit" and not same:
                    continue    # a dimensionless quantity converts to its value, from which any quantity can be built explicitly
                add("%scan_%s<%s, %s>" % ("" if same else "!", op, A, Bq),
                    "%s %s %s is %s" % (a, op, b, "well-formed" if same else "rejected"))
            if same:
                add("std::is_same_v<decltype(%s{} + %s{}), %s>" % (A, Bq, A), "%s + %s has unit %s" % (a, b, a))
            e = tuple(x + y for x, y in zip(U[a], U[b]))
            add("std::is_same_v<decltype(%s{} * %s{}), qt<canon<%s>, double>>" % (A, Bq, expo(e)), "%s * %s has exponents %s" % (a, b, e))
            e = tuple(x - y for x, y in zip(U[a], U[b]))
            add("std::is_same_v<decltype(%s{} / %s{}), qt<canon<%s>, double>>" % (A, Bq, expo(e)), "%s / %s has exponents %s" % (a, b, e))
    for a in sorted(U):
        A = "qt<u::%s, double>" % a
        add("std::is_same_v<canon<%s>, u::%s>" % (expo(U[a]), a), "UnitRebind maps the exponents of %s back to %s" % (a, a))
        e2 = tuple(2 * x for x in U[a])
        add("std::is_same_v<decltype(power<2>(%s{})), qt<canon<%s>, double>>" % (A, expo(e2)), "power<2>(%s)" % a)
        e3 = tuple(-1 * x for x in U[a])
        add("std::is_same_v<decltype(1. / %s{}), qt<canon<%s>, double>>" % (A, expo(e3)), "1/%s" % a)
        add("std::is_same_v<decltype(2. * %s{}), %s>" % (A, A), "scalar * %s keeps the unit" % a)
        add("std::is_same_v<decltype(%s{} * 2.), %s>" % (A, A), "%s * scalar keeps the unit" % a)
        add("std::is_same_v<decltype(-%s{}), %s>" % (A, A), "-%s keeps the unit" % a)
        if all(x % 2 == 0 for x in U[a]) and a != "NoUnit":
            e4 = tuple(x // 2 for x in U[a])
            add("std::is_same_v<decltype(power<1, 2>(%s{})), qt<canon<%s>, double>>" % (A, expo(e4)), "power<1,2>(%s)" % a)
        conv = (a == "NoUnit")
        add("%sstd::is_convertible_v<%s, double>" % ("" if conv else "!", A),
            "%s %s implicitly to double" % (a, "converts" if conv else "does not convert"))
    # rational exponents: products, quotients and powers of units whose exponents have different denominators
    L.append("template <int N1, int N2, unsigned int D1, unsigned int D2> using rcanon = typename u::UnitRebind<u::makeUnitExponents<N1, N2, 0, 0, 0, 0, 0, D1, D2, 1, 1, 1, 1, 1>()>::type;")
    fr = [Fraction(1, 2), Fraction(1, 3), Fraction(2, 3), Fraction(3, 2), Fraction(-1, 2), Fraction(1, 4), Fraction(5, 6), Fraction(1), Fraction(-2), Fraction(0)]

    def rq(x, y):
        return "qt<rcanon<%d, %d, %d, %d>, double>" % (x.numerator, y.numerator, x.denominator, y.denominator)
    npairs = 0
    for x in fr:
        for y in fr:
            if tier != "thorough" and (x.denominator == 1 and y.denominator == 1):
                continue
            A = rq(x, Fraction(-1, 2))          # mass^x . length^(-1/2)
            Bq = rq(y, Fraction(1, 3))          # mass^y . length^(1/3)
            npairs += 1
            add("std::is_same_v<decltype(%s{} * %s{}), %s>" % (A, Bq, rq(x + y, Fraction(-1, 2) + Fraction(1, 3))),
                "mass^%s.length^-1/2 * mass^%s.length^1/3 has exponents (%s, -1/6)" % (x, y, x + y))
            add("std::is_same_v<decltype(%s{} / %s{}), %s>" % (A, Bq, rq(x - y, Fraction(-1, 2) - Fraction(1, 3))),
                "mass^%s.length^-1/2 / mass^%s.length^1/3 has exponents (%s, -5/6)" % (x, y, x - y))
            A2, B2 = rq(x, Fraction(0)), rq(y, Fraction(0))
            add("%scan_add<%s, %s>" % ("" if x == y else "!", A2, B2), "mass^%s + mass^%s is %s" % (x, y, "well-formed" if x == y else "rejected"))
    for x in fr:
        A = rq(x, Fraction(1, 3))
        for (n_, d_) in ((1, 2), (2, 3), (3, 1), (-1, 2)):
            k = Fraction(n_, d_)
            if n_ < 0:
                continue
            add("std::is_same_v<decltype(power<%d, %d>(%s{})), %s>" % (n_, d_, A, rq(x * k, Fraction(1, 3) * k)),
                "power<%d,%d>(mass^%s.length^1/3)" % (n_, d_, x))
    rep.count("pairs of rational exponents", npairs)
    L.append('static_assert(can_add<qt<u::Mass, double>, qt<u::Length, double>>, "CONTROL");')
    wd = os.path.join(OUT, "C20")
    os.makedirs(wd, exist_ok=True)
    wp = os.path.join(wd, "witness.cxx")
    open(wp, "w").write("\n".join(L) + "\n")
    p = subprocess.run(["clang++", "-fsyntax-only", "-ferror-limit=0"] + header_flags() + [wp], capture_output=True, text=True)
    if '"CONTROL"' not in p.stderr:
        raise AnalysisBroken("witness TU: the deliberately false assertion was not reported: %s" % p.stderr[-600:])
    other = [l for l in p.stderr.splitlines() if " error: " in l and "static_assert failed" not in l]
    if other:
        raise AnalysisBroken("witness TU does not parse (%d errors): %s" % (len(other), other[0][:400]))
    failed = set(int(m) for m in re.findall(r'static_assert failed[^\n]*"W(\d+)"', p.stderr))
    for i, (expr, what) in enumerate(obl):
        rep.count("type-level witnesses")
        if i in failed:
            k = re.sub(r"[^A-Za-z0-9_<>+*/!-]+", "", what)[:70]
            rep.fail("WITNESS@%s" % what, "type-level obligation does not hold: %s   [%s]" % (what, expr))
        else:
            rep.ok(what, sample=(i % 997 == 0))
    rep.floor("type-level witnesses", 1500)
    rep.floor("pairs of rational exponents", 60)
    transparency(rep)
    rep.assumptions += ["value types float/long double and references (qt_ref) are not enumerated; compound expressions are covered by "
                        "compositionality of typing", "quick tier: 16 units (all ordered pairs); thorough: every named unit"]
    return rep


def transparency(rep):
    from absint import lower_driver, Unsupported
    from tensoralg import run_shim, syms
    import poly as P
    from poly import Rat
    P.reset_registry()
    mod = lower_driver(os.path.join(VERIF, "drivers", "c20_units.cxx"), os.path.join(OUT, "C20"), "c20", opt="-O2")
    a, b = syms("a", 1)[0], syms("b", 1)[0]
    want = {"verif_qt_add": a + b, "verif_qt_sub": a - b, "verif_qt_mul": a * b, "verif_qt_div": a / b, "verif_qt_neg": -a,
            "verif_qt_scal": Rat(2) * a, "verif_qt_expr": (a + b) * (a - b) / (a * a), "verif_qt_pow2": a * a,
            "verif_qt_pluseq": a + b, "verif_qt_cast": a}
    for nm, w in sorted(want.items()):
        if nm not in mod["functions"]:
            raise AnalysisBroken("shim %s missing" % nm)
        try:
            r = run_shim(mod, nm, [[a, b]], [1])
        except Unsupported as e:
            raise AnalysisBroken("%s: %s" % (nm, e))
        rep.count("transparency shims")
        if len(r) != 1:
            rep.fail("TRANSPARENT@%s" % nm, "%s: %d paths for a single arithmetic operation" % (nm, len(r)))
            continue
        got = r[0][1][0][0]
        if got is not None and got.equals(w):
            rep.ok("%s computes %r on the payloads" % (nm, w))
        else:
            rep.fail("TRANSPARENT@%s" % nm, "%s computes %r on the payloads, expected %r" % (nm, got, w))
    rep.floor("transparency shims", 10)
